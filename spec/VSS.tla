-------------------------------- MODULE VSS --------------------------------
(***************************************************************************)
(* Pedersen's verifiable secret sharing [Pe91] as PedersenVSS::Share runs  *)
(* it, at the level of its rounds (reliable broadcast abstracted, private  *)
(* links), with one deviating party (the dealer or a receiver):            *)
(*   round 1  dealer broadcasts commitments A_k = g^a_k h^b_k and sends    *)
(*            (s_j, s'_j) = (f(j+1), f'(j+1)) privately                    *)
(*   round 2  every receiver checks g^s h^s' = prod A_k^((j+1)^k) and      *)
(*            broadcasts a complaint if it fails                            *)
(*   round 3  more than t complaints: dealer disqualified; otherwise the   *)
(*            dealer broadcasts the shares of the complainers               *)
(*   round 4  everybody checks the revealed shares: a wrong or missing one  *)
(*            disqualifies the dealer; a complainer adopts its revealed     *)
(*            share (Adopt = FALSE models the pinned code, finding F8)      *)
(* Checked exhaustively for n = 3, t = 1 in the group p=23, q=11: the       *)
(* honest parties take the same decision; if they accept, every honest      *)
(* share matches the commitments and the shares of the honest parties lie   *)
(* on one polynomial of degree <= t (the dealer's, if the dealer is honest).*)
(***************************************************************************)
EXTENDS DKG, TLC

CONSTANTS Adopt,       \* TRUE: repaired code; FALSE: the complainer keeps the share it received privately
          Coeffs       \* coefficient range of the dealer's polynomials
N == 3  T == 1
G == [p |-> 23, q |-> 11, g |-> 2, h |-> 3]
Parties == 0..(N - 1)
Dealer == 0
Recv == Parties \ {Dealer}

VARIABLES phase, bad,       \* who deviates (Parties, or N for nobody)
          fa, fb,           \* dealer's polynomials <<a0, a1>>, <<b0, b1>>
          sh,               \* sh[j] = <<s, s'>> the share party j holds
          compl,            \* set of receivers that complained
          reveal,           \* reveal[j] = <<s, s'>> published by the dealer (or <<>> if withheld)
          dec               \* dec[j] \in {"accept", "reject"}
vars == <<phase, bad, fa, fb, sh, compl, reveal, dec>>

Eval(f, z) == (f[1] + f[2] * z) % G.q
Commit == [k \in 1..(T + 1) |-> Pedersen(G, fa[k], fb[k])]
ShareOK(j, s) == Pedersen(G, s[1], s[2]) = CommitEval(G, Commit, j, 1)
Right(j) == <<Eval(fa, j + 1), Eval(fb, j + 1)>>
Honest == Parties \ {bad}

Init == /\ phase = 1 /\ bad \in Parties \cup {N}
        /\ fa \in [1..2 -> Coeffs] /\ fb \in [1..2 -> Coeffs]
        /\ sh = [j \in Parties |-> <<0, 0>>] /\ compl = {} /\ reveal = [j \in Recv |-> <<>>] /\ dec = [j \in Parties |-> "none"]

\* round 1: private shares; a faulty dealer may hand one receiver a pair with a wrong first or second component
Deal == /\ phase = 1
        /\ \/ sh' = [j \in Parties |-> Right(j)]
           \/ /\ bad = Dealer
              /\ \E v \in Recv, ds \in 0..1, dt \in 0..1 : (ds + dt > 0) /\
                   sh' = [j \in Parties |-> IF j = v THEN <<(Right(j)[1] + ds) % G.q, (Right(j)[2] + dt) % G.q>> ELSE Right(j)]
        /\ phase' = 2 /\ UNCHANGED <<bad, fa, fb, compl, reveal, dec>>
\* round 2: complaints; a faulty receiver may complain without reason (or keep quiet)
Complain == /\ phase = 2
            /\ LET due == {j \in Recv : ~ShareOK(j, sh[j])} IN
               \/ compl' = due
               \/ bad \in Recv /\ compl' \in {due \cup {bad}, due \ {bad}}
            /\ phase' = 3 /\ UNCHANGED <<bad, fa, fb, sh, reveal, dec>>
\* round 3: the dealer answers; a faulty dealer may reveal a wrong pair or withhold an answer
Answer == /\ phase = 3
          /\ IF Cardinality(compl) > T THEN reveal' = reveal
             ELSE \/ reveal' = [j \in Recv |-> IF j \in compl THEN Right(j) ELSE <<>>]
                  \/ /\ bad = Dealer /\ compl # {}
                     /\ \E v \in compl : reveal' \in { [j \in Recv |-> IF j = v THEN <<>> ELSE IF j \in compl THEN Right(j) ELSE <<>>],
                                                       [j \in Recv |-> IF j = v THEN <<(Right(j)[1] + 1) % G.q, Right(j)[2]>> ELSE IF j \in compl THEN Right(j) ELSE <<>>] }
          /\ phase' = 4 /\ UNCHANGED <<bad, fa, fb, sh, compl, dec>>
\* round 4: decision and adoption
Decide == /\ phase = 4
          /\ LET ok == Cardinality(compl) <= T /\ \A j \in compl : reveal[j] # <<>> /\ ShareOK(j, reveal[j]) IN
             /\ dec' = [j \in Parties |-> IF ok THEN "accept" ELSE "reject"]
             /\ sh' = [j \in Parties |-> IF ok /\ j \in compl /\ Adopt THEN reveal[j] ELSE sh[j]]
          /\ phase' = 5 /\ UNCHANGED <<bad, fa, fb, compl, reveal>>
Next == Deal \/ Complain \/ Answer \/ Decide
Spec == Init /\ [][Next]_vars

Done == phase = 5
Agreement == Done => \A a, b \in Honest : dec[a] = dec[b]
HonestDealerAccepted == (Done /\ Dealer \in Honest) => \A j \in Honest : dec[j] = "accept"
\* C15: after an accepted sharing every honest party's share matches the public commitments ...
SharesMatch == (Done /\ \E j \in Honest : dec[j] = "accept") => \A j \in Honest \cap Recv : ShareOK(j, sh[j])
\* ... and the honest receivers' shares determine the dealer's secret
Secret == (Done /\ \E j \in Honest : dec[j] = "accept" /\ Cardinality(Honest \cap Recv) >= T + 1) =>
             Interpolate(G, Honest \cap Recv, [j \in Honest \cap Recv |-> sh[j][1]]) = fa[1] % G.q
=============================================================================
