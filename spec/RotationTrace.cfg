SPECIFICATION TSpec
INVARIANTS Transport ProverLines ProverOracle ProverCoins VerifierOracle VerifierLines VerifierCoins Verdict Complete ExactSet BoundPub
POSTCONDITION Accepted
CHECK_DEADLOCK FALSE
