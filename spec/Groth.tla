-------------------------------- MODULE Groth --------------------------------
(***************************************************************************)
(* Groth's verifiable shuffle [Gr05] (J. Groth, "A Verifiable Secret        *)
(* Shuffle of Homomorphic Encryptions", ePrint 2005/246): the argument for  *)
(* a shuffle of known content (SKC, section 4) and the argument for a       *)
(* shuffle of ElGamal ciphertexts (VSSHE, section 5) with the Pedersen      *)
(* commitment  com_ck(m_1..m_n; r) = h^r prod g_i^(m_i)  in a Schnorr group. *)
(* Written from the paper; properties C03 (completeness), C04 (soundness:   *)
(* exact verdict on false statements), C05 (binding of transmitted values   *)
(* and public inputs).                                                       *)
(*                                                                          *)
(* SKC      common input ck, c, m_1..m_n; the prover knows pi, r with        *)
(*          c = com(m_pi(1) .. m_pi(n); r)                                   *)
(*   V -> P   x                                                              *)
(*   P -> V   c_d = com(d; r_d), c_D = com(-D_1 d_2, .., -D_(n-1) d_n; r_D), *)
(*            c_a = com(D_(i+1) - (m_pi(i+1) - x) D_i - a_i d_(i+1); r_a)    *)
(*            with D_1 = d_1, D_n = 0, a_i = prod_(j<=i) (m_pi(j) - x)       *)
(*   V -> P   e                                                              *)
(*   P -> V   f_i = e m_pi(i) + d_i, z = e r + r_d,                          *)
(*            fD_i = e (D_(i+1) - (m_pi(i+1) - x) D_i - a_i d_(i+1)) - D_i d_(i+1), *)
(*            zD = e r_a + r_D                                               *)
(*   V        c_d, c_a, c_D in C_ck; f_i, z, fD_i, zD in Z_q;                 *)
(*            c^e c_d = com(f; z);  c_a^e c_D = com(fD; zD);                 *)
(*            F_n = e prod (m_i - x), F_1 = f_1 - e x,                        *)
(*            e F_(i+1) = F_i (f_(i+1) - e x) + fD_i                         *)
(* VSSHE    common input pk, e_1..e_n, E_1..E_n; the prover knows pi, R_i    *)
(*          with E_i = e_pi(i) E(1; R_i)                                     *)
(*   P -> V   c = com(pi(1)..pi(n); r), c_d = com(-d_1..-d_n; r_d),          *)
(*            E_d = prod E_i^(-d_i) E(1; R_d)                                *)
(*   V -> P   t_1..t_n                                                       *)
(*   P -> V   f_i = t_pi(i) + d_i,  Z = sum t_pi(i) R_i + R_d                *)
(*   V -> P   lambda                                                         *)
(*   P <-> V  SKC for c^lambda c_d com(f; 0), m_i = lambda i + t_i,          *)
(*            witness pi, rho = lambda r + r_d                               *)
(*   V        c, c_d in C_ck, E_d in C_pk, f_i, Z in range,                  *)
(*            prod e_i^(-t_i) prod E_i^(f_i) E_d = E(1; Z)                   *)
(*                                                                          *)
(* The challenge source is a parameter of everything below: the operators   *)
(* take the effective challenges (x, e, t, lambda, and the verifier's batch *)
(* coin alpha).  Who produces them - a verifier coin (interactive), the     *)
(* two-party coin flip (public coin), the hash oracle (non-interactive) -   *)
(* is fixed by the module that uses this one (MC_Groth: all values,         *)
(* GrothTrace: the logged coins / flips / oracle answers); the tuples the    *)
(* oracle must be asked for are prescribed here (TupT, TupLam, TupX, TupE). *)
(*                                                                          *)
(* Deviations of the implementation (src/GrothVSSHE.cc, PedersenCOM.cc)     *)
(* from the paper, each modelled by a field of the verifier mode M:         *)
(*  D1 mem="range"    (historical: repaired in /repo by commit 3d7851a)     *)
(*                    commitments were tested for 0 < c < p only             *)
(*                    (PedersenCommitmentScheme::TestMembership), not for   *)
(*                    membership in the subgroup of order q: p - c_a was    *)
(*                    accepted whenever e is even.  The verifier mode ImplM *)
(*                    has the subgroup test; RangeM is the tree before the  *)
(*                    repair (negative control in MC_Groth, and the way     *)
(*                    GrothTrace names a regression)                        *)
(*  D2 zq="signed"    "in Z_q" is tested as v < q with a signed comparison: *)
(*                    negative representatives pass and are reduced         *)
(*  D3 batch=TRUE     batch verification of section 6: one random alpha,    *)
(*                    (c^e c_d)^alpha (c_a^e c_D) = com(alpha f + fD; alpha z + zD) *)
(*  D4 ezero="abort"  e = 0 mod q: the implementation inverts e under        *)
(*                    assert(); the interactive verifier redraws e = 0      *)
(*  D5 flow=TRUE      VSSHE: f_i must have at least l bits (l = l_e, resp.  *)
(*                    2 l_e non-interactively) - honest proofs with a       *)
(*                    smaller f_i are refused by design                     *)
(*  D6 znz=TRUE       VSSHE: Z = 0 is refused                               *)
(*  D7                E_d is tested as E_d^q = 1 mod p without range test   *)
(*                    (a representative outside 1..p-1 passes; both modes)  *)
(*  D8                challenges are truncated to l_e bits (2 l_e bits in   *)
(*                    the non-interactive forms, section 2.5 of the paper)  *)
(*  D9 opt            VSSHE passes c^lambda c_d (without com(f; 0)) to SKC,  *)
(*                    which checks c^e c_d = com(f' - e f; z) instead       *)
(*                    (equivalent when the generators have order q:          *)
(*                    theorem OptEquiv in MC_Groth)                         *)
(* All numbers stay below 2^31 for p <= 46337.                              *)
(***************************************************************************)
EXTENDS Prims, TLC

\* ------------------------------------------------------------- wire numbers
\* A transmitted value is an arbitrary integer (the reader accepts any numeral).  [id, sg, sm, bits, mq, mp]:
\* identity, sign, magnitude (-1: at least 2^30), mpz_sizeinbase(|v|, 2) (1 for zero), |v| mod q, |v| mod p.
Sgn(x) == IF x > 0 THEN 1 ELSE IF x < 0 THEN -1 ELSE 0
Abs(x) == IF x < 0 THEN -x ELSE x
SizeInBase2(a) == IF a = 0 THEN 1 ELSE BitLen(a)
W(p, q, x) == [id |-> ToString(x), sg |-> Sgn(x), sm |-> Abs(x), bits |-> SizeInBase2(Abs(x)),
               mq |-> Abs(x) % q, mp |-> Abs(x) % p]
\* x + p q 2^64: same residues, far above p and q
WBig(p, q, x) == [id |-> "big+" \o ToString(x), sg |-> 1, sm |-> -1, bits |-> 94, mq |-> x % q, mp |-> x % p]
Small(n) == n.sm >= 0
Rq(q, n) == IF n.sg >= 0 THEN n.mq ELSE (q - n.mq) % q          \* residue modulo q
Rp(p, n) == IF n.sg >= 0 THEN n.mp ELSE (p - n.mp) % p          \* residue modulo p
Below(n, b) == n.sg < 0 \/ (Small(n) /\ n.sm < b)               \* v < b, signed
InRange0(n, b) == n.sg >= 0 /\ Small(n) /\ n.sm < b             \* 0 <= v < b
InRange1(n, b) == n.sg = 1 /\ Small(n) /\ n.sm < b              \* 0 < v < b
AbsBelow(n, b) == Small(n) /\ n.sm < b                          \* |v| < b

\* ---------------------------------------------------------------- the group
\* G = [p, q, g, h]: ElGamal in the subgroup of order q of Z_p^*, generator g, public key h
\* ck = [p, q, h, g]: commitment key, g a sequence of at least n generators
Member(p, q, a) == a > 0 /\ a < p /\ PowM(a, q, p) = 1
SmallPrime(n) == n > 1 /\ n <= 46337 /\ \A d \in 2..215 : (d < n /\ d * d <= n) => (n % d # 0)
IsGroup(p, q) == SmallPrime(p) /\ SmallPrime(q) /\ (p - 1) % q = 0
MulP(p, a, b) == ((a % p) * (b % p)) % p
PowP(p, b, e) == PowM(b % p, e, p)                              \* b^e mod p, e >= 0 (0^0 = 1 as in GMP)
\* b^e for any integer e as the library computes it: a negative exponent inverts the base first
PowI(p, b, e) == IF e >= 0 THEN PowP(p, b, e) ELSE PowM(InvM(b, p), -e, p)
RECURSIVE ProdP(_, _)
ProdP(p, s) == IF Len(s) = 0 THEN 1 % p ELSE MulP(p, s[1], ProdP(p, Tail(s)))
AddQ(q, a, b) == ((a % q) + (b % q)) % q
SubQ(q, a, b) == ((a % q) - (b % q)) % q
MulQ(q, a, b) == ((a % q) * (b % q)) % q
RECURSIVE SumQ(_, _)
SumQ(q, s) == IF Len(s) = 0 THEN 0 ELSE AddQ(q, s[1], SumQ(q, Tail(s)))
GoodCk(ck, n) == /\ IsGroup(ck.p, ck.q) /\ Len(ck.g) >= n
                 /\ Member(ck.p, ck.q, ck.h) /\ ck.h # 1
                 /\ \A i \in 1..Len(ck.g) : Member(ck.p, ck.q, ck.g[i]) /\ ck.g[i] # 1 /\ ck.g[i] # ck.h
                 /\ \A i, j \in 1..Len(ck.g) : i < j => ck.g[i] # ck.g[j]
GoodG(G) == IsGroup(G.p, G.q) /\ Member(G.p, G.q, G.g) /\ G.g # 1 /\ Member(G.p, G.q, G.h)

\* com_ck(m; r) with exponents taken as given (integers >= 0); the generators may be anything (a verifier whose
\* key was tampered with computes exactly this)
Com(ck, m, r) ==
  MulP(ck.p, PowP(ck.p, ck.h, r), ProdP(ck.p, [i \in 1..Len(m) |-> PowP(ck.p, ck.g[i], m[i])]))
\* ElGamal: E(m; R) = <<g^R, h^R m>>
Enc(G, m, R) == <<PowP(G.p, G.g, R % G.q), MulP(G.p, PowP(G.p, G.h, R % G.q), m)>>
CtMul(p, a, b) == <<MulP(p, a[1], b[1]), MulP(p, a[2], b[2])>>
CtPow(p, a, e) == <<PowI(p, a[1], e), PowI(p, a[2], e)>>
RECURSIVE CtProd(_, _)
CtProd(p, s) == IF Len(s) = 0 THEN <<1, 1>> ELSE CtMul(p, s[1], CtProd(p, Tail(s)))
\* the statement of VSSHE: E is a re-encrypted permutation of e (pi 1-based: E_i = e_pi(i) E(1; R_i))
Shuffled(G, es, pi, R) == [i \in 1..Len(es) |-> CtMul(G.p, es[pi[i]], Enc(G, 1, R[i]))]
IsPerm(pi, n) == Len(pi) = n /\ \A i \in 1..n : pi[i] \in 1..n /\ \A j \in 1..n : (i # j) => pi[i] # pi[j]
Perms(n) == {pi \in [1..n -> 1..n] : IsPerm(pi, n)}

\* ----------------------------------------------------------- SKC: the prover
\* coins, in the order the prover draws them: r_d, r_D, d_1..d_n, D_2..D_(n-1), r_a
NSKC(n) == 2 * n + 1
SKCCoins(n, s) == [rd |-> s[1], rD |-> s[2], d |-> SubSeq(s, 3, n + 2), D |-> SubSeq(s, n + 3, 2 * n), ra |-> s[2 * n + 1]]
SKCDelta(n, co) == [i \in 1..n |-> IF i = n THEN 0 ELSE IF i = 1 THEN co.d[1] ELSE co.D[i - 1]]
RECURSIVE SKCA(_, _, _, _, _)
SKCA(q, m, pi, x, i) == IF i = 0 THEN 1 ELSE (((m[pi[i]] - x) % q) * SKCA(q, m, pi, x, i - 1)) % q
\* the vectors committed to in c_D and c_a
SKCvD(q, n, co) == LET Dl == SKCDelta(n, co) IN
  [i \in 1..n |-> IF i < n THEN (0 - ((Dl[i] * co.d[i + 1]) % q)) % q ELSE 0]
SKCva(q, n, m, pi, co, x) == LET Dl == SKCDelta(n, co) IN
  [i \in 1..n |-> IF i < n
                  THEN SubQ(q, SubQ(q, Dl[i + 1], MulQ(q, m[pi[i + 1]] - x, Dl[i])), MulQ(q, SKCA(q, m, pi, x, i), co.d[i + 1]))
                  ELSE 0]
SKCFirst(ck, n, m, pi, co, x) ==
  <<Com(ck, co.d, co.rd), Com(ck, SKCvD(ck.q, n, co), co.rD), Com(ck, SKCva(ck.q, n, m, pi, co, x), co.ra)>>
SKCAnswer(ck, n, m, pi, r, co, x, e) ==
  LET q == ck.q  eq == e % q
      vD == SKCvD(q, n, co)  va == SKCva(q, n, m, pi, co, x)
  IN [i \in 1..n |-> AddQ(q, MulQ(q, eq, m[pi[i]]), co.d[i])]
     \o <<AddQ(q, MulQ(q, eq, r), co.rd)>>
     \o [i \in 1..(n - 1) |-> AddQ(q, MulQ(q, eq, va[i]), vD[i])]
     \o <<AddQ(q, MulQ(q, eq, co.ra), co.rD)>>
\* the whole SKC transcript of the honest algorithm: c_d, c_D, c_a, f_1..f_n, z, fD_1..fD_(n-1), zD  (2n + 4 values)
SKCLen(n) == 2 * n + 4
SKCProve(ck, n, m, pi, r, co, x, e) == SKCFirst(ck, n, m, pi, co, x) \o SKCAnswer(ck, n, m, pi, r, co, x, e)

\* --------------------------------------------------------- SKC: the verifier
\* verifier modes (see the list of deviations in the header)
ImplM == [mem |-> "subgroup", zq |-> "signed", batch |-> TRUE, ezero |-> "abort", flow |-> TRUE, znz |-> TRUE]
ImplNoBatchM == [ImplM EXCEPT !.batch = FALSE]
RangeM == [ImplM EXCEPT !.mem = "range"]                                                      \* D1
DefM == [mem |-> "subgroup", zq |-> "strict", batch |-> FALSE, ezero |-> "undef", flow |-> FALSE, znz |-> FALSE]
MemCk(M, ck, n) == IF M.mem = "range" THEN InRange1(n, ck.p)                                  \* D1
                   ELSE InRange1(n, ck.p) /\ PowM(n.sm, ck.q, ck.p) = 1
InZq(M, q, n) == IF M.zq = "signed" THEN Below(n, q) ELSE InRange0(n, q)                      \* D2
\* F_n by the recursion of the paper (e invertible modulo q)
RECURSIVE SKCF(_, _, _, _, _, _)
SKCF(q, fr, fDr, ex, einv, i) ==
  IF i = 1 THEN (fr[1] - ex) % q
  ELSE MulQ(q, AddQ(q, MulQ(q, fr[i] - ex, SKCF(q, fr, fDr, ex, einv, i - 1)), fDr[i - 1]), einv)
RECURSIVE ProdMX(_, _, _, _)
ProdMX(q, m, x, i) == IF i = 0 THEN 1 ELSE (((m[i] - x) % q) * ProdMX(q, m, x, i - 1)) % q
SKCGuards(M, ck, n, T) == /\ MemCk(M, ck, T[1]) /\ MemCk(M, ck, T[2]) /\ MemCk(M, ck, T[3])
                          /\ \A k \in 4..(2 * n + 4) : InZq(M, ck.q, T[k])
\* T: the 2n+4 received values (wire numbers); c: the commitment of the statement (an integer, used modulo p);
\* fp: the vector f' of D9 (zeros for the plain argument); result "accept" / "reject" / "abort" / "undef"
SKCVerify(M, ck, n, c, fp, m, T, x, e, alpha) ==
  LET p == ck.p  q == ck.q
      fr == [i \in 1..n |-> Rq(q, T[3 + i])]
      zr == Rq(q, T[4 + n])
      fDr == [i \in 1..n |-> IF i < n THEN Rq(q, T[4 + n + i]) ELSE 0]
      zDr == Rq(q, T[2 * n + 4])
      cd == T[1].sm  cD == T[2].sm  ca == T[3].sm
      guards == SKCGuards(M, ck, n, T)
      eq == e % q
      f2 == [i \in 1..n |-> SubQ(q, fr[i], MulQ(q, eq, fp[i]))]            \* f' - e f  (D9)
      l1 == MulP(p, PowP(p, c, e), cd)
      l2 == MulP(p, PowP(p, ca, e), cD)
      eqs == IF M.batch
             THEN LET lhs == MulP(p, PowP(p, l1, alpha), l2)
                      aq == alpha % q
                  IN /\ lhs > 0                                          \* com->Verify: 0 < c < p
                     /\ lhs = Com(ck, [i \in 1..n |-> AddQ(q, MulQ(q, aq, f2[i]), fDr[i])], AddQ(q, MulQ(q, aq, zr), zDr))
             ELSE /\ l1 > 0 /\ l1 = Com(ck, f2, zr)
                  /\ l2 > 0 /\ l2 = Com(ck, fDr, zDr)
      Fok == SKCF(q, fr, fDr, (eq * (x % q)) % q, InvM(eq, q), n) = (eq * ProdMX(q, m, x, n)) % q
  IN IF ~guards THEN "reject"
     ELSE IF ~eqs THEN "reject"
     ELSE IF eq = 0 THEN (IF M.ezero = "abort" THEN "abort" ELSE "undef")          \* D4
     ELSE IF Fok THEN "accept" ELSE "reject"

\* --------------------------------------------------------- VSSHE: the prover
\* coins of the first move, in the order drawn: r, R_d, d_1..d_n, r_d; then the SKC coins
NV1(n) == n + 3
VCoins(n, s) == [r |-> s[1], Rd |-> s[2], d |-> SubSeq(s, 3, n + 2), rd |-> s[n + 3]]
VFirst(G, ck, n, pi, Es, vc) ==
  LET p == G.p  q == ck.q
      Ed == CtMul(p, CtProd(p, [i \in 1..n |-> CtPow(p, Es[i], 0 - vc.d[i])]), Enc(G, 1, vc.Rd))
  IN <<Com(ck, pi, vc.r), Com(ck, [i \in 1..n |-> (q - vc.d[i]) % q], vc.rd), Ed[1], Ed[2]>>
VSecond(G, ck, n, pi, R, vc, t) ==
  [i \in 1..n |-> AddQ(ck.q, t[pi[i]], vc.d[i])]
  \o <<(SumQ(G.q, [i \in 1..n |-> ((t[pi[i]] % G.q) * (R[i] % G.q)) % G.q]) + vc.Rd) % G.q>>
\* the SKC instance inside VSSHE
VM(q, n, t, lam) == [i \in 1..n |-> AddQ(q, MulQ(q, i, lam), t[i])]
VRho(q, vc, lam) == AddQ(q, MulQ(q, lam, vc.r), vc.rd)
VLen(n) == 3 * n + 9
\* the whole VSSHE transcript of the honest algorithm: c, c_d, E_d (2), f_1..f_n, Z, then the SKC transcript
VProve(G, ck, n, pi, R, Es, vc, sc, t, lam, x, e) ==
  VFirst(G, ck, n, pi, Es, vc) \o VSecond(G, ck, n, pi, R, vc, t)
  \o SKCProve(ck, n, VM(ck.q, n, t, lam), pi, VRho(ck.q, vc, lam), sc, x, e)

\* ------------------------------------------------------- VSSHE: the verifier
\* v^f for a received exponent f as the library computes it (mpz_powm with the integer as it was read)
PowW(p, b, n) == IF n.sg >= 0 THEN PowP(p, b, n.sm) ELSE PowM(InvM(b % p, p), n.sm, p)
\* what the model covers: a negative exponent meets invertible bases only and is small
VModelled(G, n, Es, T) == \A i \in 1..n : (T[4 + i].sg < 0) => (Small(T[4 + i]) /\ Es[i][1] % G.p # 0 /\ Es[i][2] % G.p # 0)
VGuards(M, G, ck, n, T, L) ==
  /\ MemCk(M, ck, T[1]) /\ MemCk(M, ck, T[2])
  /\ PowM(Rp(G.p, T[3]), G.q, G.p) = 1 /\ PowM(Rp(G.p, T[4]), G.q, G.p) = 1                    \* D7
  /\ \A i \in 1..n : /\ InZq(M, ck.q, T[4 + i])
                     /\ M.flow => T[4 + i].bits >= L                                         \* D5
  /\ IF M.znz THEN InRange1(T[5 + n], G.q) ELSE InRange0(T[5 + n], G.q)                        \* D6
\* T: the 3n+9 received values; es, Es: the ciphertext vectors as the verifier holds them (integers);
\* L: the bit length asked of the f_i (D5/D8: l_e, non-interactively 2 l_e)
VVerify(M, G, ck, n, es, Es, T, t, lam, x, e, alpha, L) ==
  LET p == G.p  q == ck.q
      c == T[1].sm  cd == T[2].sm
      Ed == <<Rp(p, T[3]), Rp(p, T[4])>>
      fw == [i \in 1..n |-> T[4 + i]]
      Zw == T[5 + n]
      guards == VGuards(M, G, ck, n, T, L)
      C == MulP(p, PowP(p, c, lam), cd)                                                          \* D9
      skc == SKCVerify(M, ck, n, C, [i \in 1..n |-> Rq(q, fw[i])], VM(q, n, t, lam),
                       SubSeq(T, n + 6, 3 * n + 9), x, e, alpha)
      einv(k) == \A i \in 1..n : PowP(p, es[i][k], t[i]) # 0
      lhs(k) == MulP(p, MulP(p, ProdP(p, [i \in 1..n |-> InvM(PowP(p, es[i][k], t[i]), p)]),
                                  ProdP(p, [i \in 1..n |-> PowW(p, Es[i][k], fw[i])])), Ed[k])
      final == /\ einv(1) /\ einv(2)
               /\ lhs(1) = PowP(p, G.g, Zw.sm) /\ lhs(2) = PowP(p, G.h, Zw.sm)
  IN IF ~guards THEN "reject"
     ELSE IF skc # "accept" THEN skc
     ELSE IF final THEN "accept" ELSE "reject"
\* the paper's formulation of the inner argument (no D9): commitment c^lambda c_d com(f; 0), plain SKC
VVerifyPlain(M, G, ck, n, es, Es, T, t, lam, x, e, alpha, L) ==
  LET p == G.p  q == ck.q
      fr == [i \in 1..n |-> Rq(q, T[4 + i])]
      C == MulP(p, MulP(p, PowP(p, T[1].sm, lam), T[2].sm), Com(ck, fr, 0))
  IN SKCVerify(M, ck, n, C, [i \in 1..n |-> 0], VM(q, n, t, lam), SubSeq(T, n + 6, 3 * n + 9), x, e, alpha)

\* ------------------------------------------------ two-party coin flip (public coin)
\* JareckiLysyanskayaEDCF::Flip_twoparty in the group Ge = [p, q, g, h]: each party sends C = g^a h^b, then (a, b);
\* the coin is the sum of the two a.  A party accepts the peer's three values iff C is an element of the subgroup,
\* |a|, |b| < q and C = g^a h^b.
FlipSend(Ge, a, b) == <<MulP(Ge.p, PowP(Ge.p, Ge.g, a % Ge.q), PowP(Ge.p, Ge.h, b % Ge.q)), a, b>>
FlipAccepts(Ge, wC, wa, wb) ==
  /\ InRange1(wC, Ge.p) /\ PowM(wC.sm, Ge.q, Ge.p) = 1
  /\ AbsBelow(wa, Ge.q) /\ AbsBelow(wb, Ge.q)
  /\ MulP(Ge.p, PowP(Ge.p, Ge.g, Rq(Ge.q, wa)), PowP(Ge.p, Ge.h, Rq(Ge.q, wb))) = wC.sm
FlipValue(Ge, wa, own) == (Rq(Ge.q, wa) + own) % Ge.q

\* ------------------------------------------------------ the oracle discipline
\* Non-interactive forms: the challenge is the answer of the hash oracle to exactly these tuples (sequences of
\* numerals; received values enter as they were read), truncated to 2 l_e bits.
S(x) == ToString(x)
FlatCt(cs) == [k \in 1..(2 * Len(cs)) |-> S(cs[(k + 1) \div 2][2 - (k % 2)])]
Ids(T) == [k \in 1..Len(T) |-> T[k].id]
Strs(s) == [k \in 1..Len(s) |-> S(s[k])]
\* t_i (i = 1..n): the statement, both keys, the i-th generator, the first move, the previous t (2 l_e for the first), i-1
TupT(G, ck, es, Es, T, i, prev) ==
  FlatCt(es) \o FlatCt(Es) \o <<S(G.p), S(G.q), S(G.g), S(G.h), S(ck.p), S(ck.q), S(ck.g[i]), S(ck.h),
                                T[1].id, T[2].id, T[3].id, T[4].id, S(prev), S(i - 1)>>
TupLam(G, ck, n, es, Es, T, t) ==
  FlatCt(es) \o FlatCt(Es) \o Strs(t) \o [i \in 1..n |-> T[4 + i].id] \o <<S(G.g), S(G.h), S(ck.q), S(G.q), T[5 + n].id>>
\* the SKC challenges; Ts: the SKC part of the transcript.  As implemented the commitment c of the statement is
\* not part of either tuple (inside VSSHE it is determined by values hashed before).
TupX(ck, m) == Strs(ck.g) \o Strs(m) \o <<S(ck.p), S(ck.q), S(ck.h)>>
TupE(ck, m, x, Ts) == Strs(ck.g) \o Strs(m) \o <<S(x), Ts[1].id, Ts[2].id, Ts[3].id>>

\* ----------------------------------------------------------------- mutations
\* the catalogue of C05 applied to position k of a sequence of wire numbers (p, q: the moduli in use)
MutNames == {"plus1", "otherres", "zero", "one", "pm1", "p", "q", "plusq", "minusq", "plusp", "nonmember", "neg",
             "oversized", "swap"}
MutApplies(T, k, mu) == IF mu = "swap" THEN k < Len(T) /\ T[k].id # T[k + 1].id ELSE TRUE
MutW(p, q, w, mu) ==
  LET v == w.sg * w.sm IN
  CASE mu = "plus1" -> W(p, q, v + 1)
    [] mu = "otherres" -> W(p, q, (v * 2 + 3) % q)
    [] mu = "zero" -> W(p, q, 0)
    [] mu = "one" -> W(p, q, 1)
    [] mu = "pm1" -> W(p, q, p - 1)
    [] mu = "p" -> W(p, q, p)
    [] mu = "q" -> W(p, q, q)
    [] mu = "plusq" -> W(p, q, v + q)
    [] mu = "minusq" -> W(p, q, v - q)
    [] mu = "plusp" -> W(p, q, v + p)
    [] mu = "nonmember" -> W(p, q, p - v)
    [] mu = "neg" -> W(p, q, 0 - v)
    [] mu = "oversized" -> WBig(p, q, v)
MutSeq(p, q, T, k, mu) == IF mu = "swap" THEN [T EXCEPT ![k] = T[k + 1], ![k + 1] = T[k]]
                          ELSE [T EXCEPT ![k] = MutW(p, q, T[k], mu)]
\* the property's notion of "equivalent" for a replaced value: the same residue modulo q for an exponent that
\* still lies below the group order, the same element for a commitment / ciphertext component
ExpEquiv(q, a, b) == Rq(q, a) = Rq(q, b) /\ Below(b, q)
ElemEquiv(p, a, b) == Rp(p, a) = Rp(p, b)
=============================================================================
