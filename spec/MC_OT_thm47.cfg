SPECIFICATION ThmSpec
CONSTANTS
 P = 47
 Q = 23
 Gg = 2
 Vars = {"two"}
 Ns = {2}
 MsgVecs = {}
 CCoins = {}
 SCoins = {}
 Tamper = FALSE
 PowM <- TabPowM
INVARIANTS SlotTheoremFew
CHECK_DEADLOCK FALSE
