SPECIFICATION Spec
CONSTANTS
 Insts <- Insts_C05_td
 MaskOneAsCoded = FALSE
INVARIANT Thm
CHECK_DEADLOCK FALSE
