----------------------------- MODULE ArithGen -----------------------------
(***************************************************************************)
(* Exhaustive small-domain enumeration for property C09 (direction A).     *)
(* TLC walks a tree  root -> parameter (modulus / prime / pair / size) ->   *)
(* case;  in every case state it                                            *)
(*   - checks the theorems that make Arith.tla a trustworthy oracle         *)
(*     (invariant Theorems), and                                              *)
(*   - prints the case together with the expected results / accepted sets   *)
(*     computed from the definitions (invariant Emit), one JSON per line.   *)
(* checks/c09.py hands the printed cases to harness/drv_arith.cc, which     *)
(* runs the real routines and reports raw results; the comparison is a      *)
(* table lookup.  Fams selects the families, P the bounds (PQuick/PThorough).*)
(***************************************************************************)
EXTENDS Arith, Json

CONSTANTS Fams,   \* the families enumerated in this run: subset of {"pow", "powT", "koch", "sqp", "sqn", "ip", "big"}
          P       \* record of bounds

VARIABLE st
gvars == <<st>>

PQuick == [ ModHi |-> 101, Even |-> {2, 4, 6, 8, 10, 12, 16}, ELo |-> -40, EHi |-> 40,
            CoinMax |-> 23, RepMax |-> 31,
            T |-> 2048, TMods |-> {3, 5, 7, 9, 15, 21},
            TR |-> {0, 1, 3}, KLo |-> -9, KHi |-> 9, KMods |-> {3, 5, 7, 9, 11, 13, 15, 21, 23},
            PHi |-> 400, NqAll |-> 120, RootThm |-> 200,
            NHi |-> 60, NThm |-> 200,
            Ip |-> { <<2, 1>>, <<2, 2>>, <<2, 3>>, <<3, 1>>, <<3, 2>>, <<3, 3>>, <<3, 4>>,
                     <<5, 1>>, <<5, 2>>, <<5, 3>>, <<7, 1>>, <<7, 2>> },
            IpColl |-> 3,
            BigInit |-> {<<0, 0, 0>>, <<6, 4, 0>>, <<1, 0, 7>>}, BigDeep |-> {<<0, 0, 0>>}, BigDepth |-> 2, BigU |-> {0, 1, 7}, BigUi |-> {0, 3}, BigMax |-> 100000 ]
PThorough == [ ModHi |-> 257, Even |-> {2, 4, 6, 8, 10, 12, 16, 18, 20, 24, 30, 32, 64, 100, 128},
            ELo |-> -70, EHi |-> 70,
            CoinMax |-> 41, RepMax |-> 61,
            T |-> 2048, TMods |-> {3, 5, 7, 9, 11, 13, 15, 17, 19, 21, 23, 25, 27, 33, 35, 49, 77, 101},
            TR |-> {0, 1, 2, 3, 5}, KLo |-> -16, KHi |-> 16, KMods |-> {3, 5, 7, 9, 11, 13, 15, 17, 19, 21, 23, 25, 27, 29, 31, 33, 35, 37, 39, 41},
            PHi |-> 2000, NqAll |-> 200, RootThm |-> 600,
            NHi |-> 100, NThm |-> 600,
            Ip |-> { <<2, 1>>, <<2, 2>>, <<2, 3>>, <<3, 1>>, <<3, 2>>, <<3, 3>>, <<3, 4>>,
                     <<5, 1>>, <<5, 2>>, <<5, 3>>, <<5, 4>>, <<5, 5>>, <<5, 6>>, <<7, 1>>, <<7, 2>>, <<7, 3>>, <<7, 4>>,
                     <<11, 1>>, <<11, 2>>, <<11, 3>>, <<13, 1>>, <<13, 2>>, <<13, 3>> },
            IpColl |-> 5,
            BigInit |-> {<<0, 0, 0>>, <<6, 4, 0>>, <<1, 0, 7>>, <<5, 5, 0>>, <<12, 1, 3>>}, BigDeep |-> {<<0, 0, 0>>, <<6, 4, 0>>, <<1, 0, 7>>, <<5, 5, 0>>}, BigDepth |-> 2, BigU |-> {0, 1, 2, 7, 30},
            BigUi |-> {0, 1, 2, 3, 7}, BigMax |-> 1000000 ]

Moduli == {m \in 3..P.ModHi : m % 2 = 1} \cup P.Even
ERange == P.ELo..P.EHi
NE == P.EHi - P.ELo + 1
EBitsMax == Bits(Max2(-P.ELo, P.EHi))      \* no exponent of the family pow is longer than this
OddPrimes(hi) == PrimesIn(3, hi - 1)

--------------------------------------------------------------------------
(* family big: the wrapper as a register machine.  Registers 0 and 1 are     *)
(* worked on (register 2 only holds its initial value); every sequence of up  *)
(* to BigDepth updating operations with non-negative operands, followed by    *)
(* every comparison / observation.                                           *)
RF(rs) == [i \in 0..2 |-> rs[i + 1]]
Rec(op, d, s, u, mx) == [op |-> op, d |-> d, s |-> s, t |-> 0, u |-> u, mx |-> mx]
BigUpd ==
  {Rec("set_ui", d, 0, u, 0) : d \in 0..1, u \in P.BigU} \cup
  {Rec(op, d, s, 0, mx) : op \in RegOperandOps, d \in 0..1, s \in 0..1, mx \in {0, 1}} \cup
  {Rec(op, d, 0, u, 0) : op \in {"add_ui", "sub_ui", "mul_ui", "div_ui", "mod_ui"}, d \in 0..1, u \in P.BigUi} \cup
  {Rec(op, d, 0, 0, 0) : op \in {"neg", "abs"}, d \in 0..1} \cup
  {Rec(op, d, 0, u, 0) : op \in {"mul2exp", "div2exp"}, d \in 0..1, u \in {0, 2}}
BigEnabled(o, r) == InProperty(o, r) /\ OpDefined(o, r) /\ Abs(OpValue(o, r)) <= P.BigMax
BigObs(r) ==
  {Rec("cmp", d, s, 0, 0) : d \in 0..1, s \in 0..2} \cup
  UNION {{Rec("obs", d, 0, u, 0) : u \in {0, Abs(r[d])}} : d \in 0..1}
BigDepthOf(init) == IF init \in P.BigDeep THEN P.BigDepth ELSE 1
BigNext ==
  /\ Len(st.hist) < BigDepthOf(st.init)
  /\ \E o \in BigUpd :
       /\ BigEnabled(o, RF(st.rs))
       /\ LET after == OpAfter(o, RF(st.rs))
              rs2 == <<after[0], after[1], after[2]>>
          IN st' = [st EXCEPT !.rs = rs2,
                             \* <<op, d, s, u, mixed, value of d afterwards, secure side may refuse, registers afterwards>>
                             !.hist = Append(@, <<o.op, o.d, o.s, o.u, o.mx, OpValue(o, RF(st.rs)), B01(o.op \in PlainOnlyOps), rs2>>)]
BigLine ==
  LET r == RF(st.rs) IN
  [ f |-> "big", init |-> st.init, hist |-> st.hist,
    \* <<"cmp", d, s, the six answers>> / <<"obs", d, u, the five answers, bit length, value, is prime>>
    obs |-> { IF o.op = "cmp" THEN <<"cmp", o.d, o.s, CmpWant(r[o.d], r[o.s])>>
              ELSE <<"obs", o.d, o.u, ObsWant(r[o.d], o.u), Bits(Abs(r[o.d])), r[o.d], B01(IsPrime(r[o.d]))>>
              : o \in {z \in BigObs(r) : InProperty(z, r) /\ (z.op = "cmp" => z.d # z.s)} } ]
\* the laws that tie division, remainder, sign and order together
ThBig ==
  LET r == RF(st.rs) IN
  \A i, j \in 0..1 :
     LET x == r[i]  y == r[j] IN
       /\ (x >= 0 /\ y > 0) => (BigVal("div", x, y, 0) * y + BigVal("mod", x, y, 0) = x /\ BigVal("mod", x, y, 0) \in 0..(y - 1))
       /\ BigVal("neg", BigVal("neg", x, 0, 0), 0, 0) = x /\ BigVal("abs", x, 0, 0) >= 0
       /\ BigVal("sub", BigVal("add", x, y, 0), y, 0) = x
       /\ Cmp(x, y) = -Cmp(y, x) /\ (Cmp(x, y) = 0 <=> x = y)
       /\ x >= 0 => BigVal("div2exp", BigVal("mul2exp", x, 2, 0), 2, 0) = x

--------------------------------------------------------------------------
(* the tree                                                                 *)
Root == [k |-> "root"]
Init == st = Root
Level1 ==
  (IF "pow"  \in Fams THEN {[k |-> "m", fam |-> "pow", m |-> m] : m \in Moduli} ELSE {}) \cup
  (IF "powT" \in Fams THEN {[k |-> "m", fam |-> "powT", m |-> m] : m \in P.TMods} ELSE {}) \cup
  (IF "koch" \in Fams THEN {[k |-> "m", fam |-> "koch", m |-> m] : m \in P.KMods} ELSE {}) \cup
  (IF "sqp"  \in Fams THEN {[k |-> "sqp", p |-> p] : p \in OddPrimes(P.PHi)} ELSE {}) \cup
  (IF "sqn"  \in Fams THEN {[k |-> "sqn", p |-> z[1], q |-> z[2]] :
                              z \in {y \in OddPrimes(P.NHi) \X OddPrimes(P.NHi) : y[1] < y[2]}} ELSE {}) \cup
  (IF "ip"   \in Fams THEN {[k |-> "qm", fam |-> "ip", q |-> z[1], n |-> z[2]] : z \in P.Ip} ELSE {}) \cup
  (IF "big"  \in Fams THEN {[k |-> "big", init |-> z, rs |-> z, hist |-> <<>>] : z \in P.BigInit} ELSE {})
Level2(s) ==
  CASE s.fam = "pow"  -> {[k |-> "pow", m |-> s.m, b |-> b] : b \in 0..(s.m - 1)}
    [] s.fam = "powT" -> {[k |-> "powT", m |-> s.m, b |-> b] : b \in 0..(s.m - 1)}
    [] s.fam = "koch" -> {[k |-> "koch", m |-> s.m, e |-> e] : e \in P.KLo..P.KHi}
    [] s.fam = "ip"   -> {[k |-> "ip", q |-> s.q, a |-> a] : a \in [1..s.n -> 0..(s.q - 1)]}
Next == \/ st = Root /\ st' \in Level1
        \/ st.k \in {"m", "qm"} /\ st' \in Level2(st)
        \/ st.k = "big" /\ BigNext
Spec == Init /\ [][Next]_gvars

--------------------------------------------------------------------------
(* family pow: all bases x exponents ELo..EHi x moduli                      *)
PowLine(m, b) ==
  LET cop  == Coprime(b, m)
      rowP == PowRow(b, m, P.EHi)
      rowN == IF cop THEN PowRow(InvM(b, m), m, -P.ELo) ELSE <<>>
      V(e) == IF e >= 0 THEN rowP[e + 1] ELSE IF cop THEN rowN[(-e) + 1] ELSE -1
      E(i) == P.ELo + i - 1
      wrong == <<(b + 1) % m, b + m>>       \* another residue; the same residue as another integer
      nonunits == (0..(m - 1)) \ Units(m)
      u1 == CHOOSE u \in Units(m) : TRUE
  IN [ f |-> "pow", m |-> m, b |-> b, e0 |-> P.ELo,
       v |-> [i \in 1..NE |-> V(E(i))],
       c |-> [i \in 1..NE |-> PowClassC(cop, E(i))],
       co |-> [i \in 1..NE |-> IF m % 2 = 1 THEN PowClassC(cop, E(i))
                               ELSE IF PowClassC(cop, E(i)) = REFUSE THEN REFUSE ELSE MAY],
       reps |-> IF m <= P.RepMax THEN <<b, b - m, b + m>> ELSE <<b>>,
       wrong |-> wrong,
       cw |-> [w \in 1..Len(wrong) |-> [i \in 1..NE |-> TabClassC(wrong[w], b, PowClassC(cop, E(i)), EBitsMax, P.T)]],
       \* blinding coins to dictate: every unit, and rejected draws (0 / a non-unit) followed by a unit;
       \* in each sequence all but the last entry are non-units, so exactly Len draws are consumed
       coins |-> IF m <= P.CoinMax THEN {<<r>> : r \in Units(m)} \cup {<<x, u1>> : x \in nonunits} \cup {<<0, 0, u1>>}
                 ELSE {} ]

ThPow(m, b) ==
  LET rowP == PowRow(b, m, P.EHi)
      cop == Coprime(b, m)
      half == P.EHi \div 2
  IN /\ HasInv(b, m) <=> cop                                                     \* Bezout
     /\ \A e \in 0..P.EHi : PowSq(b, e, m) = rowP[e + 1]                          \* halving = defining recursion
     /\ \A e \in {0, 1, 2, 3, half, P.EHi} : PowNat(b, e, m) = rowP[e + 1]
     /\ \A e1, e2 \in 0..half : rowP[e1 + e2 + 1] = (rowP[e1 + 1] * rowP[e2 + 1]) % m    \* b^(x+y) = b^x b^y
     /\ cop => /\ \A e \in {1, 2, 3, 7, 16, -P.ELo} : (PowDef(b, -e, m) * rowP[e + 1]) % m = 1 % m     \* b^-e b^e = 1
               /\ LET rowN == PowRow(InvM(b, m), m, -P.ELo) IN \A e \in 0..(-P.ELo) : (rowN[e + 1] * rowP[e + 1]) % m = 1 % m
               /\ \A e \in {P.ELo, -17, -8, -3, -2, -1, 0, 1, 2, 3, 8, 17, P.EHi} : Pow(b, e, m) = PowDef(b, e, m)
               /\ PowSq(b, Cardinality(Units(m)), m) = 1 % m                      \* Euler
     /\ (m <= P.CoinMax /\ cop) =>                                                \* blinding is invisible
           \A r \in Units(m), e \in {P.ELo, -3, -1, 0, 1, 2, 5, P.EHi} :
               (Pow(b * r, e, m) * Pow(InvM(r, m), e, m)) % m = Pow(b, e, m)
     /\ \A k \in 0..5 : Pow2k(b, k, m) = PowNat(b, Pow2(k), m)

--------------------------------------------------------------------------
(* family powT: exponents s (2^k + r) around the table limit T              *)
TermSet == {[s |-> s, k |-> k, r |-> r] : s \in {1, -1}, k \in {P.T - 2, P.T - 1, P.T, P.T + 3}, r \in P.TR}
PowTLine(m, b) ==
  LET cop == Coprime(b, m)
  IN [ f |-> "powT", m |-> m, b |-> b, T |-> P.T,
       terms |-> { [ s |-> t.s, k |-> t.k, r |-> t.r,
                     v |-> IF t.s > 0 \/ cop THEN PowTerm(b, t.s, t.k, t.r, m) ELSE -1,
                     ct |-> TabClass(b, b, t.s, TermBits(t.k), m, P.T),
                     cf |-> PowClassC(cop, t.s) ] : t \in TermSet } ]
ThPowT(m, b) ==
  \A s \in {1, -1}, k \in 2..4, r \in 0..3 :
     PowDefined(b, s, m) => PowTerm(b, s, k, r, m) = PowDef(b, s * (Pow2(k) + r), m)

--------------------------------------------------------------------------
(* family koch: one blinded context (exponent e, modulus m), a run of bases  *)
RECURSIVE AscSeq(_)
AscSeq(S) == IF S = {} THEN <<>>
              ELSE LET x == CHOOSE x \in S : \A y \in S : x <= y IN <<x>> \o AscSeq(S \ {x})
KochLine(m, e) ==
  LET bases == IF e >= 0 THEN AscSeq(0..(m - 1)) ELSE AscSeq(Units(m))
      u1 == CHOOSE u \in Units(m) : TRUE
  IN [ f |-> "koch", m |-> m, e |-> e, bases |-> bases,
       v |-> [i \in 1..Len(bases) |-> Pow(bases[i], e, m)],
       coins |-> {<<r>> : r \in Units(m)} \cup {<<0, u1>>} ]
\* why the seed update works: if vf = (vi^-1)^e then vf^2 = ((vi^2)^-1)^e, and (b vi)^e vf = b^e
ThKoch(m, e) ==
  \A vi \in Units(m) :
     LET vf == Pow(InvM(vi, m), e, m) IN
       /\ Pow(InvM((vi * vi) % m, m), e, m) = (vf * vf) % m
       /\ \A b \in (IF e >= 0 THEN 0..(m - 1) ELSE Units(m)) : (Pow(b * vi, e, m) * vf) % m = Pow(b, e, m)

--------------------------------------------------------------------------
(* family sqp: an odd prime p, its table of squares, non-residues            *)
SqpLine(p) ==
  LET qr == QRs(p)
      nq == (1..(p - 1)) \ qr
      lo == CHOOSE x \in nq : \A y \in nq : x <= y
      hi == CHOOSE x \in nq : \A y \in nq : x >= y
      some == IF p <= P.NqAll THEN nq ELSE {lo, hi}
  IN [ f |-> "sqp", p |-> p, c8 |-> p % 8,
       sq |-> [r \in 1..(p - 1) |-> Sq(r, p)],                        \* the relation "r is a root of sq[r]"
       ins |-> {<<a, a>> : a \in qr} \cup (IF p <= 60 THEN {<<a + p, a>> : a \in qr} ELSE {}),   \* <<argument, residue>>
       h1 |-> (p + 1) \div 4, h2 |-> (p - 1) \div 4, h3 |-> (p + 3) \div 8,
       nq |-> {<<b, PowSq(b, (p - 1) \div 4, p)>> : b \in some},        \* non-residue b and b^((p-1)/4)
       coins |-> some ]
ThSqp(p) ==
  LET qr == QRs(p)
      sqf == [r \in 1..(p - 1) |-> Sq(r, p)]
  IN /\ Cardinality(qr) = (p - 1) \div 2
     /\ \A a \in 1..(p - 1) : (PowSq(a, (p - 1) \div 2, p) = 1) <=> a \in qr          \* Euler's criterion
     /\ p <= P.RootThm => \A a \in qr : Cardinality({r \in 1..(p - 1) : sqf[r] = a}) = 2
     /\ p <= 60 => \A a \in 0..(p - 1) : (a \in qr <=> IsQR(a, p)) /\ (a \in qr => Roots(a, p) = {r \in 1..(p - 1) : sqf[r] = a})

--------------------------------------------------------------------------
(* family sqn: n = p q, p < q odd primes                                     *)
SqnLine(p, q) ==
  LET n == p * q
  IN [ f |-> "sqn", p |-> p, q |-> q, n |-> n, blum |-> IsBlum(p, q),
       sq |-> [r \in 1..(n - 1) |-> IF Gcd(r, n) = 1 THEN Sq(r, n) ELSE -1],     \* squares of the units
       up |-> Idem(p, q), vq |-> Idem(q, p),
       h1p |-> (p + 1) \div 4, h1q |-> (q + 1) \div 4 ]
ThSqn(p, q) ==
  LET n == p * q
      qr == QRs(n)
      qrp == QRs(p)
      qrq == QRs(q)
  IN /\ Cardinality(qr) * 4 = (p - 1) * (q - 1)
     /\ \A a \in 0..(n - 1) : a \in qr <=> (a % p \in qrp /\ a % q \in qrq)      \* what a residuosity test may use
     /\ (Idem(p, q) + Idem(q, p)) % n = 1
     /\ n <= P.NThm => /\ \A a \in qr : Cardinality(Roots(a, n)) = 4
                       /\ \A a \in qr, r \in 0..(n - 1) : IsRoot(r, a, n) <=> IsRootCRT(r, a, p, q)

--------------------------------------------------------------------------
(* family ip: abscissae a (all vectors), all polynomials of that length     *)
IpLine(q, a) ==
  LET n == Len(a)
      polys == [1..n -> 0..(q - 1)]
  IN IF DistinctMod(a, q)
     THEN [ f |-> "ip", q |-> q, a |-> a,
            \* the values of every polynomial f at a; the routine, given (a, values), must answer f
            fb |-> {<<f, [j \in 1..n |-> Eval(f, a[j], q)]>> : f \in polys} ]
     ELSE [ f |-> "ipc", q |-> q, a |-> a,       \* colliding abscissae: must answer "no"
            bs |-> {[j \in 1..n |-> (j * w + a[j]) % q] : w \in 0..(P.IpColl - 1)} ]
\* existence and uniqueness of the interpolating polynomial
ThIp(q, a) ==
  LET n == Len(a)
      polys == [1..n -> 0..(q - 1)]
  IN DistinctMod(a, q) =>
       /\ Cardinality({[j \in 1..n |-> Eval(f, a[j], q)] : f \in polys}) = Cardinality(polys)
       /\ n <= 2 => \A f \in polys : Interpolates(f, a, [j \in 1..n |-> Eval(f, a[j], q)], q) /\ Reduced(f, q)

--------------------------------------------------------------------------
Line == CASE st.k = "pow"  -> PowLine(st.m, st.b)
          [] st.k = "powT" -> PowTLine(st.m, st.b)
          [] st.k = "koch" -> KochLine(st.m, st.e)
          [] st.k = "sqp"  -> SqpLine(st.p)
          [] st.k = "sqn"  -> SqnLine(st.p, st.q)
          [] st.k = "ip"   -> IpLine(st.q, st.a)
          [] st.k = "big"  -> BigLine
IsCase == st.k \in {"pow", "powT", "koch", "sqp", "sqn", "ip"} \/ (st.k = "big" /\ Len(st.hist) >= 1)
Emit == IsCase => PrintT(ToJson(Line))
Theorems ==
  CASE st.k = "pow"  -> ThPow(st.m, st.b)
    [] st.k = "powT" -> ThPowT(st.m, st.b)
    [] st.k = "koch" -> ThKoch(st.m, st.e)
    [] st.k = "sqp"  -> ThSqp(st.p)
    [] st.k = "sqn"  -> ThSqn(st.p, st.q)
    [] st.k = "ip"   -> ThIp(st.q, st.a)
    [] st.k = "big"  -> ThBig
    [] OTHER -> TRUE
=============================================================================
