--------------------------- MODULE RabinKeyTrace ---------------------------
(***************************************************************************)
(* Trace validation for property C10.  harness/drv_key.cc executes the      *)
(* cases enumerated by MC_RabinKey on real TMCG_SecretKey / TMCG_PublicKey  *)
(* objects and logs every call: Gen (a generated key with the projection of *)
(* its exported text), Sign, Roots, Verify, Encrypt, Decrypt, Check, each   *)
(* with the projection of the presented text (RabinKey.tla, part 2) and the *)
(* raw result.  Here the oracle tables are built from the honest Sign and   *)
(* Encrypt events, every verdict is re-computed with VerifyOK / DecryptOK / *)
(* CheckOK, and TLC has to consume the whole log.                           *)
(***************************************************************************)
EXTENDS RabinKey, Json, IOUtils, TLCExt

TraceFile == IF "TRACE" \in DOMAIN IOEnv THEN IOEnv.TRACE ELSE "trace.ndjson"
TraceLog == ndJsonDeserialize(TraceFile)

VARIABLES keys,    \* name -> [mid, bits, sid, sidok]: the keys as their holders see them
          pad,     \* oracle table of PRab: <<modulus, square, data>>
          enc,     \* oracle table of SAEP: <<modulus, ciphertext residue, plaintext>>
          roots,   \* <<key, square, root, negated root>> of every signature made
          l
vars == <<keys, pad, enc, roots, l>>

Ev == TraceLog[l]
IsEv(name) == l <= Len(TraceLog) /\ Ev.e = name
NChal == Rounds[1] + Rounds[2] + Rounds[3]

TInit == l = 1 /\ keys = <<>> /\ pad = {} /\ enc = {} /\ roots = {}
TReset == IsEv("Reset") /\ keys' = <<>> /\ pad' = {} /\ enc' = {} /\ roots' = {} /\ l' = l + 1

\* a generated key: Blum modulus of the requested size, admissible y, type text, exact proof shape; its exported text
\* passes the check (through TMCG_PublicKey after import and through TMCG_SecretKey)
TGen ==
  /\ IsEv("Gen")
  /\ LET P == Ev.P
         self == <<P.mid, P.sig.val.sq, P.did>>          \* generation signs the key data with the new key
     IN
     /\ Ev.pq /\ Ev.pprime /\ Ev.qprime /\ Ev.p8 % 4 = 3 /\ Ev.q8 % 4 = 3 /\ Ev.p8 # Ev.q8
     /\ Ev.yp = -1 /\ Ev.yq = -1
     /\ Ev.bits \in {Ev.size + 1, Ev.size + 2}
     /\ Ev.typeok /\ P.tnizk = Ev.nizk /\ P.mid = Ev.mid /\ P.bits = Ev.bits /\ P.sid = Ev.sid
     /\ P.sig.nf = 3 /\ P.sig.kid = IdText(Ev.sid, IdLen)
     /\ P.nzmagic = "nzk"
     /\ IF Ev.nizk
        THEN /\ Len(P.nz) = 3 + NChal
             /\ P.nz[1].n = Rounds[1] /\ P.nz[2 + Rounds[1]].n = Rounds[2] /\ P.nz[3 + Rounds[1] + Rounds[2]].n = Rounds[3]
             /\ \A j \in 1..Len(P.nz) : j \notin {1, 2 + Rounds[1], 3 + Rounds[1] + Rounds[2]} => P.nz[j].c = "eq"
        ELSE Len(P.nz) = 3 /\ \A s \in 1..3 : P.nz[s].n = Rounds[s]
     /\ CheckOK(pad \cup {self}, P)
     /\ Ev.imp /\ Ev.res /\ Ev.res2
     /\ keys' = (Ev.key :> [mid |-> Ev.mid, bits |-> Ev.bits, sid |-> Ev.sid, sidok |-> TRUE]) @@ keys
     /\ pad' = pad \cup {self}
  /\ UNCHANGED <<enc, roots>> /\ l' = l + 1

\* sign(): a well-formed text naming the key by its default id, the value a residue; whatever it returns is by
\* definition an encoding of the data (the Verify events decide whether that is true)
TSign ==
  /\ IsEv("Sign")
  /\ LET K == keys[Ev.key]  W == Ev.W IN
     /\ PRabFits(K.bits)
     /\ W.nf = 3 /\ W.magic = "sig" /\ W.val.num /\ Ev.inrange
     /\ W.kid = IdText(IF Ev.self THEN Ev.sid ELSE K.sid, IdLen)
     /\ \A a \in pad : (a[1] = K.mid /\ a[2] = W.val.sq) => a[3] = Ev.did      \* an encoding belongs to one data string
     /\ pad' = pad \cup {<<K.mid, W.val.sq, Ev.did>>}
     /\ roots' = roots \cup {<<Ev.key, W.val.sq, Ev.vid, Ev.nvid>>}
  /\ UNCHANGED <<keys, enc>> /\ l' = l + 1

\* the same encoding signed with the four values of the root coin: four different roots, closed under negation
TRoots ==
  /\ IsEv("Roots")
  /\ LET R == {r \in roots : r[1] = Ev.key /\ r[2] = Ev.sq} IN
     /\ Cardinality({r[3] : r \in R}) = 4
     /\ \A r \in R : \E rr \in R : rr[3] = r[4]
  /\ UNCHANGED <<keys, pad, enc, roots>> /\ l' = l + 1

TVerify ==
  /\ IsEv("Verify")
  /\ LET acc == VerifyOK(pad, keys[Ev.key], Ev.did, Ev.W) IN Ev.res = acc /\ Ev.res2 = acc
  /\ UNCHANGED <<keys, pad, enc, roots>> /\ l' = l + 1

TEncrypt ==
  /\ IsEv("Encrypt")
  /\ LET K == keys[Ev.key]  W == Ev.W IN
     /\ SAEPFits(K.bits)
     /\ W.nf = 3 /\ W.magic = "enc" /\ W.val.num /\ Ev.inrange
     /\ W.kid = IdText(K.sid, IdLen)
     /\ \A a \in enc : (a[1] = K.mid /\ a[2] = W.val.rs) => a[3] = Ev.pt        \* a ciphertext belongs to one plaintext
     /\ enc' = enc \cup {<<K.mid, W.val.rs, Ev.pt>>}
  /\ UNCHANGED <<keys, pad, roots>> /\ l' = l + 1

TDecrypt ==
  /\ IsEv("Decrypt")
  /\ LET K == keys[Ev.key]  acc == DecryptOK(enc, K, Ev.W) IN
     /\ Ev.res = acc
     /\ acc => Ev.out = DecryptVal(enc, K, Ev.W)          \* the value that was encrypted
     /\ Ev.guard = "aaaaaaaaaaaaaaaa"                     \* exactly S0 bytes are written
  /\ UNCHANGED <<keys, pad, enc, roots>> /\ l' = l + 1

TCheck ==
  /\ IsEv("Check")
  /\ LET P == Ev.P  acc == CheckOK(pad, P) IN
     /\ Ev.imp = (P.nf >= 7 /\ P.magic = "pub" /\ P.mnum /\ P.ynum)
     /\ Ev.res = acc /\ Ev.res2 = acc
  /\ UNCHANGED <<keys, pad, enc, roots>> /\ l' = l + 1

TNext == TReset \/ TGen \/ TSign \/ TRoots \/ TVerify \/ TEncrypt \/ TDecrypt \/ TCheck
TSpec == TInit /\ [][TNext]_vars

Accepted == TLCGet("stats").diameter = Len(TraceLog) + 1
=============================================================================
