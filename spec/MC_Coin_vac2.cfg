SPECIFICATION MCSpec
CONSTANTS
 P = 11
 Q = 5
 Gg = 4
 Hh = 3
 Hon <- H0
 Budget = 3
 ASet <- A1
 RSet <- R1
 Early = FALSE
 Gen = FALSE
INVARIANTS NeverRejectsOpening
CHECK_DEADLOCK FALSE
