SPECIFICATION Spec
CONSTANTS
 MaxP = 31
 MaxQ = 15
 MaxK = 7
 Margin = 4
 Variants <- A_com1q
 NaiveMaxP = 7
 NaiveVariants <- D_com1
 AccMaxP = 1000
 NbrMaxP = 31
 NbrVariants <- A_com1q
 Mode = "nbr"
 CheckArith = FALSE
 SortedBases = TRUE
INVARIANTS BlockIsDefinition BlockSound Sound Complete Shape Elements Emit
CHECK_DEADLOCK FALSE
