SPECIFICATION Spec
CONSTANTS
 MaxP = 47
 MaxQ = 23
 MaxK = 7
 Margin = 4
 Variants <- A_com1
 NaiveMaxP = 7
 NaiveVariants <- D_com1
 NbrMaxP = 31
 NbrVariants <- N_com1
 Mode = "nbr"
 CheckArith = FALSE
 SortedBases = TRUE
INVARIANTS BlockIsDefinition BlockSound Sound Complete Shape Elements Emit
CHECK_DEADLOCK FALSE
