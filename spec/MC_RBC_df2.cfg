SPECIFICATION FairSpec
CONSTANTS
 N = 2
 T = 0
 Honest <- H2
 FixF3 = TRUE
 FixF4 = TRUE
 FixF15 = TRUE
 Prog <- P_df2
 UseDFrom <- D1
 DFromWho <- W0
 ByzBudget = 0
 ByzAlphabet <- None
 InitChan <- Empty
 InitFifo = TRUE
 GenDepth = 0
 LateParty = 99
INVARIANTS Agreement NoDuplicate Integrity QValidity QTotality KnownIsAccepted
PROPERTIES DeliveryStepP EventuallyReturned EventuallyDelivered
CHECK_DEADLOCK FALSE

