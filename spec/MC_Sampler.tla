----------------------------- MODULE MC_Sampler -----------------------------
(***************************************************************************)
(* Exhaustive checks of Sampler.tla / Digits.tla for TLC.                   *)
(* Every theorem instance is a state (so that the instances are spread over *)
(* the workers and counted): root -> group -> instance.  The invariant      *)
(* Holds evaluates the theorem that belongs to the state.                   *)
(*   thm  configs: theorems of Part I (integers)                            *)
(*   ref  configs: digit arithmetic = integer arithmetic, Part II = Part I, *)
(*                 and the word-by-word sampling process = the batch maps   *)
(*                 PermRun / RotRun used by generator and trace validation  *)
(***************************************************************************)
EXTENDS Sampler

CONSTANTS MaxW,      \* bounded sampler theorem for all 2 <= W <= MaxW, 1 <= m <= W
          MaxN,      \* Fisher-Yates bijection (by counting) for n <= MaxN
          OntoN,     \* ... compared with the explicit set of permutations, marginals, for n <= OntoN
          PairN,     \* pairwise marginals for n <= PairN
          NaiveN,    \* the wrong shuffle is biased for 3 <= n <= NaiveN
          MaxRotN,   \* rotation theorem for 1 <= n <= MaxRotN
          MaxResM, MaxResE,    \* residue sampler theorem for m <= MaxResM, e <= MaxResE
          NumLen,    \* digit arithmetic for all digit strings up to this length
          ProcN,     \* sampling process for stacks of up to ProcN cards
          Part       \* "thm": theorems of Part I;  "ref": digit arithmetic, refinement and process

VARIABLE inst
Root == [t |-> "root"]

RECURSIVE Strings(_)
Strings(l) == IF l = 0 THEN {<<>>} ELSE {<<d>> \o s : d \in Digit, s \in Strings(l - 1)}
Nums == UNION {Strings(l) : l \in 0..NumLen}
Words == Strings(WordLen)
W == Val(WordSpace)

ProcStart(kind, n) ==
  [t |-> "proc", kind |-> kind, n |-> n, j |-> 1, a |-> (IF kind = "rot" /\ n > 0 THEN <<>> ELSE Ident(n)),
   ws |-> <<>>, ret |-> 0, fin |-> (IF kind = "perm" THEN n <= 1 ELSE n = 0)]

ProcStep(s, w) ==
  IF s.kind = "perm" THEN
     LET m == s.n - s.j + 1 IN
     IF AcceptedS(m, w)
     THEN [s EXCEPT !.a = Swap(s.a, s.j, s.j + ReduceS(m, w)), !.j = s.j + 1, !.ws = Append(s.ws, w),
                    !.fin = (s.j + 1 > s.n - 1)]
     ELSE [s EXCEPT !.ws = Append(s.ws, w)]
  ELSE
     IF AcceptedS(s.n, w)
     THEN [s EXCEPT !.a = RotPerm(s.n, ReduceS(s.n, w)), !.ret = RotRet(s.n, ReduceS(s.n, w)),
                    !.ws = Append(s.ws, w), !.fin = TRUE]
     ELSE [s EXCEPT !.ws = Append(s.ws, w)]

Init == inst = Root

Next ==
  \/ /\ inst = Root
     /\ Part = "thm"
     /\ \/ \E x \in 2..MaxW : inst' = [t |-> "Wgroup", W |-> x]
        \/ \E n \in 0..MaxN : inst' = [t |-> "fy", n |-> n]
        \/ \E n \in 0..OntoN : inst' = [t |-> "fyonto", n |-> n]
        \/ \E n \in 2..PairN : inst' = [t |-> "fypair", n |-> n]
        \/ \E n \in 3..NaiveN : inst' = [t |-> "naive", n |-> n]
        \/ \E n \in 1..MaxRotN : inst' = [t |-> "rot", n |-> n]
        \/ \E m \in 1..MaxResM : inst' = [t |-> "resgroup", m |-> m]
  \/ /\ inst = Root
     /\ Part = "ref"
     /\ \/ \E a \in Nums : inst' = [t |-> "arith", a |-> a]
        \/ \E m \in 1..W : inst' = [t |-> "refine", m |-> m]
        \/ \E n \in 0..ProcN, kind \in {"perm", "rot"} : inst' = ProcStart(kind, n)
  \/ /\ inst.t = "Wgroup"
     /\ \E m \in 1..inst.W : inst' = [t |-> "nmb", W |-> inst.W, m |-> m]
  \/ /\ inst.t = "resgroup"
     /\ \E e \in 0..MaxResE : inst' = [t |-> "res", m |-> inst.m, e |-> e]
  \/ /\ inst.t = "proc" /\ ~inst.fin /\ Len(inst.ws) < inst.n + 1
     /\ \E w \in Words : inst' = ProcStep(inst, w)

Spec == Init /\ [][Next]_inst

--------------------------------------------------------------------------
ArithThm(a) ==
  /\ IsNum(a) /\ Val(Trim(a)) = Val(a) /\ FromInt(Val(a)) = Trim(a)
  /\ BitsOfInt(Base) - 1 > 0 /\ Pow2(BitsOfInt(Base) - 1) = Base => BitLen(a) = BitsOfInt(Val(a))
  /\ \A b \in Nums :
       /\ Val(Add(a, b)) = Val(a) + Val(b)
       /\ Add(a, b) = Trim(Add(a, b))
       /\ (Cmp(a, b) = -1) = (Val(a) < Val(b)) /\ (Cmp(a, b) = 0) = (Val(a) = Val(b)) /\ (Cmp(a, b) = 1) = (Val(a) > Val(b))
       /\ Val(a) >= Val(b) => (Val(Sub(a, b)) = Val(a) - Val(b) /\ Sub(a, b) = Trim(Sub(a, b)))
       /\ Val(Mul(a, b)) = Val(a) * Val(b) /\ Mul(a, b) = Trim(Mul(a, b))
       /\ Val(b) > 0 => LET t == DivMod(a, b) IN
                          /\ Val(t.q) = Val(a) \div Val(b) /\ Val(t.r) = Val(a) % Val(b)
                          /\ t.q = Trim(t.q) /\ t.r = Trim(t.r)
  /\ \A d \in 0..(2 * Base + 1) :
       /\ Val(MulSmall(a, d)) = Val(a) * d /\ MulSmall(a, d) = Trim(MulSmall(a, d))
       /\ d > 0 => /\ ModSmall(a, d) = Val(a) % d
                   /\ Val(DivSmall(a, d)) = Val(a) \div d /\ DivSmall(a, d) = Trim(DivSmall(a, d))

\* Part II computes what Part I defines, for this (Base, WordLen)
RefineThm(m) ==
  /\ Val(AcceptBound(FromInt(m))) = AcceptCountI(W, m)
  /\ Val(AcceptBoundS(m)) = AcceptCountI(W, m)
  /\ \A w \in Words :
       /\ AcceptedW(FromInt(m), w) = AcceptedI(W, m, Val(w))
       /\ AcceptedS(m, w) = AcceptedI(W, m, Val(w))
       /\ Val(ReduceW(FromInt(m), w)) = Val(w) % m
       /\ ReduceS(m, w) = Val(w) % m
       /\ LET r == ModRun(FromInt(m), <<w, Pad(<<>>, WordLen)>>)       \* a second, always accepted word (0)
              s == ModRunS(m, <<w, Pad(<<>>, WordLen)>>)
          IN /\ r.ok /\ s.ok /\ r.used = s.used /\ Val(r.val) = s.val
             /\ r.used = (IF AcceptedI(W, m, Val(w)) THEN 1 ELSE 2)
             /\ s.val = (IF AcceptedI(W, m, Val(w)) THEN Val(w) % m ELSE 0)

\* the process (one word at a time, rejected words change nothing) and the batch maps agree
ProcInv(s) ==
  /\ s.fin \/ s.kind = "perm" => IsPerm(s.a, s.n)
  /\ IF s.kind = "perm"
     THEN LET r == PermRun(s.n, s.ws) IN
          /\ r.ok = s.fin
          /\ s.fin => r.used = Len(s.ws) /\ r.pi = s.a
          /\ s.fin => \E c \in ChoiceVecs(s.n) : FY(s.n, c) = s.a
     ELSE LET r == RotRun(s.n, s.ws) IN
          /\ r.ok = s.fin
          /\ s.fin => r.used = Len(s.ws) /\ r.pi = s.a /\ r.ret = s.ret
          /\ s.fin /\ s.n > 0 => IsCyclicShift(s.a, s.n) /\ s.a[s.ret + 1] = 0

Holds ==
  CASE inst.t = "nmb" -> NoModBiasThm(inst.W, inst.m) /\ RejectionNeededThm(inst.W, inst.m)
    [] inst.t = "fy" -> FYBijectionThm(inst.n)
    [] inst.t = "fyonto" -> FYOntoThm(inst.n) /\ FYMarginalThm(inst.n)
    [] inst.t = "fypair" -> FYPairThm(inst.n)
    [] inst.t = "naive" -> NaiveBiasedThm(inst.n)
    [] inst.t = "rot" -> RotationThm(inst.n)
    [] inst.t = "res" -> ResidueThm(inst.m, inst.e)
    [] inst.t = "arith" -> ArithThm(inst.a)
    [] inst.t = "refine" -> RefineThm(inst.m)
    [] inst.t = "proc" -> ProcInv(inst)
    [] OTHER -> TRUE

\* rejected words are stuttering steps of the process as far as the result is concerned
ProcStutter ==
  [][(inst.t = "proc" /\ inst'.t = "proc" /\ inst'.j = inst.j /\ ~inst'.fin) => inst'.a = inst.a]_inst
=============================================================================
