SPECIFICATION Spec
CONSTANTS
 P = 23
 Q = 11
 Gg = 2
 Vars = {"two"}
 Ns = {2}
 MsgVecs <- MV23
 CCoins <- AllZq
 SCoins <- C4a
 Tamper = FALSE
 PowM <- TabPowM
INVARIANTS Correct HonestAbort Refusal OneOnly Curious CuriousPairs
CHECK_DEADLOCK FALSE
