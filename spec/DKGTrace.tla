----------------------------- MODULE DKGTrace -----------------------------
(* Results of simulated multi-party runs of the real library classes        *)
(* (harness/drv_dkg.cc: n parties in one process, faulty parties, seeded    *)
(* schedules) checked against DKG.tla: agreement on QUAL and y, every share *)
(* matches the public verification values, every (t+1)-subset of honest     *)
(* shares interpolates to one secret whose image is y, signatures satisfy   *)
(* the textbook equations, refresh keeps secret and key.                    *)
EXTENDS DKG, Json, IOUtils, TLC, TLCExt

TraceFile == IF "TRACE" \in DOMAIN IOEnv THEN IOEnv.TRACE ELSE "trace.ndjson"
TraceLog == ndJsonDeserialize(TraceFile)

CONSTANTS KnownGJKR,    \* TRUE while "GJKR extraction: an honest party alone fails Generate when a party deviates" is a listed finding:
                        \* then an honest party returning false is tolerated in dkg / nts runs with a party using the
                        \* library's faulty switch, and the invariants speak about the honest parties that completed
          KnownWithheld,\* TRUE while "a dealer that withholds / stops dealing private shares splits the honest parties" is listed
          KnownStop,    \* TRUE while "a party that stops part-way in a key generation makes an honest party fail or be disqualified" is listed
          KeygenStrict, \* TRUE for C15 (every good party must complete the key generation); FALSE for C16, whose claim starts at the
                        \* signing run: a party whose key generation failed is then simply not among the signers that are judged
          KnownErase   \* TRUE while the finding "party erased from QUAL after the sharing of x" is a listed known finding:
                      \* then, and only in executions where that happened, the check g^x = y is not made
VARIABLES l, cur, outs        \* cur: the Reset record of the running execution; outs: party -> its Out record
vars == <<l, cur, outs>>
Ev == TraceLog[l]
IsEv(name) == l <= Len(TraceLog) /\ Ev.e = name

G == [p |-> cur.grp[1], q |-> cur.grp[2], g |-> cur.grp[3], h |-> cur.grp[4]]
N == cur.n
T == cur.t
Parties == 0..(N - 1)
\* role 5: honest key generation, then a damaged share when signing; role 6: honest until the refresh, where its zero sharing has a non-zero constant term (both not good); role 0: honest; 3: honest code whose first private message to one party was tampered with (a dealer handing out
\* one wrong share, then behaving); 1: the library's built-in faulty behaviour; 2: silent from the start
Good0 == {i \in Parties : cur.role[i + 1] \in {0, 3}}
LibFaulty == \E k \in 1..N : cur.role[k] = 1
Stopper == \E k \in 1..N : cur.role[k] = 4
Tolerated == {i \in Good0 : i \in DOMAIN outs /\ ~outs[i].ret /\ cur.proto \in {"dkg", "nts", "dss"} /\
                 (\/ ~KeygenStrict
                  \/ KnownGJKR /\ cur.proto \in {"dkg", "nts"} /\ LibFaulty
                  \/ KnownStop /\ Stopper)}
Good == Good0 \ Tolerated
Done == DOMAIN outs
O(i) == outs[i]
QualSet(o) == {o.qual[k] : k \in 1..Len(o.qual)}

TInit == l = 1 /\ cur = [n |-> 0] /\ outs = <<>>
TReset == IsEv("Reset") /\ cur' = Ev /\ outs' = <<>> /\ l' = l + 1
TOut == /\ IsEv("Out") /\ "exc" \notin DOMAIN Ev
        /\ outs' = [i \in (DOMAIN outs) \cup {Ev.i} |-> IF i = Ev.i THEN Ev ELSE outs[i]]
        /\ UNCHANGED cur /\ l' = l + 1

\* ---------------------------------------------------------------- invariants at the end of an execution
AllGoodReported == Good \subseteq Done
GoodSucceed == \A i \in Good : O(i).ret
AgreeQualY == \A a, b \in Good : O(a).qual = O(b).qual /\ O(a).y = O(b).y
GoodInQual == \A i \in Good : i \in QualSet(O(CHOOSE a \in Good : TRUE))
SilentOut == \A i \in Parties : cur.role[i + 1] = 2 => i \notin QualSet(O(CHOOSE a \in Good : TRUE))
\* any t+1 good shares give one secret x with g^x = y
OneSecret(sh, y) ==
  Cardinality(Good) >= T + 1 =>
    LET subsets == SubsetsOfSize(Good, T + 1)
        x0 == Interpolate(G, CHOOSE S \in subsets : TRUE, sh)
    IN /\ \A S \in subsets : Interpolate(G, S, sh) = x0
       /\ GExp(G, G.g, x0) = y

DkgOK ==
  /\ AllGoodReported /\ GoodSucceed /\ AgreeQualY /\ GoodInQual /\ SilentOut
  /\ \A a, b \in Good : O(a).v = O(b).v /\ O(a).C = O(b).C /\ O(a).yi = O(b).yi
  /\ \A i \in Good : O(i).okgrp /\ O(i).ck /\ O(i).state_roundtrip
  /\ LET ref == O(CHOOSE a \in Good : TRUE)  Q == QualSet(ref) IN
     \* each good party's share matches the public verification values
     /\ \A j \in Good :
          /\ ref.v[j + 1] = GExp(G, G.g, O(j).x)
          /\ Pedersen(G, O(j).x, O(j).xp) =
               LET RECURSIVE Prod(_) Prod(S) == IF S = {} THEN 1 ELSE
                     LET i == CHOOSE i \in S : TRUE IN GMul(G, CommitEval(G, ref.C[i + 1], j, 1), Prod(S \ {i}))
               IN Prod(Q)
     \* y is the product of the qualified parties' public values
     /\ ref.y = LET RECURSIVE Prod(_) Prod(S) == IF S = {} THEN 1 ELSE
                     LET i == CHOOSE i \in S : TRUE IN GMul(G, ref.yi[i + 1], Prod(S \ {i}))
                IN Prod(Q)
     /\ OneSecret([j \in Good |-> O(j).x], ref.y)

\* the oracle was asked for <<m, r>> during Verify and answered c
AskedMR(o, m, r) == \E k \in 1..Len(o.hv) : Len(o.hv[k]["in"]) = 2
                       /\ o.hv[k]["in"][1].sm = m /\ o.hv[k]["in"][1].sg >= 0
                       /\ o.hv[k]["in"][2].sm = r /\ o.hv[k]["in"][2].sg >= 0
                       /\ o.hv[k].out.id = o.c.id
ExpOf(n) == IF n.sg >= 0 THEN n.mo ELSE -n.mo
NtsOK ==
  /\ AllGoodReported /\ GoodSucceed /\ AgreeQualY /\ GoodInQual /\ SilentOut
  \* new-TSch keeps the additive sharing: party i holds its own contribution z_i, y_i = g^z_i is public and
  \* y is the product over the qualified parties
  /\ \A a, b \in Good : O(a).yi = O(b).yi
  /\ LET ref == O(CHOOSE a \in Good : TRUE)  Q == QualSet(ref) IN
     /\ \A j \in Good : ref.yi[j + 1] = GExp(G, G.g, O(j).x)
     /\ ref.y = LET RECURSIVE Prod(_) Prod(S) == IF S = {} THEN 1 ELSE
                     LET i == CHOOSE i \in S : TRUE IN GMul(G, ref.yi[i + 1], Prod(S \ {i}))
                IN Prod(Q)
  \* C16 speaks about signing runs that complete; without any deviating party they must complete
  /\ (\A k \in 1..N : cur.role[k] = 0) => \A i \in Good : O(i).sret
  \* all honest parties that complete obtain the same signature, the library's verifier accepts it, and it
  \* satisfies c = H(m, g^s y^-c) under the joint key
  /\ LET fin == {i \in Good : O(i).sret} IN
     /\ \A i \in fin : O(i).ver
     /\ \A a, b \in fin : O(a).c.id = O(b).c.id /\ O(a).s.id = O(b).s.id
     /\ \A i \in fin : AskedMR(O(i), O(i).m, SchnorrR(G, O(i).y, ExpOf(O(i).c), ExpOf(O(i).s)))

VssOK ==
  /\ AllGoodReported
  /\ LET d == O(CHOOSE a \in Good : TRUE).dealer
         sigma == O(CHOOSE a \in Good : TRUE).sigma
         dealerGood == d \in Good
         acc == {i \in Good : O(i).ret}
     IN
     \* all good parties take the same decision about the dealer; a good dealer is accepted
     /\ (KnownWithheld /\ cur.role[d + 1] = 4) \/ (acc = Good \/ acc = {})
     /\ dealerGood => acc = Good
     /\ acc = Good =>
          /\ \A a, b \in Good : O(a).A = O(b).A
          /\ \A j \in Good : Pedersen(G, O(j).si, O(j).ti) = CommitEval(G, O(j).A, j, 1)
          /\ Cardinality(Good) >= T + 1 =>
               LET subsets == SubsetsOfSize(Good, T + 1)
                   sh == [j \in Good |-> O(j).si]
                   x0 == Interpolate(G, CHOOSE S \in subsets : TRUE, sh)
               IN /\ \A S \in subsets : Interpolate(G, S, sh) = x0
                  /\ dealerGood => x0 = sigma % G.q
                  \* reconstruction (run by the parties other than the dealer, from their shares) returns the shared
                  \* secret; a share equal to 0 counts as "not stored" in the code - a tiny-group artefact that is
                  \* part of the model
                  /\ LET nd == Good \ {d} IN
                     ((\A j \in nd : O(j).si # 0 /\ O(j).ti # 0) /\ Cardinality(nd) >= T + 1) =>
                        \A j \in nd : O(j).rret /\ O(j).rec = x0

NumVal(n) == n.sg * n.sm
\* consistent sharing of some secret (without the relation to y)
OneSharing(sh) ==
  Cardinality(Good) >= T + 1 =>
    LET subsets == SubsetsOfSize(Good, T + 1)
        x0 == Interpolate(G, CHOOSE S \in subsets : TRUE, sh)
    IN \A S \in subsets : Interpolate(G, S, sh) = x0
Erased == \E i \in Good : QualSet(O(i)) # {O(i).xq[k] : k \in 1..Len(O(i).xq)}
\* degenerate signatures of the small groups: r = 0 or m + x r = 0 mod q (then s = 0).  The standard tells the signer to start
\* again with a new k; the library returns them (its own verifier refuses them).  This happens with probability 2/q - about
\* once per thousand signatures here, never at real sizes - and is not judged.
SecretOf(sh) == IF Cardinality(Good) >= T + 1 THEN Interpolate(G, CHOOSE S \in SubsetsOfSize(Good, T + 1) : TRUE, sh) ELSE 0 - 1
DegSig(m, r, x0) == NumVal(r) % G.q = 0 \/ (x0 >= 0 /\ (m + x0 * (NumVal(r) % G.q)) % G.q = 0)
DssOK ==
  /\ AllGoodReported /\ GoodSucceed /\ AgreeQualY /\ GoodInQual /\ SilentOut
  /\ LET y == O(CHOOSE a \in Good : TRUE).y IN
     /\ IF KnownErase /\ Erased THEN OneSharing([j \in Good |-> O(j).x]) ELSE OneSecret([j \in Good |-> O(j).x], y)
     /\ (\A k \in 1..N : cur.role[k] = 0) => \A i \in Good : O(i).sret /\ O(i).fret /\ O(i).sret2
     /\ LET fin == {i \in Good : O(i).sret} IN
        /\ \A a, b \in fin : O(a).r.id = O(b).r.id /\ O(a).s.id = O(b).s.id
        \* (under the known finding the key pair is inconsistent and no signature can verify)
        /\ ~(KnownErase /\ Erased) => \A i \in fin : DegSig(O(i).m, O(i).r, SecretOf([j \in Good |-> O(j).x])) \/
                                                   (/\ O(i).ver /\ O(i).r.sm >= 0 /\ O(i).s.sm >= 0
                                                    /\ DSAOk(G, y, O(i).m, NumVal(O(i).r), NumVal(O(i).s)))
     \* refresh: new shares, same secret, same key; signatures still verify
     /\ LET ref == {i \in Good : O(i).sret /\ O(i).fret} IN
        /\ \A i \in ref : O(i).y2 = y
        /\ \A a, b \in ref : O(a).qual2 = O(b).qual2
        /\ (ref = Good /\ Cardinality(Good) >= T + 1) =>
             /\ (IF KnownErase /\ Erased THEN OneSharing([j \in Good |-> O(j).x2]) ELSE OneSecret([j \in Good |-> O(j).x2], y))
             /\ Interpolate(G, CHOOSE S \in SubsetsOfSize(Good, T + 1) : TRUE, [j \in Good |-> O(j).x2])
                  = Interpolate(G, CHOOSE S \in SubsetsOfSize(Good, T + 1) : TRUE, [j \in Good |-> O(j).x])
        /\ LET fin2 == {i \in ref : O(i).sret2} IN
           /\ ~(KnownErase /\ Erased) => \A i \in fin2 : DegSig(O(i).m2, O(i).r2, SecretOf([j \in Good |-> O(j).x])) \/
                                                       (/\ O(i).ver2 /\ O(i).r2.sm >= 0 /\ O(i).s2.sm >= 0
                                                        /\ DSAOk(G, y, O(i).m2, NumVal(O(i).r2), NumVal(O(i).s2)))
           /\ \A a, b \in fin2 : O(a).r2.id = O(b).r2.id /\ O(a).s2.id = O(b).s2.id

\* C16, second sentence: the library's verifiers accept exactly what the standard equation and range conditions accept
TDssVer == /\ IsEv("DssVer") /\ "exc" \notin DOMAIN Ev
           /\ Ev.res = DSAOk(G, Ev.y, Ev.m, Ev.r, Ev.s)
           /\ UNCHANGED <<cur, outs>> /\ l' = l + 1
TNtsVer == /\ IsEv("NtsVer")
           /\ LET r == SchnorrR(G, Ev.y, ExpOf(Ev.c), ExpOf(Ev.s))
                  asked == \E k \in 1..Len(Ev.hv) : Len(Ev.hv[k]["in"]) = 2 /\ Ev.hv[k]["in"][1].sm = Ev.m /\ Ev.hv[k]["in"][2].sm = r
                                                     /\ Ev.hv[k].out.id = Ev.c.id
              IN Ev.res = asked
           /\ UNCHANGED <<cur, outs>> /\ l' = l + 1
TEnd ==
  /\ IsEv("End")
  /\ CASE cur.proto = "verify" -> TRUE
       [] cur.proto = "dkg" -> DkgOK
       [] cur.proto = "nts" -> NtsOK
       [] cur.proto = "vss" -> VssOK
       [] cur.proto = "dss" -> DssOK
  /\ UNCHANGED <<cur, outs>> /\ l' = l + 1

TNext == TReset \/ TOut \/ TEnd \/ TDssVer \/ TNtsVer
TSpec == TInit /\ [][TNext]_vars
Accepted == TLCGet("stats").diameter = Len(TraceLog) + 1
=============================================================================
