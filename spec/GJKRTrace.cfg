SPECIFICATION TSpec
CONSTANTS
 UnansweredRule = TRUE
 FreshImage = TRUE
INVARIANT NoErr
POSTCONDITION Accepted
CHECK_DEADLOCK FALSE
