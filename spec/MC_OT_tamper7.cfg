SPECIFICATION Spec
CONSTANTS
 P = 7
 Q = 3
 Gg = 2
 Vars = {"two", "n", "opt"}
 Ns = {2}
 MsgVecs <- MV7
 CCoins <- AllZq
 SCoins <- C1a
 Tamper = TRUE
 PowM <- TabPowM
INVARIANTS Correct HonestAbort Refusal OneOnly Curious CuriousPairs
CHECK_DEADLOCK FALSE
