SPECIFICATION TSpec
CONSTANTS
 Base = 256
 WordLen = 8
POSTCONDITION Accepted
CHECK_DEADLOCK FALSE
