SPECIFICATION MCSpec
CONSTANTS
 CN = 2
 CAuth = TRUE
 CEnc = TRUE
 CChunked = FALSE
 CVariant = "select"
 CMACLEN = 2
 CBLK = 2
 CBUFSZ = 12
 Delim = 63
 NoVal <- NoValMC
 Rcv = 1
 Prog <- Prog1_2
 MaxFault = 2
 Kinds <- ByteKinds
 Scheds = {3}
 ArrSize = 0
 TagNL <- TagNLb
 IvNL = {1}
INVARIANTS InOrderI CompleteAlways AuthSafeI NothingForged FramesFit 
PROPERTIES StoppedStays
CHECK_DEADLOCK FALSE
