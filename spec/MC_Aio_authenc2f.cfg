SPECIFICATION MCSpec
CONSTANTS
 N = 2
 Auth = TRUE
 Enc = TRUE
 Chunked = FALSE
 Variant = "select"
 MACLEN = 2
 BLK = 2
 BUFSZ = 12
 Delim = 63
 NoVal <- NoValMC
 Rcv = 1
 Prog <- Prog1_2
 MaxFault = 2
 Kinds <- ByteKinds
 Scheds = {3}
 ArrSize = 0
 TagNL <- TagNLb
 IvNL = {1}
INVARIANTS InOrderI CompleteAlways AuthSafeI NothingForged FramesFit 
PROPERTIES StoppedStays
CHECK_DEADLOCK FALSE
