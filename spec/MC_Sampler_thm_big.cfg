SPECIFICATION Spec
CONSTANTS
 Part = "thm"
 Base = 2
 WordLen = 1
 MaxW = 128
 MaxN = 8
 OntoN = 7
 PairN = 7
 NaiveN = 6
 MaxRotN = 128
 MaxResM = 40
 MaxResE = 5
 NumLen = 1
 ProcN = 0
INVARIANT Holds
PROPERTY ProcStutter
CHECK_DEADLOCK FALSE
