INIT InitBind
NEXT NextBind
INVARIANTS InvBind InvBindResp
CONSTANTS
 P = 47
 Q = 23
 Gg = 2
 Hh = 3
 Ns = {2}
 CoinSet = {0}
 ChSet <- AllQ
 Wide = FALSE
 PowM <- TabPowM
CHECK_DEADLOCK FALSE
