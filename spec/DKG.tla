-------------------------------- MODULE DKG --------------------------------
(***************************************************************************)
(* What a run of the sharing protocols must leave behind, written from     *)
(* [Pe91] (Pedersen VSS), [GJKR07] (New-DKG, new-TSch) and FIPS 186 (DSA): *)
(* polynomial secret sharing over Z_q with party j at abscissa j+1,        *)
(* Pedersen commitments C_ik = g^a_ik h^b_ik, public key y = g^x, Schnorr  *)
(* signature c = H(m, g^s y^-c), DSA signature r = (g^(m/s) y^(r/s) mod p) *)
(* mod q with 0 < r, s < q.  Pure operators over small groups.             *)
(***************************************************************************)
EXTENDS Prims

GExp(G, a, e) == PowZ(a, e, G.p)
GMul(G, a, b) == (a * b) % G.p

\* Lagrange coefficient at 0 for party j within the set S of party indices (abscissa = index + 1), modulo q
Lambda(G, S, j) ==
  LET RECURSIVE F(_) F(T) == IF T = {} THEN 1 ELSE
        LET m == CHOOSE m \in T : TRUE
            num == (m + 1) % G.q
            den == ((m + 1) - (j + 1)) % G.q
        IN (((num * InvM(den, G.q)) % G.q) * F(T \ {m})) % G.q
  IN F(S \ {j})
\* the value at 0 of the polynomial through the points (j+1, sh[j]), j in S
Interpolate(G, S, sh) ==
  LET RECURSIVE F(_) F(T) == IF T = {} THEN 0 ELSE
        LET j == CHOOSE j \in T : TRUE IN (((Lambda(G, S, j) * (sh[j] % G.q)) % G.q) + F(T \ {j})) % G.q
  IN F(S)
\* product over k of C[k]^((j+1)^k): the commitment to the share of party j under the commitment vector C (k = 0..t)
RECURSIVE CommitEval(_, _, _, _)
CommitEval(G, C, j, k) ==     \* C is a 1-based sequence holding C_0..C_t ; evaluates terms k..t
  IF k > Len(C) THEN 1
  ELSE GMul(G, GExp(G, C[k], PowM((j + 1) % G.q, k - 1, G.q)), CommitEval(G, C, j, k + 1))
Pedersen(G, a, b) == GMul(G, GExp(G, G.g, a), GExp(G, G.h, b))
SubsetsOfSize(S, k) == {T \in SUBSET S : Cardinality(T) = k}

\* textbook verification equations (the independent implementation C16 asks for)
SchnorrR(G, y, cexp, sexp) == GMul(G, GExp(G, G.g, sexp), GExp(G, y, -cexp))      \* r = g^s y^-c
DSAOk(G, y, m, r, s) ==                                                            \* FIPS 186-4, 4.7 with H(M) = m
  /\ r > 0 /\ r < G.q /\ s > 0 /\ s < G.q
  /\ LET w == InvM(s, G.q)  u1 == ((m % G.q) * w) % G.q  u2 == (r * w) % G.q
     IN (GMul(G, GExp(G, G.g, u1), GExp(G, y, u2)) % G.q) = r
=============================================================================
