----------------------------- MODULE CoinTrace -----------------------------
(***************************************************************************)
(* Trace validation of the two-party coin flip.  harness/drv_coin.cc runs   *)
(* the real JareckiLysyanskayaEDCF::Flip_twoparty (one thread per party,    *)
(* exactly one runnable at a time) on stream pairs it owns and logs, in     *)
(* their total order, every line the library writes (W), every read attempt *)
(* of the library and what it got (R), every move of the adversarial peer   *)
(* (Adv, Close) and every return (Ret), with the coins the library drew.    *)
(* Each event must be the corresponding action of Coin.tla taken in the     *)
(* state the earlier events led to: a share written while the spec's party  *)
(* is still waiting for the commitment is not an enabled action and the log *)
(* is rejected.  Commitments, verdicts and coins are recomputed here.       *)
(***************************************************************************)
EXTENDS Coin, Json, IOUtils, TLC, TLCExt

TraceFile == IF "TRACE" \in DOMAIN IOEnv THEN IOEnv.TRACE ELSE "trace.ndjson"
TraceLog == ndJsonDeserialize(TraceFile)

VARIABLES l,       \* position in the log
          retd     \* parties that have returned
tvars == <<vars, l, retd>>

Ev == TraceLog[l]
IsEv(name) == l <= Len(TraceLog) /\ Ev.e = name
SetOf(s) == {s[k] : k \in 1..Len(s)}
Last(s) == s[Len(s)]

TInit == /\ l = 1 /\ retd = {}
         /\ InitWith([p |-> 23, q |-> 11, g |-> 2, h |-> 3], {}, 0)

TReset ==
  /\ IsEv("Reset")
  /\ LET grp == [p |-> Ev.grp[1], q |-> Ev.grp[2], g |-> Ev.grp[3], h |-> Ev.grp[4]] IN
     /\ Ev.okgrp = GoodGroup(grp)          \* CheckGroup agrees with the definition (sizes are met by construction)
     /\ G' = grp
  /\ honest' = SetOf(Ev.honest)
  /\ pc' = [i \in Party |-> "start"]
  /\ sh' = [i \in Party |-> [a |-> 0, r |-> 0]]
  /\ peerC' = [i \in Party |-> 0]
  /\ peerO' = [i \in Party |-> <<>>]
  /\ out' = [i \in Party |-> -1]
  /\ chan' = [i \in Party |-> <<>>]
  /\ closed' = [i \in Party |-> FALSE]
  /\ opened' = {}
  /\ nread' = [i \in Party |-> 0]
  /\ advLeft' = 1000000
  /\ retd' = {}
  /\ l' = l + 1

\* the library writes a line: the commitment (computed from the two coins it has just drawn), or - only after
\* the peer's commitment has been read and accepted - the share, then the randomness
TW ==
  /\ IsEv("W")
  /\ LET i == Ev.i IN
     /\ \/ /\ Len(Ev.coins) = 2
           /\ SendCommit(i, Ev.coins[1], Ev.coins[2])
        \/ /\ Len(Ev.coins) = 0
           /\ (SendOpenA(i, FALSE) \/ SendOpenR(i))
     /\ Last(chan'[Peer(i)]) = Ev.m
  /\ UNCHANGED retd /\ l' = l + 1

\* the library tries to read a line
TR ==
  /\ IsEv("R")
  /\ LET i == Ev.i IN
     /\ Len(Ev.coins) = 0
     /\ Ev.eof = AtEof(i)
     /\ (~Ev.eof) => (Ev.m = Head(chan[i]))
     /\ (RecvCommit(i) \/ RecvA(i) \/ RecvR(i))
  /\ UNCHANGED retd /\ l' = l + 1

TAdv == IsEv("Adv") /\ AdvSend(Ev.to, Ev.m) /\ UNCHANGED retd /\ l' = l + 1
TClose == IsEv("Close") /\ AdvClose(Ev.to) /\ UNCHANGED retd /\ l' = l + 1

\* the call returns: TRUE and the coin exactly when the spec's party is done; an exception is a refusal that is
\* allowed only when a message was missing or not a number
TRet ==
  /\ IsEv("Ret")
  /\ LET i == Ev.i IN
     /\ i \in honest /\ i \notin retd /\ pc[i] \in Final
     /\ Len(Ev.coins) = 0
     /\ Ev.res = (pc[i] = "done")
     /\ (pc[i] = "done") => (Ev.coin = out[i])
     /\ ("exc" \in DOMAIN Ev) => (pc[i] = "abort")
     /\ retd' = retd \cup {i}
  /\ UNCHANGED vars /\ l' = l + 1

TNext == TReset \/ TW \/ TR \/ TAdv \/ TClose \/ TRet
TSpec == TInit /\ [][TNext]_tvars

Accepted == TLCGet("stats").diameter = Len(TraceLog) + 1
=============================================================================
