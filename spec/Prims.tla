------------------------------- MODULE Prims -------------------------------
(* number-theoretic primitives over TLC's 32-bit integers (moduli <= 46340) *)
EXTENDS Integers, Sequences, FiniteSets

Mod(a, m) == a % m                       \* TLC: result in 0..m-1 for m > 0

RECURSIVE PowM(_, _, _)
PowM(b, e, m) ==                          \* b^e mod m for e >= 0, 0 <= b < m
  IF e = 0 THEN 1 % m
  ELSE LET h == PowM((b * b) % m, e \div 2, m)
       IN IF e % 2 = 1 THEN (b * h) % m ELSE h

RECURSIVE GCD(_, _)
GCD(a, b) == IF b = 0 THEN a ELSE GCD(b, a % b)

RECURSIVE EGcd(_, _)                      \* <<g, x, y>> with a*x + b*y = g
EGcd(a, b) == IF b = 0 THEN <<a, 1, 0>>
              ELSE LET r == EGcd(b, a % b) IN <<r[1], r[3], r[2] - (a \div b) * r[3]>>
HasInv(a, m) == GCD(a % m, m) = 1
InvM(a, m) == EGcd(a % m, m)[2] % m       \* inverse of a modulo m (when it exists)

\* b^e mod m for any integer e (negative: inverse first); b coprime to m when e < 0
PowZ(b, e, m) == IF e >= 0 THEN PowM(b % m, e, m) ELSE PowM(InvM(b, m), -e, m)

IsPrime(n) == n > 1 /\ \A d \in 2..n : (d * d <= n) => (n % d # 0)
BitLen(n) == IF n = 0 THEN 0 ELSE CHOOSE k \in 1..31 : (n \div (2^(k-1)) >= 1) /\ (k = 31 \/ n \div (2^k) = 0)
Min(S) == CHOOSE x \in S : \A y \in S : x <= y
Max(S) == CHOOSE x \in S : \A y \in S : x >= y
SeqSum(s) == LET RECURSIVE F(_) F(k) == IF k = 0 THEN 0 ELSE s[k] + F(k - 1) IN F(Len(s))
=============================================================================
