SPECIFICATION Spec
CONSTANTS
 P = 23
 Q = 11
 Gg = 2
 Vars = {"opt"}
 Ns = {2, 3, 4}
 MsgVecs <- MV23b
 CCoins <- AllZq
 SCoins <- C3a
 Tamper = FALSE
 PowM <- TabPowM
INVARIANTS Correct HonestAbort Refusal OneOnly Curious CuriousPairs
CHECK_DEADLOCK FALSE
