SPECIFICATION TSpec
INVARIANTS C17_Order C17_Agreement C17_Complete C17_Sum C17_Reject C17_NoOutput
POSTCONDITION Accepted
CHECK_DEADLOCK FALSE
