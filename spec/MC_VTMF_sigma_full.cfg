SPECIFICATION Spec
CONSTANTS
 P = 23
 Q = 11
 Gg = 2
 K = 2
 W = 1
 L = 0
 HXS = {1,2,3,4,5,6,7,8,9,10}
 Mode = "sigma"
INVARIANTS C01_AllShares C01_Missing C01_Sentinel CardInGroup C08_Product C08_Common C03_Schnorr C03_CP C05_NegEquiv C05_Binding C04_CP C02_Mix C02_Glue
CHECK_DEADLOCK FALSE
