---------------------------- MODULE MC_Rotation ----------------------------
(***************************************************************************)
(* Exhaustive evaluation of Rotation.tla in small groups (C03/C04/C05).    *)
(* One TLC state per case; the case space is a tree (seed -> coins ->      *)
(* challenges) so that the workers share it.  Parts (INIT/NEXT/INVARIANT   *)
(* chosen by the configuration):                                           *)
(*  pubC  PUB-ROT-ZK completeness: every rotation, coins and challenges     *)
(*        from CoinSet / ChSet (the whole of Z_q in the *_full configs)     *)
(*  pubS  PUB-ROT-ZK with a non-fitting witness: accepted EXACTLY when      *)
(*        lam_r = 0 or prod E_k^beta_k = 1; measure (2q-1)/q^2 <= 2/q       *)
(*  rotC  rotation argument, completeness                                    *)
(*  rotS  rotation argument, false statements of the catalogue, every       *)
(*        claimed rotation r: accepted EXACTLY for the alpha with           *)
(*        prod D_k^alpha_{k-r} = (1,1); that set has at most q^(n-1)         *)
(*        elements (measure <= 1/q, the bound of the paper)                 *)
(*  bind  one transmitted line of an honest run replaced (catalogue):      *)
(*        number of challenge triples (lambda, beta, lambda') on which the  *)
(*        verifier still accepts; 0 unless only h_k lines changed, and      *)
(*        never more than q^(n+1) of q^(n+2)                                *)
(*  runs  the sequential runs (PRunRot, VRunRot)  of the three challenge sources *)
(*        agree with the predicates, also on mutated line sequences         *)
(***************************************************************************)
EXTENDS Rotation, FiniteSets

CONSTANTS P, Q, Gg, Hh,     \* the group
          Ns,               \* sizes
          CoinSet, ChSet,   \* ranges of coins / challenges
          Wide              \* more seeds
G == [p |-> P, q |-> Q, g |-> Gg, h |-> Hh]
ASSUME IsGroup(G)
ASSUME CoinSet \subseteq Zq(G) /\ ChSet \subseteq Zq(G)
VARIABLE cs

\* TLC evaluates PowM by recursion every time; the configurations replace it (PowM <- TabPowM) by a table built
\* once from the same defining recursion
RECURSIVE RecPowM(_, _, _)
RecPowM(b, e, m) == IF e = 0 THEN 1 % m
                    ELSE LET h == RecPowM((b * b) % m, e \div 2, m) IN IF e % 2 = 1 THEN (b * h) % m ELSE h
PowTab == [b \in 0..(P - 1) |-> [e \in 0..Q |-> RecPowM(b, e, P)]]
TabPowM(b, e, m) == IF m = P /\ b >= 0 /\ b < P /\ e >= 0 /\ e <= Q THEN PowTab[b][e] ELSE RecPowM(b, e, m)

AllQ == 0..(Q - 1)
CS2 == {0, 1}
CS3 == {0, 1, Q - 1}
CS4 == {0, 1, 3, Q - 1}
Pow(b, e) == IF e = 0 THEN 1 ELSE LET RECURSIVE F(_) F(k) == IF k = 0 THEN 1 ELSE b * F(k - 1) IN F(e)
Ct(m, s) == <<GE(G, s), Mul(G, HE(G, s), GE(G, m))>>                      \* ElGamal encryption of g^m
Vec(n, a, b) == [k \in 1..n |-> (a * k + b) % Q]
AlVecs(n) == {Vec(n, 3, 1), [k \in 1..n |-> 5], [k \in 1..n |-> IF k = 1 THEN 0 ELSE k]} \cup (IF Wide THEN {Vec(n, 1, 9), Vec(n, 0, 0)} ELSE {})
SVecs(n) == {Vec(n, 2, 3)} \cup (IF Wide THEN {Vec(n, 0, 0), Vec(n, 7, 2)} ELSE {})
XVecs(n) == {[k \in 1..n |-> Ct(k, (2 * k + 1) % Q)]} \cup (IF Wide THEN {[k \in 1..n |-> Ct(k % 2, (5 * k) % Q)]} ELSE {})
CoinVecs(len) == {[k \in 1..len |-> c] : c \in CoinSet} \cup {Vec(len, a, b) : a \in {1, 3}, b \in {0, 5}}
Stutter == UNCHANGED cs

\* ------------------------------------------------------------------ pubC
PubHonest(n, al, r, s) == [k \in 1..n |-> Com(G, al[Ix(n, k, r)], s[k])]
PubSeedsC == UNION {{[n |-> n, al |-> al, r |-> r, s |-> s, c |-> PubHonest(n, al, r, s)] :
                       al \in AlVecs(n), r \in 0..(n - 1), s \in SVecs(n)} : n \in Ns}
PubCoinSpace(n) == IF n = 2 THEN [1..NPubCoins(n) -> CoinSet] ELSE CoinVecs(NPubCoins(n))
PubChSpace(n) == IF n = 2 THEN {[be |-> be, lambda |-> l] : be \in [1..n -> ChSet], l \in ChSet}
                 ELSE {[be |-> be, lambda |-> l] : be \in CoinVecs(n) \cup {[k \in 1..n |-> IF k = j THEN 1 ELSE 0] : j \in 1..n}, l \in ChSet}
PubCoinSpaceS(n) == IF Wide THEN PubCoinSpace(n) ELSE {Vec(NPubCoins(n), 1, 0), Vec(NPubCoins(n), 3, 5)}
PubTree(sound) ==
  \/ cs.lvl = 0 /\ \E d \in (IF sound THEN PubCoinSpaceS(cs.sd.n) ELSE PubCoinSpace(cs.sd.n)) : cs' = [cs EXCEPT !.lvl = 1, !.d = d]
  \/ cs.lvl = 1 /\ \E ch \in PubChSpace(cs.sd.n) : cs' = [cs EXCEPT !.lvl = 2, !.ch = ch]
  \/ cs.lvl = 2 /\ Stutter
InitPubC == cs \in {[lvl |-> 0, sd |-> sd, d |-> <<>>, ch |-> <<>>] : sd \in PubSeedsC}
NextPubC == PubTree(FALSE)
PubT(c) == PubProve(G, c.sd.al, c.sd.c, c.sd.r, c.sd.s, PubCoins(c.sd.n, c.sd.r, c.d), c.ch.be, c.ch.lambda)
PubAcc(c) == LET T == PubT(c) IN PubAccept(G, c.sd.al, c.sd.c, c.ch.be, c.ch.lambda, T.f, T.lam, T.t)
InvPubC == (cs.lvl = 0 => PubRel(G, cs.sd.al, cs.sd.c, cs.sd.r, cs.sd.s)) /\ (cs.lvl = 2 => PubAcc(cs))

\* ------------------------------------------------------------------ pubS
ErrSet == {GE(G, 1), GE(G, 5), HE(G, 1), Mul(G, GE(G, 2), HE(G, 3))}
PubSeedsS == UNION {UNION {
     {[n |-> n, al |-> al, r |-> r, s |-> s, c |-> [PubHonest(n, al, r0, s) EXCEPT ![k] = Mul(G, @, E)]] :
          r0 \in 0..(n - 1), r \in 0..(n - 1), k \in 1..n, E \in ErrSet}
     \cup {[n |-> n, al |-> al, r |-> r, s |-> s, c |-> PubHonest(n, [al EXCEPT ![1] = al[2], ![2] = al[1]], 0, s)] : r \in 0..(n - 1)}
     : al \in AlVecs(n), s \in SVecs(n)} : n \in Ns}
InitPubS == cs \in {[lvl |-> 0, sd |-> sd, d |-> <<>>, ch |-> <<>>] : sd \in PubSeedsS}
NextPubS == PubTree(TRUE)
PubLamR(c) == PubT(c).lam[c.sd.r + 1]
PubExact(c) == PubAcc(c) <=> (PubLamR(c) = 0 \/ PubDefectVanishes(G, c.sd.al, c.sd.c, c.sd.r, c.sd.s, c.ch.be))
PubNontrivial(sd) == \E k \in 1..sd.n : PubDefect(G, sd.al, sd.c, sd.r, sd.s)[k] # 1
\* measure over ALL challenges for the coins of a level-1 state (n = 2: 11^3 resp. 23^3 evaluations)
PubCount(c) == Cardinality({x \in [1..c.sd.n -> AllQ] \X AllQ : PubAcc([c EXCEPT !.ch = [be |-> x[1], lambda |-> x[2]]])})
InvPubS == /\ cs.lvl = 2 => PubExact(cs)
           /\ (cs.lvl = 1 /\ cs.sd.n = 2 /\ PubNontrivial(cs.sd)) =>
                 LET cnt == PubCount(cs) IN
                 /\ cnt = (2 * Q - 1) * Pow(Q, cs.sd.n - 1)
                 /\ cnt * Q <= 2 * Pow(Q, cs.sd.n + 1)                      \* the bound 2/q
           /\ cs.lvl = 0 => (IsPubRotation(G, cs.sd.al, cs.sd.c) \/ PubNontrivial(cs.sd))

\* ------------------------------------------------------------------ rotC
RotHonestY(n, X, r, s) == [k \in 1..n |-> CtMul(G, X[Ix(n, k, r)], Enc0(G, s[k]))]
RotSeedsC == UNION {{[n |-> n, X |-> X, r |-> r, s |-> s, Y |-> RotHonestY(n, X, r, s)] :
                       X \in XVecs(n), r \in 0..(n - 1), s \in SVecs(n)} : n \in Ns}
OneHot(len, base, i, v) == [k \in 1..len |-> IF k = i THEN v ELSE base]
RotCoinSpace(n) == CoinVecs(NRotCoins(n)) \cup (IF Wide THEN {OneHot(NRotCoins(n), 2, i, v) : i \in 1..NRotCoins(n), v \in CoinSet} ELSE {})
ChRec(n, x) == [al |-> [k \in 1..n |-> x[k]], lambda |-> x[n + 1], be |-> [k \in 1..n |-> x[n + 1 + k]], lambda2 |-> x[2 * n + 2]]
RotChSpace(n) == {ChRec(n, x) : x \in (IF n = 2 THEN [1..(2 * n + 2) -> ChSet] ELSE CoinVecs(2 * n + 2) \cup {OneHot(2 * n + 2, 0, i, v) : i \in 1..(2 * n + 2), v \in ChSet})}
InitRotC == cs \in {[lvl |-> 0, sd |-> sd, d |-> <<>>, ch |-> <<>>] : sd \in RotSeedsC}
NextRotC ==
  \/ cs.lvl = 0 /\ \E d \in RotCoinSpace(cs.sd.n) : cs' = [cs EXCEPT !.lvl = 1, !.d = d]
  \/ cs.lvl = 1 /\ \E ch \in RotChSpace(cs.sd.n) : cs' = [cs EXCEPT !.lvl = 2, !.ch = ch]
  \/ cs.lvl = 2 /\ Stutter
RotT(c) == RotProve(G, c.sd.Y, c.sd.r, c.sd.s, RotCoins(c.sd.n, c.sd.r, c.d), c.ch)
RotAcc(c) == RotAccept(G, c.sd.X, c.sd.Y, c.ch, RotT(c))
InvRotC == (cs.lvl = 0 => RotRel(G, cs.sd.X, cs.sd.Y, cs.sd.r, cs.sd.s)) /\ (cs.lvl = 2 => RotAcc(cs))

\* ------------------------------------------------------------------ rotS
Kinds(n) == IF n >= 3 THEN FalseKinds ELSE FalseKinds \ {"noncyclic"}
RotSeedsS == UNION {UNION {
     {[n |-> n, X |-> X, r |-> r, s |-> s, kind |-> kd, Y |-> EditY(G, X, RotHonestY(n, X, r0, s), kd, k, e)] :
          r0 \in (IF Wide THEN 0..(n - 1) ELSE {1}), r \in 0..(n - 1), kd \in Kinds(n), k \in (IF Wide \/ n = 2 \/ Cardinality(CoinSet) > 1 THEN 1..n ELSE {2}), e \in (IF Wide THEN {1, 4} ELSE {4})}
     : X \in XVecs(n), s \in SVecs(n)} : n \in Ns}
RestSpace(n) == {[lambda |-> 3, be |-> Vec(n, 1, 1), lambda2 |-> 7], [lambda |-> 0, be |-> Vec(n, 0, 0), lambda2 |-> 0]}
InitRotS == cs \in {[lvl |-> 0, sd |-> sd, d |-> <<>>, ch |-> <<>>] : sd \in RotSeedsS}
NextRotS ==
  \/ cs.lvl = 0 /\ \E d \in {Vec(NRotCoins(cs.sd.n), 3, 5)} \cup (IF Wide THEN {Vec(NRotCoins(cs.sd.n), 1, 0)} ELSE {}) : cs' = [cs EXCEPT !.lvl = 1, !.d = d]
  \/ cs.lvl = 1 /\ \E al \in [1..cs.sd.n -> AllQ], rest \in (IF Wide \/ cs.sd.n = 2 THEN RestSpace(cs.sd.n) ELSE {[lambda |-> 3, be |-> Vec(cs.sd.n, 1, 1), lambda2 |-> 7]}) :
        cs' = [cs EXCEPT !.lvl = 2, !.ch = [al |-> al, lambda |-> rest.lambda, be |-> rest.be, lambda2 |-> rest.lambda2]]
  \/ cs.lvl = 2 /\ Stutter
RotNontrivial(sd) == \E k \in 1..sd.n : Defect(G, sd.X, sd.Y, sd.r, sd.s)[k] # <<1, 1>>
InvRotS ==
  /\ cs.lvl = 2 => (RotAcc(cs) <=> DefectVanishes(G, cs.sd.X, cs.sd.Y, cs.sd.r, cs.sd.s, cs.ch.al))
  /\ (cs.lvl = 0 /\ RotNontrivial(cs.sd)) =>
        Cardinality({al \in [1..cs.sd.n -> AllQ] : DefectVanishes(G, cs.sd.X, cs.sd.Y, cs.sd.r, cs.sd.s, al)}) <= Pow(Q, cs.sd.n - 1)
  \* a statement that is no rotation has no fitting witness; one that is (an edit can coincide with another rotation) may
  /\ cs.lvl = 0 => (IsRotation(G, cs.sd.X, cs.sd.Y) \/ RotNontrivial(cs.sd))
  /\ (cs.lvl = 0 /\ cs.sd.kind = "noncyclic" /\ \A i, j \in 1..cs.sd.n : i # j => cs.sd.X[i] # cs.sd.X[j]) => ~IsRotation(G, cs.sd.X, cs.sd.Y)

\* ------------------------------------------------------------------ bind
NLines(n) == 12 * n + 1
RotLines(T) == Move1Lines(T.m1) \o Move2Lines(T.m2) \o T.pub.f \o PubRespLines(T.pub)
ParseRot(n, L) == [m1 |-> ParseMove1(n, Sub(L, 1, 6 * n + 1)), m2 |-> ParseMove2(n, Sub(L, 6 * n + 2, 3 * n)),
                   pub |-> [f |-> Sub(L, 9 * n + 2, n), lam |-> Sub(L, 10 * n + 2, n), t |-> Sub(L, 11 * n + 2, n)]]
MutOK(L, pos, m) == IF m = "swap" THEN pos < Len(L) /\ L[pos] # L[pos + 1] ELSE MutVal(G, L[pos], m) # L[pos]
InitBind == cs \in {[lvl |-> 0, sd |-> sd, d |-> <<>>, ch |-> <<>>, pos |-> 0, m |-> "none"] : sd \in {x \in RotSeedsC : x.n = 2}}
\* (a swap across the border of two moves mixes values that depend on different challenges: left to the traces)
NextBind ==
  \/ cs.lvl = 0 /\ \E d \in {Vec(NRotCoins(2), 3, 5)} \cup (IF Wide THEN {Vec(NRotCoins(2), 1, 0)} ELSE {}), al \in {Vec(2, 3, 1), Vec(2, 0, 2)},
                       pos \in 1..NLines(2), m \in MutNames :
        /\ ~(m = "swap" /\ pos \in {6 * 2 + 1, 9 * 2 + 1, 10 * 2 + 1, 12 * 2 + 1})
        /\ cs' = [cs EXCEPT !.lvl = 1, !.d = d, !.ch = [al |-> al], !.pos = pos, !.m = m]
  \/ cs.lvl = 1 /\ Stutter
BindCount(c) ==
  LET n == c.sd.n  co == RotCoins(n, c.sd.r, c.d)  al == c.ch.al
      T(l, be, l2) == RotProve(G, c.sd.Y, c.sd.r, c.sd.s, co, [al |-> al, lambda |-> l, be |-> be, lambda2 |-> l2])
      be0 == Vec(n, 1, 2)
      V(l, be, l2) == ParseRot(n, MutLine(G, RotLines(T(l, be, l2)), c.pos, c.m))
      v0 == V(1, be0, 1)
      p1 == RotGuard1(G, v0.m1) /\ RotProd(G, c.sd.X, al, v0.m1)
      cntL == Cardinality({l \in AllQ : LET v == V(l, be0, 1) IN RotGuard2(G, v.m2) /\ RotExp(G, c.sd.Y, l, v.m1, v.m2)})
      cntP == Cardinality({x \in [1..n -> AllQ] \X AllQ :
                  LET v == V(1, x[1], x[2]) IN PubAccept(G, al, v.m1.h, x[1], x[2], v.pub.f, v.pub.lam, v.pub.t)})
  IN IF ~p1 THEN 0 ELSE IF cntL = 0 THEN 0 ELSE cntL * cntP
\* the lines a mutation changes
Touched(c) == IF c.m = "swap" THEN {c.pos, c.pos + 1} ELSE {c.pos}
InvBind ==
  (cs.lvl = 1 /\ MutOK(RotLines(RotProve(G, cs.sd.Y, cs.sd.r, cs.sd.s, RotCoins(2, cs.sd.r, cs.d),
                                          [al |-> cs.ch.al, lambda |-> 1, be |-> Vec(2, 1, 2), lambda2 |-> 1])), cs.pos, cs.m)
              /\ cs.pos \notin ((6 * 2 + 2)..(12 * 2 + 1)))          \* first-move lines: the same for all challenges
     => LET cnt == BindCount(cs) IN
        /\ cnt <= Pow(Q, cs.sd.n + 1)
        /\ cnt > 0 => Touched(cs) \subseteq 1..cs.sd.n
\* response lines depend on the challenges: the mutation is applied to the line of the very run.  Lines of the
\* second move (tau, rho, mu) meet lambda only, the lines of PUB-ROT-ZK (beta, lambda') only; the rest of the honest
\* transcript is accepted by completeness (part rotC), so only the part that reads the line is evaluated.
BindCountResp(c) ==
  LET n == c.sd.n  co == RotCoins(n, c.sd.r, c.d)  al == c.ch.al
      m1 == RotMove1(G, c.sd.Y, c.sd.r, c.sd.s, co, al)
      ok2(l) == LET L == Move2Lines(RotResp(G, c.sd.r, co, al, l))  k == c.pos - (6 * n + 1) IN
                MutOK(L, k, c.m) /\ (LET m2 == ParseMove2(n, MutLine(G, L, k, c.m)) IN RotGuard2(G, m2) /\ RotExp(G, c.sd.Y, l, m1, m2))
      okp(be, l2) == LET pt == PubProve(G, al, m1.h, c.sd.r, co.u, co.pub, be, l2)
                         L == pt.f \o PubRespLines(pt)  k == c.pos - (9 * n + 1) IN
                     MutOK(L, k, c.m) /\ (LET M == MutLine(G, L, k, c.m) IN PubAccept(G, al, m1.h, be, l2, Sub(M, 1, n), Sub(M, n + 1, n), Sub(M, 2 * n + 1, n)))
  IN IF c.pos <= 9 * n + 1 THEN Cardinality({l \in AllQ : ok2(l)}) * Pow(Q, n + 1)
     ELSE Cardinality({x \in [1..n -> AllQ] \X AllQ : okp(x[1], x[2])}) * Q
\* 0 in general; on the challenges with gamma_j = gamma_k for two offsets (all alpha equal, or beta constant for n = 2)
\* two branches of the OR proof speak about the same statement and their responses can be exchanged when moreover
\* lam_j = lam_k or sum u_i beta_i = 0: a set of measure < 2/q
InvBindResp == (cs.lvl = 1 /\ cs.pos \in ((6 * 2 + 2)..(12 * 2 + 1))) => BindCountResp(cs) * Q <= 2 * Pow(Q, cs.sd.n + 2)

\* ------------------------------------------------------------------ runs
\* honest sessions of the three challenge sources, built from the parties' runs; VD the verifier's draws (mode i: the
\* challenges, pc: two per flip), OR the oracle's answers (ni)
NCh(n) == 2 * n + 2
FlipLines(D) == [k \in 1..(3 * (Len(D) \div 2)) |-> LET f == (k + 2) \div 3  c == D[2 * f - 1]  ch == D[2 * f] IN
                    IF k % 3 = 1 THEN FlipCommit(G, c, ch) ELSE IF k % 3 = 2 THEN c ELSE ch]
Session(mode, sd, PD, VD) ==
  LET n == sd.n
      OR == [k \in 1..NCh(n) |-> [in |-> <<>>, out |-> VD[k]]]
      vl == CASE mode = "i" -> [k \in 1..NCh(n) |-> VD[k]] [] mode = "pc" -> FlipLines(VD) [] mode = "ni" -> <<>>
      pr == PRunRot(mode, G, sd.X, sd.Y, sd.r, sd.s, vl, PD, OR)
  IN [vl |-> vl, pr |-> pr, OR |-> OR]
RunSeeds == {[sd |-> sd, mode |-> md] : sd \in {x \in RotSeedsC : x.n \in Ns}, md \in Modes}
InitRuns == cs \in {[lvl |-> 0, sd |-> x.sd, mode |-> x.mode, pd |-> <<>>, vd |-> <<>>, pos |-> 0, m |-> "none"] : x \in RunSeeds}
NVD(mode, n) == IF mode = "pc" THEN 2 * NCh(n) ELSE NCh(n)
NPD(mode, n) == IF mode = "pc" THEN NRotCoins(n) + 2 * NCh(n) ELSE NRotCoins(n)
NextRuns ==
  \/ cs.lvl = 0 /\ \E pd \in {Vec(NPD(cs.mode, cs.sd.n), 1, 0), Vec(NPD(cs.mode, cs.sd.n), 3, 5)},
                       vd \in {Vec(NVD(cs.mode, cs.sd.n), 2, 1), Vec(NVD(cs.mode, cs.sd.n), 0, 0), Vec(NVD(cs.mode, cs.sd.n), 5, 3)} :
        cs' = [cs EXCEPT !.lvl = 1, !.pd = pd, !.vd = vd]
  \/ cs.lvl = 1 /\ \E pos \in 1..Len(Session(cs.mode, cs.sd, cs.pd, cs.vd).pr.sent), m \in MutNames : cs' = [cs EXCEPT !.lvl = 2, !.pos = pos, !.m = m]
  \/ cs.lvl = 2 /\ Stutter
\* the position (in the prover's line sequence of mode md) of the k-th proper protocol line (flip lines left out)
ProperPos(md, n) ==
  IF md # "pc" THEN [k \in 1..NLines(n) |-> k]
  ELSE [k \in 1..NLines(n) |-> k + (IF k <= 6 * n + 1 THEN 3 * n ELSE IF k <= 9 * n + 1 THEN 3 * n + 3 ELSE IF k <= 10 * n + 1 THEN 6 * n + 3 ELSE 6 * n + 6)]
InvRuns ==
  cs.lvl >= 1 =>
    LET n == cs.sd.n  ses == Session(cs.mode, cs.sd, cs.pd, cs.vd)
        pl == ses.pr.sent
        dl == IF cs.lvl = 2 /\ (cs.m # "swap" \/ cs.pos < Len(pl)) THEN MutLine(G, pl, cs.pos, cs.m) ELSE pl
        vr == VRunRot(cs.mode, G, cs.sd.X, cs.sd.Y, dl, cs.vd, ses.OR)
        pp == ProperPos(cs.mode, n)
        proper == [k \in 1..NLines(n) |-> dl[pp[k]]]
        \* the challenges as the verifier sees them
        chv == IF cs.mode = "pc"
               THEN [k \in 1..NCh(n) |-> LET base == (IF k <= n THEN 3 * (k - 1) ELSE IF k = n + 1 THEN 9 * n + 1 ELSE IF k <= 2 * n + 1 THEN 12 * n + 4 + 3 * (k - n - 2) ELSE 16 * n + 4) IN
                                         FlipValue(G, cs.vd[2 * k - 1], dl[base + 2])]
               ELSE [k \in 1..NCh(n) |-> cs.vd[k] % Q]
        flipsok == cs.mode # "pc" \/ \A k \in 1..NCh(n) :
                      LET base == (IF k <= n THEN 3 * (k - 1) ELSE IF k = n + 1 THEN 9 * n + 1 ELSE IF k <= 2 * n + 1 THEN 12 * n + 4 + 3 * (k - n - 2) ELSE 16 * n + 4) IN
                      Member(G, dl[base + 1]) /\ FlipOpenOK(G, dl[base + 1], dl[base + 2], dl[base + 3])
    IN /\ ses.pr.ok /\ Len(pl) = (IF cs.mode = "pc" THEN NLines(n) + 3 * NCh(n) ELSE NLines(n))
       /\ ses.pr.ci = NPD(cs.mode, n) + 1
       /\ cs.lvl = 1 => (vr.ok /\ vr.sent = ses.vl /\ vr.asked = ses.pr.asked /\ vr.ci = (IF cs.mode = "ni" THEN 1 ELSE NVD(cs.mode, n) + 1)
                          /\ Len(vr.asked) = (IF cs.mode = "ni" THEN NCh(n) ELSE 0))
       /\ vr.ok <=> (flipsok /\ RotAccept(G, cs.sd.X, cs.sd.Y, ChRec(n, chv), ParseRot(n, proper)))
=============================================================================
