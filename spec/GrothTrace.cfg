SPECIFICATION TSpec
INVARIANTS C03_Complete C03_NoExc C05_Member
POSTCONDITION Accepted
CHECK_DEADLOCK FALSE
