---------------------------- MODULE QRProofTrace ----------------------------
(***************************************************************************)
(* Direction B for the zero-knowledge proofs of the QR card encoding:       *)
(* executions recorded from the real SchindelhauerTMCG functions             *)
(* (harness/drv_qrproof.cc: prover and verifier run against each other over  *)
(* in-memory streams, every coin logged through seam_rng) are recomputed     *)
(* line by line with the role programs of QRProof.tla.                       *)
(*                                                                           *)
(*   Reset   keys of the ring, number of type bits                           *)
(*   Open / CSec / Mask / Self / Type   as in QRTrace.tla (card encoding)    *)
(*   Proof   one run of a proof:                                              *)
(*     proto  QR NQR MV MO PZK (value level, with its own key record)         *)
(*            MC PC CS         (card level: mask card, private card, opening) *)
(*     pm     alg   the library's prover on the logged witness                *)
(*            guess the prover prepared for the challenge string `guess`      *)
(*            zero  the prover that sends only zeros (MV, MC)                 *)
(*            lie   an opening that flips bit `lw` of the row (CS)            *)
(*            unrel NQR claimed with an unrelated square `bar` (NQR)          *)
(*     kv, kp security parameter of the verifier's / the prover's object      *)
(*     pc, vc the draws of either party; pl, vl the lines either party wrote; *)
(*     rl, ql the lines the verifier / the prover was given (one of them may  *)
(*            differ from pl / vl by the mutation `mut`)                      *)
(*     acc    the verifier's return value; vexc: it ended by an exception     *)
(*     pst    how the prover ended: ok | exc | abort (assertion)              *)
(*   StackEq the cut-and-choose proof for a stack of TMCG_Card mixed with a   *)
(*           logged stack secret (only statement and verdict)                  *)
(* For every Proof event: both parties wrote exactly the lines, drew exactly *)
(* the coins and ended exactly the way the role programs say (the verdict is *)
(* never tolerated, always computed), and the statements of C03 / C04 / C05  *)
(* hold for it.                                                               *)
(***************************************************************************)
EXTENDS QRTrace, QRProof
CONSTANT Strict        \* TRUE: also demand what the property demands where the protocol as implemented falls short (D4)

Kv == Ev.kv
PStatus(st) == IF st = "rej" THEN "ok" ELSE st          \* a role that stops after an inner refusal returns normally
OneCard == [k \in 1..NP |-> [w \in 1..W |-> 1]]

MutVal(v, mu) ==
  CASE mu.kind = "plus1" -> v + 1
    [] mu.kind = "neg" -> mu.m - (v % mu.m)             \* the other sign as a residue
    [] mu.kind = "minus" -> -v                          \* the other sign as an integer
    [] mu.kind = "zero" -> 0
    [] mu.kind = "one" -> 1
    [] mu.kind = "mm1" -> mu.m - 1
    [] mu.kind = "m" -> mu.m
    [] mu.kind = "nonunit" -> mu.p                      \* a factor of m
    [] mu.kind = "over" -> v + mu.m                     \* the same residue, not reduced
    [] mu.kind = "flip" -> 1 - v
Mut(s, mu, dir) ==
  IF mu.kind = "none" \/ mu.dir # dir THEN s
  ELSE IF mu.pos > Len(s) THEN s
  ELSE IF mu.kind = "swap" THEN
         (IF mu.pos < Len(s) THEN [s EXCEPT ![mu.pos] = s[mu.pos + 1], ![mu.pos + 1] = s[mu.pos]]
          ELSE SubSeq(s, 1, mu.pos - 1))                \* the held line never leaves the relay
  ELSE [s EXCEPT ![mu.pos] = MutVal(@, mu)]

IsPrefix(s, t) == Len(s) <= Len(t) /\ \A i \in 1..Len(s) : s[i] = t[i]
ZeroMaskCard(L, S) == LET Op(k, w, T) == PZeroMV(L, T) IN FoldE(Op, Entries(NP, W), 1, S)
ProverRun ==
  LET L == Ev.ql  C == Ev.pc  p == Ev.proto  pm == Ev.pm IN
  CASE p = "QR" /\ pm = "alg" -> PQR(Ev.key, Ev.t, Ev.root, L, C, S0)
    [] p = "QR" /\ pm = "guess" -> PGuessQR(Ev.key, Ev.t, Ev.guess, L, C, S0)
    [] p = "NQR" /\ pm = "alg" -> PNQR(Ev.key, Ev.t, Ev.root, L, C, S0)
    [] p = "NQR" /\ pm = "guess" -> PGuessNQR(Ev.key, Ev.t, Ev.guess, L, C, S0)
    [] p = "NQR" /\ pm = "unrel" -> PUnrelNQR(Ev.key, Ev.bar, Ev.root, L, C, S0)
    [] p = "MV" /\ pm = "alg" -> PMV(Ev.key, Ev.z, Ev.zz, Ev.r, Ev.b, L, C, S0)
    [] p = "MV" /\ pm = "guess" -> PGuessMV(Ev.key, Ev.z, Ev.zz, Ev.guess, L, C, S0)
    [] p = "MV" /\ pm = "zero" -> PZeroMV(L, S0)
    [] p = "MO" /\ pm = "alg" -> PMO(Ev.key, Ev.r, Ev.b, L, C, S0)
    [] p = "MO" /\ pm = "guess" -> PGuessMO(Ev.key, Ev.t, Ev.guess, L, C, S0)
    [] p = "PZK" /\ pm = "alg" -> PPZK(Ev.key, Ev.kp, L, C, S0)
    [] p = "MC" /\ pm = "alg" -> PMaskCard(keys, Ev.c, Ev.cc, Ev.sec, L, C, S0)
    [] p = "MC" /\ pm = "zero" -> ZeroMaskCard(L, S0)
    [] p = "PC" /\ pm = "alg" -> PPrivateCard(keys, Ev.sec, L, C, S0)
    [] p = "CS" /\ pm = "alg" -> PCardSecret(keys[Ev.idx + 1], Ev.c[Ev.idx + 1], Ev.roots, L, C, S0)
    [] p = "CS" /\ pm = "lie" -> PCardSecretLie(keys[Ev.idx + 1], Ev.c[Ev.idx + 1], Ev.roots, Ev.lw + 1, Ev.guess, L, C, S0)
VerifierRun ==
  LET L == Ev.rl  C == Ev.vc  p == Ev.proto IN
  CASE p = "QR" -> VQR(Ev.key, Ev.t, Kv, L, C, S0)
    [] p = "NQR" -> VNQR(Ev.key, Ev.t, Kv, L, C, S0)
    [] p = "MV" -> VMV(Ev.key, Ev.z, Ev.zz, Kv, L, C, S0)
    [] p = "MO" -> VMO(Ev.key, Ev.t, Kv, L, C, S0)
    [] p = "PZK" -> VPZK(Ev.key, Kv, L, C, S0)
    [] p = "MC" -> VMaskCard(keys, Ev.c, Ev.cc, Kv, L, C, S0)
    [] p = "PC" -> VPrivateCard(keys, Ev.c, Kv, L, C, S0)
    [] p = "CS" -> VCardSecret(keys[Ev.idx + 1], Ev.c[Ev.idx + 1], Kv, L, C, S0)

\* ---- the statement and whether the logged witness fits it
Fits ==
  LET p == Ev.proto IN
  CASE p = "QR" -> Sq(Ev.root, Ev.key.m) = Ev.t % Ev.key.m
    [] p = "NQR" -> Ev.pm # "unrel" /\ Sq(Ev.root, Ev.key.m) = NQRBar(Ev.key, Ev.t)
    [] p = "MV" -> Mask(Ev.key, Ev.z, Ev.r, Ev.b) = Ev.zz
    [] p = "MO" -> Mask(Ev.key, 1, Ev.r, Ev.b) = Ev.t
    [] p = "PZK" -> YisNQR(Ev.key)
    [] p = "MC" -> MaskCard(keys, Ev.c, Ev.sec) = Ev.cc
    [] p = "PC" -> MaskCard(keys, OneCard, Ev.sec) = Ev.c
    [] p = "CS" -> \A w \in 1..W : LET key == keys[Ev.idx + 1] z == Ev.c[Ev.idx + 1][w] IN
                      Sq(Ev.roots[w], key.m) = (IF IsQR(z, key) THEN z ELSE NQRBar(key, z))
UsesMaskOne == Ev.proto \in {"MO", "PC", "PZK"}
ChalIs(g, from, n) == Len(Ev.vc) >= from + n - 1 /\ \A i \in 1..n : Ev.vc[from + i - 1].v % 2 = g[i] % 2

\* ---- C03: an honest proof of a true statement is accepted unless a coin of the named exceptional set was drawn (D1, D3)
Completeness(pr, vr) ==
  (Ev.pm = "alg" /\ Ev.mut.kind = "none" /\ Fits /\ ~(UsesMaskOne /\ MaskOneAsCoded))
     => (Ev.acc <=> (Kv = 0 \/ ~(pr.one \/ vr.one)))          \* with kappa = 0 the verifier asks nothing

\* ---- C04: a false statement
FalseGuess ==        \* the guessing prover, on a statement that is false
  LET p == Ev.proto IN
  /\ Ev.pm = "guess" /\ Ev.mut.kind = "none"
  /\ CASE p = "QR" -> NQRTrue(Ev.key, Ev.t)
       [] p = "NQR" -> QRTrue(Ev.key, Ev.t)
       [] p = "MV" -> IsUnit(Ev.z, Ev.key.m) /\ IsUnit(Ev.zz, Ev.key.m) /\ Jac(Ev.z, Ev.key) # Jac(Ev.zz, Ev.key)
       [] p = "MO" -> IsUnit(Ev.t, Ev.key.m) /\ Jac(Ev.t, Ev.key) = -1 /\ ~MaskOneAsCoded
       [] OTHER -> FALSE
Soundness(pr, vr) ==
  \* accepted for the prepared challenge string and for no other: 1 of 2^kappa
  /\ FalseGuess => (Ev.acc <=> ChalIs(Ev.guess, 1, Kv))
  \* an opening that lies about one bit: accepted iff the challenges of that bit's proof are the prepared ones
  /\ (Ev.proto = "CS" /\ Ev.pm = "lie" /\ Ev.mut.kind = "none") =>
        (Ev.acc <=> (~pr.one /\ Len(Ev.vc) = W * Kv /\ ChalIs(Ev.guess, Ev.lw * Kv + 1, Kv)))
  \* NQR claimed through a square that is not t / y: refused before the security parameter is written
  /\ (Ev.proto = "NQR" /\ Ev.pm = "unrel" /\ Ev.mut.kind = "none" /\ ~NQRBarOK(Ev.key, Ev.t, Ev.bar)) => (~Ev.acc /\ Ev.vl = <<>>)
  \* a private card claimed with the secret of another card: R S = t fails at once
  /\ (Ev.proto \in {"MO", "PC"} /\ Ev.pm = "alg" /\ ~Fits /\ Ev.mut.kind = "none" /\ Kv > 0) => ~Ev.acc
  \* an accepted opening stores the true residuosity bits of the row
  /\ (Ev.proto = "CS" /\ Ev.acc /\ Kv > 0 /\ Ev.pm = "alg" /\ Ev.mut.kind = "none") =>
        Ev.bits = RowBits(keys[Ev.idx + 1], Ev.c[Ev.idx + 1])
  \* D4: the property demands that a mask which changes the type is refused
  /\ (Strict /\ Ev.proto = "MC" /\ Kv > 0 /\ TypeOfCard(keys, Ev.cc) # TypeOfCard(keys, Ev.c)) => ~Ev.acc

\* ---- C05: a changed transmitted value is accepted only when it is equivalent
LeafPos == IF Ev.proto = "NQR" THEN Ev.mut.pos - 1 ELSE Ev.mut.pos      \* position inside the QR part
EquivAt(pos) ==
  LET a == Ev.pl[pos]  b == Ev.rl[pos]  m == Ev.key.m  p == Ev.proto
      off == IF p = "NQR" THEN pos - 1 ELSE pos IN
  CASE p = "NQR" /\ pos = 1 -> a % m = b % m                               \* t / y: the statement of the inner proof
    [] p \in {"QR", "NQR"} -> IF off <= 2 * Kv THEN a % m = b % m ELSE Sq(a, m) = Sq(b, m)
    [] p = "MV" -> IF off <= Kv THEN a = b ELSE IF (off - Kv) % 2 = 1 THEN Sq(a, m) = Sq(b, m) ELSE a % 2 = b % 2
    [] p = "MO" -> IF off <= 2 * Kv THEN a % m = b % m ELSE IF (off - 2 * Kv) % 2 = 1 THEN Sq(a, m) = Sq(b, m)
                   ELSE MaskOneAsCoded \/ a % 2 = b % 2                       \* D5: the bit is not looked at
Binding ==
  \* one value replaced (a swap changes two and is judged by the exact verdict alone)
  /\ (Ev.mut.kind \notin {"none", "swap"} /\ Ev.mut.dir = "p" /\ Ev.proto \in {"QR", "NQR", "MV", "MO"} /\ Ev.acc /\ Ev.mut.pos <= Len(Ev.pl)) =>
        EquivAt(Ev.mut.pos)
  \* values outside Z*_m are refused: the prover that sends only zeros never passes
  /\ (Ev.proto \in {"MV", "MC"} /\ Ev.pm = "zero" /\ Kv > 0) => ~Ev.acc

TProof ==
  /\ IsEv("Proof")
  /\ LET pr == ProverRun
         vr == VerifierRun
     IN /\ pr.st # "bad" /\ vr.st # "bad"
        \* what a party was given is what the other wrote (changed by the relay), up to the moment it ended
        /\ IsPrefix(Ev.rl, Mut(Ev.pl, Ev.mut, "p")) /\ IsPrefix(Ev.ql, Mut(Ev.vl, Ev.mut, "v"))
        /\ pr.out = Ev.pl /\ PStatus(pr.st) = Ev.pst /\ pr.ci = Len(Ev.pc) + 1
        /\ vr.out = Ev.vl /\ vr.ci = Len(Ev.vc) + 1
        /\ Ev.acc = (vr.st = "ok") /\ Ev.vexc = (vr.st = "exc")
        /\ (Ev.proto = "CS") => LET vb == VCSBits(keys[Ev.idx + 1], Ev.c[Ev.idx + 1], Kv, Ev.rl, Ev.vc, 1, S0) IN
                                 \A w \in 1..Len(vb) : Ev.bits[w] = vb[w]
        /\ Completeness(pr, vr)
        /\ Soundness(pr, vr)
        /\ Binding
  /\ UNCHANGED <<keys, W>> /\ l' = l + 1

\* The cut-and-choose stack proof of TMCG_Card stacks (its rounds are not recomputed here: the VTMF form of the same
\* protocol is VTMFTrace's): the out stack IS the mix of the in stack under the logged secret and the prover is the
\* library's, so the proof is accepted; Strict adds the property's demand that an accepted shuffle keeps every type.
TStackEq ==
  /\ IsEv("StackEq")
  /\ LET n == Len(Ev["in"]) IN
     /\ Len(Ev.out) = n /\ Len(Ev.ss) = n /\ {Ev.ss[j].pi : j \in 1..n} = 0..(n - 1)
     /\ \A j \in 1..n : Ev.out[j] = MaskCard(keys, Ev["in"][Ev.ss[j].pi + 1], Ev.ss[Ev.ss[j].pi + 1])
     /\ Ev.acc /\ ~Ev.vexc /\ Ev.pst = "ok"
     /\ (Strict /\ Ev.kv > 0) => \A j \in 1..n : TypeOfCard(keys, Ev.out[j]) = TypeOfCard(keys, Ev["in"][Ev.ss[j].pi + 1])
  /\ UNCHANGED <<keys, W>> /\ l' = l + 1

PNext == TNext \/ TProof \/ TStackEq
PSpec == TInit /\ [][PNext]_vars
=============================================================================
