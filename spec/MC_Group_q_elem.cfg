SPECIFICATION Spec
CONSTANTS
 MaxP = 47
 MaxQ = 23
 MaxK = 7
 Margin = 4
 Variants <- E_one
 NaiveMaxP = 0
 NaiveVariants <- None
 AccMaxP = 1000
 NbrMaxP = 0
 NbrVariants <- None
 Mode = "elem"
 CheckArith = FALSE
 SortedBases = TRUE
INVARIANTS Emit
CHECK_DEADLOCK FALSE
