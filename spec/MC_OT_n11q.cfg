SPECIFICATION Spec
CONSTANTS
 P = 11
 Q = 5
 Gg = 3
 Vars = {"n"}
 Ns = {2, 3}
 MsgVecs <- MV11
 CCoins <- C2c
 SCoins <- C2a
 Tamper = FALSE
 PowM <- TabPowM
INVARIANTS Correct HonestAbort Refusal OneOnly Curious CuriousPairs
CHECK_DEADLOCK FALSE
