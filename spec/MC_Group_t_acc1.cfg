SPECIFICATION Spec
CONSTANTS
 MaxP = 90
 MaxQ = 45
 MaxK = 10
 Margin = 4
 Variants <- A_one
 NaiveMaxP = 23
 Mode = "acc"
 CheckArith = TRUE
 SortedBases = TRUE
INVARIANTS BlockIsDefinition Sound Complete Shape Elements Emit
CHECK_DEADLOCK FALSE
