SPECIFICATION Spec
CONSTANTS
 Fam = "sqp"
 P <- PThorough
INVARIANTS Theorems Emit
CHECK_DEADLOCK FALSE
