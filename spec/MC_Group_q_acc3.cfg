SPECIFICATION Spec
CONSTANTS
 MaxP = 47
 MaxQ = 23
 MaxK = 7
 Margin = 4
 Variants <- A_com
 NaiveMaxP = 5
 Mode = "acc"
 CheckArith = FALSE
 SortedBases = TRUE
INVARIANTS BlockIsDefinition Sound Complete Shape Elements Emit
CHECK_DEADLOCK FALSE
