SPECIFICATION Spec
CONSTANTS
 Fam = "ip"
 P <- PThorough
INVARIANTS Theorems Emit
CHECK_DEADLOCK FALSE
