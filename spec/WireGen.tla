------------------------------ MODULE WireGen ------------------------------
(***************************************************************************)
(* Small-domain enumeration for property C11 (direction A).                 *)
(* TLC walks a tree  root -> family part -> case.  In every case state it   *)
(*   - checks the specification-level property  Import(Export(o)) = o  and  *)
(*     Export(Import(Export(o))) = Export(o)  (invariant Theorems), and     *)
(*   - prints the object description together with the export text that    *)
(*     Wire.tla computes for it, the dimensions of the used objects the     *)
(*     text has to be imported into, and - for the malformed texts of the   *)
(*     family "lim" - the verdict of the specification's parser             *)
(*     (invariant Emit, one JSON object per line).                          *)
(* checks/c11.py hands the lines to harness/drv_wire.cc, which builds the   *)
(* real object, exports, imports and re-exports it and reports the raw      *)
(* texts and comparison results.  Fams selects the families of one run, P   *)
(* the bounds (PQuick / PThorough).                                         *)
(***************************************************************************)
EXTENDS Wire, Prims, Json

CONSTANTS Fams,    \* subset of AllFams
          P        \* record of bounds
VARIABLE st
gvars == <<st>>

AllFams == {"int", "card", "stack", "key", "group", "state", "lim"}

PQuick == [ IntLo |-> -3000, IntHi |-> 3000,
            Offs |-> {0, 13},                         \* fill offsets for cards and card secrets (all 32 x 10 dimensions each)
            StackSizes |-> {1, 2, 3, 4, 7, 64, 511, 512},
            StackDims |-> {<<1, 1>>, <<2, 3>>},          \* dimensions of the quadratic-residue cards inside stacks
            WideStack |-> {1, 2, 9},                     \* stack sizes with cards of the maximal dimensions 32 x 10
            PermAll |-> 4,                               \* all permutations up to this size
            KeyPrimeHi |-> 23, KeyYs |-> 2,
            GroupPHi |-> 60, ComN |-> {1, 2, 3, 8, 257},
            PvssN |-> 5, DkgN |-> 3, XvssN |-> 2, NestN |-> 3 ]
PThorough == [ IntLo |-> -50000, IntHi |-> 50000,
            Offs |-> {0, 3, 5, 13, 17, 21, 26, 30},
            StackSizes |-> (1..100) \cup {127, 128, 129, 200, 255, 256, 257, 300, 400, 500, 510, 511, 512},
            StackDims |-> {<<1, 1>>, <<2, 3>>, <<3, 1>>},
            WideStack |-> {1, 2, 9, 64, 512},           \* 512 cards of 32 x 10: the largest stack there is
            PermAll |-> 5,
            KeyPrimeHi |-> 47, KeyYs |-> 4,
            GroupPHi |-> 300, ComN |-> {1, 2, 3, 8, 32, 64, 256, 257, 300, 512},
            PvssN |-> 12, DkgN |-> 5, XvssN |-> 4, NestN |-> 5 ]

---------------------------------------------------------------------------
(* boundary integers and numerals                                           *)
B == << 0, 1, -1, 2, 9, 10, 35, 36, 61, 62, -61, -62, 63, 3843, 3844, -3844, 3845, 65535, 65536, 238327, 238328, -238328,
        14776335, 14776336, 16777216, 916132831, 916132832, -916132832, 1073741824, 2147483646, 2147483647, -2147483647 >>
NB == Len(B)
BSet == {B[i] : i \in 1..NB}
BV(n) == B[(n % NB) + 1]
\* numerals of integers beyond 2^31: around the word sizes, of the lengths of 256 / 2048 / 16384 bit values
\* ("A" followed by 2751 "z" is 11 * 62^2751 - 1 < 2^16384 <= 12 * 62^2751: a value of maximal length)
BigN == << Pow2Str(31), "-" \o Pow2Str(31), Pow2m1Str(32), Pow2Str(32), Pow2p1Str(32), Pow2m1Str(63), Pow2Str(63),
           "-" \o Pow2Str(63), Pow2m1Str(64), Pow2Str(64), Pow2p1Str(64), "-" \o Pow2Str(64), Pow2Str(127), Pow2m1Str(128),
           Pow2Str(128), Pow62Str(5), Pow62m1Str(6), Pow62Str(6), Pow62m1Str(43), "-" \o Pow62m1Str(43), Pow62Str(343),
           Pow62m1Str(344), "A" \o Rep("z", 2751), "B" \o Rep("0", 2751), "-A" \o Rep("z", 2751), "0", "1", "-1", "z", "10" >>
NG == Len(BigN)
BG(n) == BigN[(n % NG) + 1]
Fill(big, n) == IF big THEN BG(n) ELSE BV(n)
\* a shorter list for the objects with many leaves (the numerals of maximal length are 2752 characters each)
BigS == << Pow2Str(31), Pow2m1Str(64), "-" \o Pow2Str(64), Pow2p1Str(128), Pow62m1Str(43), "-" \o Pow62m1Str(344), "0", "1", "-1",
           Pow62Str(343), Pow2Str(32) >>
FillS(big, n) == IF big THEN BigS[(n % Len(BigS)) + 1] ELSE BV(n)

---------------------------------------------------------------------------
(* objects by dimension and fill offset                                     *)
MkTCard(big, k, w, off) == TCard(big, k, w, [i \in 1..k |-> [j \in 1..w |-> FillS(big, off + (i - 1) * w + j)]])
MkTSec(big, k, w, off) == TSec(big, k, w, [i \in 1..k |-> [j \in 1..w |-> FillS(big, off + 2 * ((i - 1) * w + j))]],
                                           [i \in 1..k |-> [j \in 1..w |-> FillS(big, off + 2 * ((i - 1) * w + j) + 1)]])
MkVCard(big, off) == VCard(big, Fill(big, off), Fill(big, 3 * off + 1))
MkVSec(big, off) == VSec(big, Fill(big, off))
\* the dimensions a used object may have had before the import: the same, one row more / less, another width, smallest, largest
UsedDims(k, w) == {<<k, w>>, <<1, 1>>, <<MaxPlayers, MaxTypeBits>>}
                  \cup (IF k < MaxPlayers THEN {<<k + 1, w>>} ELSE {}) \cup (IF k > 1 THEN {<<k - 1, w>>} ELSE {})
                  \cup (IF w < MaxTypeBits THEN {<<k, w + 1>>} ELSE {<<k, w - 1>>})

\* permutations of 0..n-1 as sequences
Perms(n) == {f \in [1..n -> 0..(n - 1)] : \A i, j \in 1..n : i # j => f[i] # f[j]}
CoprimeTo(n) == CHOOSE a \in 2..(n + 1) : GCD(a, n) = 1
SomePerms(n) == IF n <= P.PermAll THEN Perms(n)
                ELSE { [i \in 1..n |-> i - 1], [i \in 1..n |-> n - i], [i \in 1..n |-> i % n],
                       [i \in 1..n |-> (CoprimeTo(n) * i + 3) % n] }

MkTStack(big, n, k, w, off) == Stack("tstack", big, [c \in 1..n |-> MkTCard(big, k, w, off + 7 * c)])
MkVStack(big, n, off) == Stack("vstack", big, [c \in 1..n |-> MkVCard(big, off + c)])
MkTSS(big, pi, k, w, off) == StackSecret("tss", big, pi, [c \in 1..Len(pi) |-> MkTSec(big, k, w, off + 5 * c)])
MkVSS(big, pi, off) == StackSecret("vss", big, pi, [c \in 1..Len(pi) |-> MkVSec(big, off + c)])

---------------------------------------------------------------------------
(* TLC evaluates every constant expression once at start-up - in every run,   *)
(* whatever Fams is, and slowly.  The case sets below therefore take the flag *)
(* big of the part they belong to as a parameter (FALSE for the parts with    *)
(* integer leaves), which makes them expressions of the state.                *)
(* keys.  A secret key is a Rabin key of the toolbox: m = p q with primes   *)
(* p, q = 3 (mod 4), gcd(m, phi(m)) = 1 (the proofs of the key need m^-1    *)
(* mod phi(m)), and y a non-residue with Jacobi symbol 1.                   *)
Residue(y, p) == PowM(y % p, (p - 1) \div 2, p) = 1
BlumPrimes(u) == {p \in 3..P.KeyPrimeHi : IsPrime(p) /\ p % 4 = 3}
KeyMods(u) == {pq \in BlumPrimes(0) \X BlumPrimes(0) : pq[1] # pq[2] /\ GCD(pq[1] * pq[2], (pq[1] - 1) * (pq[2] - 1)) = 1}
KeyYsOf(p, q) == LET all == {y \in 2..(p * q - 1) : GCD(y, p * q) = 1 /\ ~Residue(y, p) /\ ~Residue(y, q)}
                     RECURSIVE First(_, _)
                     First(S0, n) == LET S == S0 IN IF n = 0 \/ S = {} THEN {} ELSE LET x == Min(S) IN {x} \cup First(S \ {x}, n - 1)
                 IN First(all, P.KeyYs) \cup {Max(all)}
Names == {"", "Alice", "A B.C-d_e^f"}
Emails == {"", "a@b.c"}
Types == {"", "TMCG/RABIN_1024_NIZK"}
Nizks == {"", "nzk^16^128^128^1F^"}
Sigs == {"", "sig|ID8^0123abcd|1F|2G|", "|", "||x"}
PubMY == {<<0, 0>>, <<77, 6>>, <<2147483647, -1>>}
PubKeys(big) == ({PubKey(big, n, e, t, my[1], my[2], z, s) : n \in Names, e \in Emails, t \in Types, my \in PubMY, z \in Nizks, s \in Sigs})
BigPubKeys(big) == ({PubKey(big, "Alice", "a@b.c", "TMCG/RABIN_2048_NIZK", BG(n), BG(n + 7), "nzk^" \o BG(n + 3) \o "^", "sig|" \o BG(n + 5) \o "|")
                 : n \in 0..(NG - 1)})
SecKeys(big) == (UNION {{SecKey(big, n, "a@b.c", "TMCG/RABIN_8", pq[1] * pq[2], y, pq[1], pq[2], z, s)
                     : y \in KeyYsOf(pq[1], pq[2]), n \in {"", "Alice"}, z \in Nizks, s \in {"", "sig|ID8^0123abcd|1F|2G|"}}
                  : pq \in KeyMods(0)})

---------------------------------------------------------------------------
(* groups: p = k q + 1 with primes p, q; elements of order q                 *)
Groups(u) == {<<x[1] * x[2] + 1, x[1], x[2]>> :
             x \in {y \in (3..P.GroupPHi) \X (2..P.GroupPHi) : /\ y[1] * y[2] + 1 <= P.GroupPHi /\ IsPrime(y[1])
                                                                /\ IsPrime(y[1] * y[2] + 1) /\ GCD(y[1], y[2]) = 1}}
Elems(p, q, k) == {PowM(x, k, p) : x \in 2..(p - 2)} \ {1}
\* the elements of order q in ascending order
ElemSeq(p, q, k) == LET RECURSIVE Asc(_)
                        Asc(S0) == LET S == S0 IN IF S = {} THEN <<>> ELSE LET x == Min(S) IN <<x>> \o Asc(S \ {x})
                    IN Asc(Elems(p, q, k))
GroupObjs(ty, big) ==
  UNION {LET p == G[1]  q == G[2]  k == G[3]  E == ElemSeq(p, q, k)  g == E[1]  h == E[Len(E)]
             el(j) == E[(j % Len(E)) + 1]
         IN CASE ty = "vtmf"  -> {[ty |-> "vtmf", big |-> big, p |-> p, q |-> q, g |-> x, k |-> k] : x \in {g, h}}
              [] ty = "com"   -> {[ty |-> "com", big |-> big, p |-> p, q |-> q, k |-> k, h |-> h, g |-> [j \in 1..n |-> el(j)]] : n \in P.ComN}
              [] ty = "vsshe" -> {[ty |-> "vsshe", big |-> big, p |-> p, q |-> q, g |-> g, h |-> el(2),
                                   com |-> [ty |-> "com", big |-> big, p |-> p, q |-> q, k |-> k, h |-> h, g |-> [j \in 1..n |-> el(j + 1)]]]
                                    : n \in P.ComN \cap 1..8}
              [] ty = "vrhe"  -> {[ty |-> "vrhe", big |-> big, p |-> p, q |-> q, g |-> g, h |-> h]}
              [] ty = "ptc"   -> {[ty |-> "ptc", big |-> big, p |-> p, q |-> q, k |-> k, g |-> g, h |-> h]}
              [] ty = "eotp"  -> {[ty |-> "eotp", big |-> big, p |-> p, q |-> q, g |-> x] : x \in {g, h}}
        : G \in Groups(0)}
\* parameter sets of real sizes: opaque numerals (the classes only store them)
BigGroupObjs(ty, big) ==
  {LET p == BG(a + 18)  q == BG(a + 9)  g == BG(a)  h == BG(a + 4)  k == BG(a + 13) IN
   CASE ty = "vtmf"  -> [ty |-> "vtmf", big |-> big, p |-> p, q |-> q, g |-> g, k |-> k]
     [] ty = "com"   -> [ty |-> "com", big |-> big, p |-> p, q |-> q, k |-> k, h |-> h, g |-> [j \in 1..3 |-> BG(a + j)]]
     [] ty = "vsshe" -> [ty |-> "vsshe", big |-> big, p |-> p, q |-> q, g |-> g, h |-> h,
                         com |-> [ty |-> "com", big |-> big, p |-> p, q |-> q, k |-> k, h |-> BG(a + 1), g |-> [j \in 1..2 |-> BG(a + j + 1)]]]
     [] ty = "vrhe"  -> [ty |-> "vrhe", big |-> big, p |-> p, q |-> q, g |-> g, h |-> h]
     [] ty = "ptc"   -> [ty |-> "ptc", big |-> big, p |-> p, q |-> q, k |-> k, g |-> g, h |-> h]
     [] ty = "eotp"  -> [ty |-> "eotp", big |-> big, p |-> p, q |-> q, g |-> g]
   : a \in {0, 2, 3, 4, 5, 11}}              \* offsets for which p (= BG(a + 18)) is a positive numeral other than "0"

---------------------------------------------------------------------------
(* persisted protocol states.  The CRS is the group (23, 11) with g = 2,     *)
(* h = 3 (or opaque numerals); every other leaf is filled from the boundary  *)
(* lists, so that zero, negative and extreme values occur at every position. *)
Crs(big, off) == IF big THEN [p |-> BG(off + 18), q |-> BG(off + 9), g |-> BG(off), h |-> BG(off + 4)] ELSE [p |-> 23, q |-> 11, g |-> 2, h |-> 3]
Vec(big, off, n) == [j \in 1..n |-> FillS(big, off + j)]
Mat(big, off, n, m) == [a \in 1..n |-> [b \in 1..m |-> FillS(big, off + (a - 1) * m + b)]]
\* QUAL as the protocols leave it (ascending), every subset; one descending order in addition
RECURSIVE AscOf(_)
AscOf(S0) == LET S == S0 IN IF S = {} THEN <<>> ELSE LET x == Min(S) IN <<x>> \o AscOf(S \ {x})
Quals(n) == {AscOf(S) : S \in SUBSET (0..(n - 1))} \cup {[j \in 1..n |-> n - j]}
FewQuals(n) == {<<>>, AscOf(0..(n - 1)), [j \in 1..n |-> n - j]} \cup (IF n > 1 THEN {<<n - 1>>} ELSE {})

MkPvss(big, n, t, i, off) ==
  LET c == Crs(big, off) IN
  [ty |-> "pvss", big |-> big, p |-> c.p, q |-> c.q, g |-> c.g, h |-> c.h, n |-> n, t |-> t, i |-> i,
   sigma |-> FillS(big, off + 1), tau |-> FillS(big, off + 2),
   a |-> Vec(big, off + 2, t + 1), b |-> Vec(big, off + 11, t + 1), A |-> Vec(big, off + 20, t + 1)]
MkGjkr(big, n, t, i, qual, off) ==
  LET c == Crs(big, off) IN
  [ty |-> "gjkr", big |-> big, p |-> c.p, q |-> c.q, g |-> c.g, h |-> c.h, n |-> n, t |-> t, i |-> i,
   x |-> FillS(big, off + 1), xp |-> FillS(big, off + 2), y |-> FillS(big, off + 3), qual |-> qual,
   yi |-> Vec(big, off + 3, n), zi |-> Vec(big, off + 8, n), vi |-> Vec(big, off + 14, n),
   s |-> Mat(big, off + 1, n, n), sp |-> Mat(big, off + 17, n, n), C |-> Mat(big, off + 9, n, t + 1)]
MkXvss(ty, big, n, t, i, tp, qual, off) ==
  LET c == Crs(big, off)
      base == [ty |-> ty, big |-> big, p |-> c.p, q |-> c.q, g |-> c.g, h |-> c.h, n |-> n, t |-> t, i |-> i, tp |-> tp,
               x |-> FillS(big, off + 1), xp |-> FillS(big, off + 2), qual |-> qual,
               s |-> Mat(big, off + 5, n, n), sp |-> Mat(big, off + 19, n, n), C |-> Mat(big, off + 12, n, tp + 1)]
  IN IF ty = "rvss" THEN With(base, "z", FillS(big, off + 3), "zp", FillS(big, off + 4)) ELSE base
MkHead(ty, big, n, t, i, qual, off) ==
  LET c == Crs(big, off) IN
  [ty |-> ty, big |-> big, p |-> c.p, q |-> c.q, g |-> c.g, h |-> c.h, n |-> n, t |-> t, i |-> i,
   x |-> FillS(big, off + 6), xp |-> FillS(big, off + 7), y |-> FillS(big, off + 8), qual |-> qual]
\* the RVSS instance of a DKG has the DKG's n, t, i and t' = t; its QUAL is its own
MkCdkg(big, n, t, i, qual, iqual, off) ==
  With(MkHead("cdkg", big, n, t, i, qual, off), "rvss", MkXvss("rvss", big, n, t, i, t, iqual, off + 10), "ty", "cdkg")
MkDss(big, n, t, i, qual, iqual, off) ==
  With(MkHead("dss", big, n, t, i, qual, off), "dkg", MkCdkg(big, n, t, i, iqual, qual, off + 21), "ty", "dss")

NTI(nmax) == {nti \in (1..nmax) \X (0..nmax) \X (0..(nmax - 1)) : nti[2] <= nti[1] /\ nti[3] < nti[1]}
StateObjs(ty, big) ==
  CASE ty = "pvss" -> ({MkPvss(big, z[1], z[2], z[3], 3 * z[1] + z[2]) : z \in NTI(P.PvssN)}
                      \cup {MkPvss(big, MaxDkgPlayers, t, i, 7) : t \in {0, 3, MaxDkgPlayers}, i \in {0, MaxDkgPlayers - 1}})
    [] ty = "gjkr" -> (UNION {{MkGjkr(big, z[1], z[2], z[3], ql, 5 * z[1] + z[3]) : ql \in Quals(z[1])} : z \in NTI(P.DkgN)})
    [] ty \in {"rvss", "zvss"} ->
         UNION {UNION {{MkXvss(ty, big, z[1], z[2], z[3], tp, ql, 5 * z[1] + z[3] + tp) : ql \in FewQuals(z[1])} : tp \in 0..z[1]}
                : z \in NTI(P.XvssN)}
    [] ty = "cdkg" -> (UNION {{MkCdkg(big, z[1], z[2], z[3], ql[1], ql[2], 2 * z[1] + z[3]) : ql \in FewQuals(z[1]) \X FewQuals(z[1])}
                             : z \in NTI(P.NestN)})
    [] ty = "dss"  -> (UNION {{MkDss(big, z[1], z[2], z[3], ql[1], ql[2], 2 * z[1] + z[3]) : ql \in FewQuals(z[1]) \X FewQuals(z[1])}
                             : z \in NTI(P.NestN)})
BigStateObjs(ty, big) ==
  CASE ty = "pvss" -> ({MkPvss(big, 3, 1, 2, a) : a \in {0, 2, 3, 4, 5, 11}})
    [] ty = "gjkr" -> ({MkGjkr(big, 3, 1, 2, <<0, 2>>, a) : a \in {0, 5}})
    [] ty \in {"rvss", "zvss"} -> {MkXvss(ty, big, 3, 1, 2, 2, <<0, 2>>, a) : a \in {0, 5}}
    [] ty = "cdkg" -> ({MkCdkg(big, 3, 1, 2, <<0, 1, 2>>, <<1>>, a) : a \in {0, 5}})
    [] ty = "dss"  -> ({MkDss(big, 3, 1, 2, <<0, 1, 2>>, <<1>>, a) : a \in {0, 5}})

---------------------------------------------------------------------------
(* malformed texts: dimensions outside their limits, counts that do not fit, *)
(* missing ends.  The verdict is the one of Wire.tla's parser.  Only texts   *)
(* whose reading is not a matter of taste are listed (no stray white space,  *)
(* no leading zeros, no trailing garbage).                                   *)
Lim(ty, big, arg, txt) == [k |-> "lim", ty |-> ty, big |-> big, arg |-> arg, txt |-> txt]
CutLast(s0) == LET s == s0 IN SubSeq(s, 1, Len(s) - 1)
CutLastLine(s0) == LET s == s0  Q == Delims(s, NL) IN SubSeq(s, 1, Q[Len(Q) - 1])        \* at least two lines
ZeroStack(big) == Stack("tstack", big, <<>>)
LimCases(big) == (  \* cards and card secrets: k, w in {0, limit + 1}; last delimiter missing; wrong magic
  {Lim("tcard", big, 0, ExpTCard(MkTCard(big, kw[1], kw[2], 0))) : kw \in {<<MaxPlayers + 1, 1>>, <<1, MaxTypeBits + 1>>, <<MaxPlayers + 1, MaxTypeBits + 1>>}}
  \cup {Lim("tsec", big, 0, ExpTSec(MkTSec(big, kw[1], kw[2], 0))) : kw \in {<<MaxPlayers + 1, 1>>, <<1, MaxTypeBits + 1>>}}
  \cup {Lim("tcard", big, 0, t) : t \in {"crd|0|1|", "crd|1|0|", "crd|0|0|", "crd|1|1|", "crd|2|2|1|2|3|", CutLast(ExpTCard(MkTCard(big, 2, 2, 0))),
                                          "crs|1|1|5|", "crd|1|1||", "crd||1|5|", ""}}
  \cup {Lim("tsec", big, 0, t) : t \in {"crs|0|1|", "crs|1|0|", "crs|1|1|5|", CutLast(ExpTSec(MkTSec(big, 2, 2, 0))), "crd|1|1|5|0|", "crs|1|1|5||"}}
  \cup {Lim("vcard", big, 0, t) : t \in {"crd|5|", "crd|5|6", "crs|5|6|", "crd||6|", "crd|5||"}}
  \cup {Lim("vsec", big, 0, t) : t \in {"crs|5", "crd|5|", "crs||"}}
  \* stacks: size 0 and limit + 1, count larger than the number of elements, end missing, a bad element
  \cup {Lim("vstack", big, 0, ExpStack(MkVStack(big, MaxCards + 1, 0))),
        Lim("tstack", big, 0, ExpStack(MkTStack(big, MaxCards + 1, 1, 1, 0))),
        Lim("tstack", big, 0, ExpStack(ZeroStack(big))), Lim("vstack", big, 0, "stk^0^"),
        Lim("vstack", big, 0, "stk^3^crd|1|2|^crd|3|4|^"), Lim("vstack", big, 0, CutLast(ExpStack(MkVStack(big, 3, 0)))),
        Lim("tstack", big, 0, "stk^2^crd|1|1|5|^crd|1|0|^"), Lim("tstack", big, 0, "stk^2^crd|1|1|5|^crd|33|1|5|^"),
        Lim("vstack", big, 0, "sts^1^crd|1|2|^"), Lim("vstack", big, 0, "stk^1^crs|1|^")}
  \* stack secrets: size 0 and limit + 1, index = size, index repeated, end missing
  \cup {Lim("vss", big, 0, ExpStackSecret(MkVSS(big, [i \in 1..(MaxCards + 1) |-> i - 1], 0))),
        Lim("tss", big, 0, ExpStackSecret(MkTSS(big, [i \in 1..(MaxCards + 1) |-> i - 1], 1, 1, 0))),
        Lim("vss", big, 0, "sts^0^"), Lim("tss", big, 0, "sts^0^"),
        Lim("vss", big, 0, CutLast(ExpStackSecret(MkVSS(big, <<1, 0>>, 0)))), Lim("vss", big, 0, "sts^2^0^crs|1|^")}
  \cup {Lim("vss", big, 0, ExpStackSecret(MkVSS(big, pi, 0))) : pi \in {<<1>>, <<0, 2>>, <<2, 1>>, <<0, 0>>, <<1, 1>>, <<0, 1, 1>>, <<3, 1, 2>>, <<2, 2, 2>>}}
  \cup {Lim("tss", big, 0, ExpStackSecret(MkTSS(big, pi, 1, 2, 0))) : pi \in {<<1>>, <<0, 0>>, <<1, 2>>, <<0, 1, 3>>}}
  \* keys: a field missing
  \cup {Lim("pub", big, 0, t) : t \in {"pub|a|b|c|1F|6|nzk", "pub|a|b|c|1F|6", "sec|a|b|c|1F|6|n|s", "pub|a|b|c||6|n|s", "pub|a|b|c|1F||n|s"}}
  \cup {Lim("sec", big, 0, t) : t \in {"sec|a|b|c|1F|6|7|B|nzk", "pub|a|b|c|1F|6|7|B|n|s", "sec|a|b|c|1F|6|7||n|s", "sec|a|b|c|1F|6|7|B"}}
  \* line formats: the last line missing; party count above the limit; t > n; i >= n; t' > n; QUAL too long / member >= n
  \cup {Lim(o.ty, big, ArgOf(o), CutLastLine(ExpLines(o))) :
          o \in {MkPvss(big, 3, 1, 2, 0), MkGjkr(big, 2, 1, 0, <<0, 1>>, 0), MkXvss("rvss", big, 2, 1, 0, 2, <<1>>, 0),
                 MkXvss("zvss", big, 2, 1, 0, 0, <<>>, 0), MkCdkg(big, 2, 1, 0, <<0>>, <<1>>, 0), MkDss(big, 2, 1, 1, <<0>>, <<1>>, 0),
                 [ty |-> "vtmf", big |-> big, p |-> 23, q |-> 11, g |-> 2, k |-> 2],
                 [ty |-> "com", big |-> big, p |-> 23, q |-> 11, k |-> 2, h |-> 3, g |-> <<2, 4>>],
                 [ty |-> "eotp", big |-> big, p |-> 23, q |-> 11, g |-> 2]}}
  \cup {Lim("pvss", big, 0, ExpLines(MkPvss(big, nti[1], nti[2], nti[3], 0))) :
          nti \in {<<MaxDkgPlayers + 1, 1, 0>>, <<3, 4, 0>>, <<3, 1, 3>>, <<3, 1, 4>>, <<0, 0, 0>>}}
  \cup {Lim("gjkr", big, 0, ExpLines(MkGjkr(big, z[1], z[2], z[3], z[4], 0))) :
          z \in {<<2, 3, 0, <<0>>>>, <<2, 1, 2, <<0>>>>, <<2, 1, 0, <<0, 1, 0>>>>, <<2, 1, 0, <<2>>>>, <<2, 1, 0, <<0, 2>>>>}}
  \cup {Lim(ty, big, 0, ExpLines(MkXvss(ty, big, z[1], z[2], z[3], z[4], z[5], 0))) : ty \in {"rvss", "zvss"},
          z \in {<<2, 3, 0, 1, <<0>>>>, <<2, 1, 2, 1, <<0>>>>, <<2, 1, 0, 3, <<0>>>>, <<2, 1, 0, 1, <<0, 1, 1>>>>, <<2, 1, 0, 1, <<2>>>>}}
  \cup {Lim("cdkg", big, 0, ExpLines(MkCdkg(big, z[1], z[2], z[3], z[4], z[5], 0))) :
          z \in {<<2, 3, 0, <<0>>, <<0>>>>, <<2, 1, 2, <<0>>, <<0>>>>, <<2, 1, 0, <<2>>, <<0>>>>, <<2, 1, 0, <<0>>, <<2>>>>, <<2, 1, 0, <<0, 1, 1>>, <<0>>>>}}
  \cup {Lim("dss", big, 0, ExpLines(MkDss(big, z[1], z[2], z[3], z[4], z[5], 0))) :
          z \in {<<2, 3, 0, <<0>>, <<0>>>>, <<2, 1, 2, <<0>>, <<0>>>>, <<2, 1, 0, <<2>>, <<0>>>>, <<2, 1, 0, <<0>>, <<2>>>>}})

---------------------------------------------------------------------------
(* the tree                                                                  *)
Root == [k |-> "root"]
Part(f, ty, big) == [k |-> "part", f |-> f, ty |-> ty, big |-> big]
Case(o, used) == [k |-> "case", o |-> o, used |-> used]
NoUsed == {}

Level1 ==
  (IF "int" \in Fams THEN {Part("int", t, b) : t \in {"int", "ints"}, b \in BOOLEAN} ELSE {}) \cup
  (IF "card" \in Fams THEN {Part("card", t, b) : t \in {"tcard", "tsec", "vcard", "vsec"}, b \in BOOLEAN} ELSE {}) \cup
  (IF "stack" \in Fams THEN {Part("stack", t, b) : t \in {"tstack", "vstack", "tss", "vss"}, b \in BOOLEAN} ELSE {}) \cup
  (IF "key" \in Fams THEN {Part("key", t, b) : t \in {"pub", "sec"}, b \in BOOLEAN} \ {Part("key", "sec", TRUE)} ELSE {}) \cup
  (IF "group" \in Fams THEN {Part("group", t, b) : t \in {"vtmf", "com", "vsshe", "vrhe", "ptc", "eotp"}, b \in BOOLEAN} ELSE {}) \cup
  (IF "state" \in Fams THEN {Part("state", t, b) : t \in {"pvss", "gjkr", "rvss", "zvss", "cdkg", "dss"}, b \in BOOLEAN} ELSE {}) \cup
  (IF "lim" \in Fams THEN {Part("lim", "all", FALSE)} ELSE {})

Dims == (1..MaxPlayers) \X (1..MaxTypeBits)
BigDims == {<<1, 1>>, <<2, 3>>, <<MaxPlayers, MaxTypeBits>>}
CasesOf(s) ==
  LET ty == s.ty  big == s.big IN
  CASE s.f = "int" /\ ty = "int" /\ ~big -> ({Case([ty |-> "int", big |-> big, v |-> v], NoUsed) : v \in (P.IntLo..P.IntHi) \cup BSet})
    [] s.f = "int" /\ ty = "int" /\ big  -> ({Case([ty |-> "int", big |-> big, v |-> BigN[n]], NoUsed) : n \in 1..NG})
    [] s.f = "int" /\ ty = "ints"        -> {Case([ty |-> "ints", big |-> big, v |-> [j \in 1..n |-> Fill(big, j - 1)]], NoUsed) : n \in {2, 3, IF big THEN NG ELSE NB}}
    [] s.f = "card" /\ ty = "tcard" -> {Case(MkTCard(big, kw[1], kw[2], off), UsedDims(kw[1], kw[2])) : kw \in (IF big THEN BigDims ELSE Dims), off \in P.Offs}
    [] s.f = "card" /\ ty = "tsec"  -> {Case(MkTSec(big, kw[1], kw[2], off), UsedDims(kw[1], kw[2])) : kw \in (IF big THEN BigDims ELSE Dims), off \in P.Offs}
    [] s.f = "card" /\ ty = "vcard" -> IF big THEN ({Case(MkVCard(big, n), NoUsed) : n \in 0..(NG - 1)})
                                       ELSE ({Case(VCard(big, c[1], c[2]), NoUsed) : c \in BSet \X BSet})
    [] s.f = "card" /\ ty = "vsec"  -> {Case(MkVSec(big, n), NoUsed) : n \in 0..((IF big THEN NG ELSE NB) - 1)}
    [] s.f = "stack" /\ ty = "tstack" -> {Case(MkTStack(big, n, kw[1], kw[2], n), NoUsed) : n \in (IF big THEN {1, 3, 17} ELSE P.StackSizes), kw \in P.StackDims}
                                         \cup {Case(MkTStack(big, n, MaxPlayers, MaxTypeBits, n), NoUsed) : n \in (IF big THEN {2} ELSE P.WideStack)}
    [] s.f = "stack" /\ ty = "vstack" -> {Case(MkVStack(big, n, n), NoUsed) : n \in (IF big THEN {1, 3, NG} ELSE P.StackSizes)}
    [] s.f = "stack" /\ ty = "tss" -> UNION {{Case(MkTSS(big, pi, kw[1], kw[2], n), NoUsed) : pi \in SomePerms(n), kw \in P.StackDims}
                                             : n \in (IF big THEN {1, 3} ELSE P.StackSizes)}
                                      \cup UNION {{Case(MkTSS(big, pi, MaxPlayers, MaxTypeBits, n), NoUsed) : pi \in {[i \in 1..n |-> n - i]}}
                                             : n \in (IF big THEN {2} ELSE P.WideStack)}
    [] s.f = "stack" /\ ty = "vss" -> UNION {{Case(MkVSS(big, pi, n), NoUsed) : pi \in SomePerms(n)} : n \in (IF big THEN {1, 3, NG} ELSE P.StackSizes)}
    [] s.f = "key" /\ ty = "pub" -> {Case(o, NoUsed) : o \in (IF big THEN BigPubKeys(big) ELSE PubKeys(big))}
    [] s.f = "key" /\ ty = "sec" -> {Case(o, NoUsed) : o \in SecKeys(big)}
    [] s.f = "group" -> {Case(o, NoUsed) : o \in (IF big THEN BigGroupObjs(ty, big) ELSE GroupObjs(ty, big))}
    [] s.f = "state" -> {Case(o, NoUsed) : o \in (IF big THEN BigStateObjs(ty, big) ELSE StateObjs(ty, big))}
    [] s.f = "lim" -> LimCases(big)

Init == st = Root
Next == \/ st = Root /\ st' \in Level1
        \/ st.k = "part" /\ st' \in CasesOf(st)
Spec == Init /\ [][Next]_gvars

---------------------------------------------------------------------------
(* theorems of the specification, checked in every case state                *)
IsCase == st.k = "case"
IsLim == st.k = "lim"
Theorems ==
  /\ IsCase => RoundTrip(st.o)
  \* numerals: canonical, decoded to the value they encode, of minimal length, distinct for distinct values
  /\ (IsCase /\ st.o.ty = "int" /\ ~st.o.big) =>
        LET v == st.o.v  e == Enc62(v) IN
          /\ IsCanonical62(e) /\ Small62(e) /\ Dec62(e) = v
          /\ (v >= 0 /\ v < 2147483647) => (Enc62(v + 1) # e /\ Len(Enc62(v + 1)) \in {Len(e), Len(e) + 1})
          /\ (v > 0) => (Enc62(-v) = "-" \o e)
          /\ (v >= 62) => (e = Enc62(v \div 62) \o DigitChar(v % 62))
          /\ (v >= 1) => (62 ^ (Len(e) - 1) <= v /\ (Len(e) <= 5 => v < 62 ^ Len(e)))               \* minimal length
  /\ (IsCase /\ st.o.ty = "int" /\ st.o.big) => IsCanonical62(st.o.v)
  \* a malformed text that the parser accepts must be a fixed point after one normalisation
  /\ IsLim => LET r == Import(st.ty, st.big, st.arg, st.txt) IN r.ok => RoundTrip(r.o)

Line ==
  IF IsCase THEN [c |-> "case", ty |-> st.o.ty, big |-> st.o.big, arg |-> ArgOf(st.o), o |-> st.o, txt |-> Export(st.o), used |-> st.used]
  ELSE LET r == Import(st.ty, st.big, st.arg, st.txt) IN
       [c |-> "lim", ty |-> st.ty, big |-> st.big, arg |-> st.arg, txt |-> st.txt, ok |-> r.ok,
        re |-> IF r.ok THEN Export(r.o) ELSE ""]
Emit == (IsCase \/ IsLim) => PrintT(ToJson(Line))
=============================================================================
