#!/usr/bin/env python3
"""writes the MC_Coin_*.cfg / GEN_Coin_*.cfg files (two-party coin flip)"""
import os
HERE = os.path.dirname(os.path.abspath(__file__))
ALL = "C17_Order C17_Agreement C17_Complete C17_Sum C17_Reject C17_NoOutput"
G11 = (11, 5, 4, 3)
G23 = (23, 11, 2, 3)
G47 = (47, 23, 2, 3)
def mk(name, grp, hon, budget, aset, rset, early, invs, gen=False):
    with open(os.path.join(HERE, name + ".cfg"), "w") as f:
        f.write("SPECIFICATION MCSpec\nCONSTANTS\n P = %d\n Q = %d\n Gg = %d\n Hh = %d\n" % grp)
        f.write(" Hon <- %s\n Budget = %d\n ASet <- %s\n RSet <- %s\n Early = %s\n Gen = %s\n" % (
            hon, budget, aset, rset, "TRUE" if early else "FALSE", "TRUE" if gen else "FALSE"))
        f.write("INVARIANTS %s\nCHECK_DEADLOCK FALSE\n" % invs)
# quick
mk("MC_Coin_q_adv", G11, "H0", 3, "A2", "R1", False, ALL)
mk("MC_Coin_q_hh", G11, "H01", 0, "AllR", "AllR", False, ALL)
mk("MC_Coin_early", G11, "H0", 1, "AllR", "R1", True, "C17_Order")          # must be violated
mk("MC_Coin_vac1", G11, "H0", 3, "A1", "R1", False, "NeverDone")            # must be violated
mk("MC_Coin_vac2", G11, "H0", 3, "A1", "R1", False, "NeverRejectsOpening")  # must be violated
# thorough
mk("MC_Coin_hh", G23, "H01", 0, "AllR", "AllR", False, ALL)
mk("MC_Coin_adv0", G23, "H0", 3, "AllR", "R1", False, ALL)
mk("MC_Coin_adv1", G23, "H1", 3, "AllR", "R1", False, ALL)
mk("MC_Coin_adv11", G11, "H0", 3, "AllR", "AllR", False, ALL)
mk("MC_Coin_adv11b", G11, "H1", 4, "AllR", "R1", False, ALL)
mk("MC_Coin_adv47", G47, "H0", 3, "A1", "R1", False, ALL)
# generator: every maximal schedule of two honest parties
mk("GEN_Coin_hh", G23, "H01", 0, "A1", "R1", False, "GenPrint", gen=True)

# ---- n-party (MC_CoinN.tla)
def mkn(name, grp, n, t, strict, mode, honp, devp, invs):
    with open(os.path.join(HERE, name + ".cfg"), "w") as f:
        f.write("SPECIFICATION Spec\nCONSTANTS\n P = %d\n Q = %d\n Gg = %d\n Hh = %d\n" % grp)
        f.write(" N = %d\n T = %d\n Strict = %s\n Mode = \"%s\"\n HonP <- %s\n DevP <- %s\n" % (n, t, "TRUE" if strict else "FALSE", mode, honp, devp))
        f.write("INVARIANTS %s\nCHECK_DEADLOCK FALSE\n" % invs)
mkn("MC_CoinN_q3", G11, 3, 1, True, "byz", "PolysConst", "PolysOne", "Holds Interp")
mkn("MC_CoinN_q3t", G11, 3, 1, True, "tamper", "PolysAll", "PolysConst", "Holds Interp")
mkn("MC_CoinN_norule", G11, 3, 1, False, "byz", "PolysOne", "PolysOne", "Holds")      # must be violated
mkn("MC_CoinN_vac1", G11, 3, 1, True, "byz", "PolysOne", "PolysOne", "NeverRecon")    # must be violated
mkn("MC_CoinN_vac2", G11, 3, 1, True, "byz", "PolysOne", "PolysOne", "NeverDisq")     # must be violated
mkn("MC_CoinN_3", G11, 3, 1, True, "byz", "PolysAll", "PolysConst", "Holds Interp")
mkn("MC_CoinN_4", G11, 4, 1, True, "byz", "PolysConst", "PolysConst", "Holds Interp")
mkn("MC_CoinN_4t", G11, 4, 1, True, "tamper", "PolysAll", "PolysConst", "Holds Interp")
mkn("MC_CoinN_5t2", G23, 5, 2, True, "tamper", "PolysConst", "PolysConst", "Holds Interp")
