SPECIFICATION Spec
CONSTANTS
 Tier = "quick"
 Seed = 1
INVARIANTS Theorems Emit
CHECK_DEADLOCK FALSE
