SPECIFICATION Spec
CONSTANTS
 Modes = {"aead"}
 Depth <- Depths3
 NonceRule = "cumulative"
 MaxChunks = 4
 Full = 2
INVARIANTS TamperEvident
CHECK_DEADLOCK FALSE
