#!/usr/bin/env python3
"""writes the MC_Aio_*.cfg files (scaled constants: MACLEN=2, BLK=2, lines of 1..3 octets)"""
import os
HERE = os.path.dirname(os.path.abspath(__file__))
T = """SPECIFICATION MCSpec
CONSTANTS
 CN = {n}
 CAuth = {auth}
 CEnc = {enc}
 CChunked = {chunked}
 CVariant = "select"
 CMACLEN = 2
 CBLK = 2
 CBUFSZ = {bufsz}
 Delim = 63
 NoVal <- NoValMC
 Rcv = 1
 Prog <- {prog}
 MaxFault = {maxfault}
 Kinds <- {kinds}
 Scheds = {{{scheds}}}
 ArrSize = {arrsize}
 TagNL <- {tagnl}
 IvNL = {{{ivnl}}}
INVARIANTS InOrderI CompleteAlways AuthSafeI NothingForged FramesFit {invs}
PROPERTIES StoppedStays
CHECK_DEADLOCK FALSE
"""
def mk(name, auth, enc, chunked, prog, maxfault=0, kinds="AllKinds", scheds="1,3", arrsize=0, tagnl="NoTagNL",
       ivnl="", n=2, invs="", bufsz=12):
    b = lambda x: "TRUE" if x else "FALSE"
    with open(os.path.join(HERE, "MC_Aio_%s.cfg" % name), "w") as f:
        f.write(T.format(n=n, auth=b(auth), enc=b(enc), chunked=b(chunked), prog=prog, maxfault=maxfault, kinds=kinds,
                         scheds=scheds, arrsize=arrsize, tagnl=tagnl, ivnl=ivnl, invs=invs, bufsz=bufsz))
# quick set
mk("plain",   0, 0, 0, "Prog1_3")
mk("auth",    1, 0, 0, "Prog1_3eq", 1, "AllKinds", "3", tagnl="TagNLa")
mk("authb",   1, 0, 0, "Prog1_3", 1, "ByteKinds", "1", tagnl="TagNLb")
mk("enc",     0, 1, 0, "Prog1_3", ivnl="1")
mk("authenc", 1, 1, 0, "Prog1_3", 1, "AllKinds", "3", tagnl="TagNLa", ivnl="0")
mk("chk",     1, 1, 1, "Prog1_2", 1, "AllKinds", "3", tagnl="TagNLa")
mk("two",     1, 0, 0, "Prog2_21", 0, "AllKinds", "1,2,3", tagnl="TagNLa")
mk("two22",   1, 0, 0, "Prog2_2", 0, "AllKinds", "1,2,3", tagnl="TagNLa")
mk("authenc2", 1, 1, 0, "Prog1_2", 1, "AllKinds", "3", tagnl="TagNLa", ivnl="0")
mk("arr",     1, 0, 0, "ProgArr", arrsize=2, invs="ArraysWholeI")
mk("arrchk",  0, 1, 1, "ProgArr", arrsize=2, invs="ArraysWholeI")
mk("arr2",    0, 0, 1, "ProgArr2", scheds="1,2", arrsize=2, invs="ArraysWholeI")
mk("arrmix",  0, 0, 1, "ProgMix", scheds="3", arrsize=2)
# thorough set: two rewrites, small buffer, three parties
mk("auth2f",  1, 0, 0, "Prog1_2", 2, "AllKinds", "3", tagnl="TagNLa")
mk("authenc2f", 1, 1, 0, "Prog1_2", 2, "ByteKinds", "3", tagnl="TagNLb", ivnl="1")
mk("smallbuf", 1, 1, 0, "Prog1_3", 0, "AllKinds", "1,3", tagnl="TagNLa", bufsz=6)
mk("three",   1, 1, 0, "Prog3_1", 0, "AllKinds", "1,2,3", n=3)
mk("auth2f3", 1, 0, 0, "Prog1_3", 2, "ByteKinds", "3", tagnl="TagNLa")
mk("authenc3k", 1, 1, 0, "Prog1_3eq", 1, "AllKinds", "1,3", tagnl="TagNLb", ivnl="1")
