------------------------------ MODULE Rotation ------------------------------
(***************************************************************************)
(* Verifiable rotation of homomorphic (ElGamal) encryptions: the general    *)
(* protocol of de Hoogh, Schoenmakers, Skoric, Villegas (PKC 2009, sect. 5: *)
(* "general rotation", built from EXP-ZK and PUB-ROT-ZK), written from the  *)
(* paper and properties C03/C04/C05 - not from the C++.  Implemented by     *)
(* HooghSchoenmakersSkoricVillegasPUBROTZK / ...VRHE.                       *)
(*                                                                          *)
(* Group G = [p, q, g, h]: g, h of prime order q in the units mod p.        *)
(* Indices of the paper are 0 .. n-1; here vectors are 1-based sequences,   *)
(* index k is position k+1.  Ix(n, k, r) is the position of index           *)
(* (k-1) - r (mod n), so "alpha_{k-r}" is al[Ix(n, k, r)].                  *)
(*                                                                          *)
(* PUB-ROT-ZK  statement  alpha_0..alpha_{n-1} (public), c_0..c_{n-1}       *)
(*             witness    r, s_k  with  c_k = g^alpha_{k-r} h^s_k           *)
(*   V -> P    beta_0..beta_{n-1}                                           *)
(*   P -> V    f_j:  f_r = h^u;  j # r:  f_j = g^(lam_j gamma_j) h^(t_j)    *)
(*             GG^(-lam_j)   with GG = prod_k c_k^beta_k,                   *)
(*             gamma_j = sum_i alpha_{i-j} beta_i       (an OR proof over   *)
(*             the n rotation offsets: "GG / g^gamma_j is a power of h")    *)
(*   V -> P    lambda                                                       *)
(*   P -> V    lam_j, t_j with lam_r = lambda - sum_{j#r} lam_j,            *)
(*             t_r = u + lam_r sum_j s_j beta_j                             *)
(*   V accepts iff lambda = sum_j lam_j and for all k                       *)
(*             h^t_k = f_k (GG / g^gamma_k)^lam_k                           *)
(*                                                                          *)
(* Rotation    statement  X_k = (a_k, b_k), Y_k = (d_k, e_k)                *)
(*             witness    r, s_k  with  Y_k = X_{k-r} (g^s_k, h^s_k)        *)
(*   V -> P    alpha_0..alpha_{n-1}                                         *)
(*   P -> V    h_k = g^alpha_{k-r} h^u_k,  A_k = Y_k^alpha_{k-r} (g,h)^t_k, *)
(*             v = sum_k (alpha_{k-r} s_k + t_k);                           *)
(*             EXP-ZK first move f_k = g^o_k h^p_k, F_k = Y_k^o_k (g,h)^m_k *)
(*   V -> P    lambda                                                       *)
(*   P -> V    tau_k = o_k + lambda alpha_{k-r}, rho_k = p_k + lambda u_k,  *)
(*             mu_k = m_k + lambda t_k                                      *)
(*   both      PUB-ROT-ZK for (alpha, h_k) with witness (r, u_k)            *)
(*   V accepts iff  g^tau_k h^rho_k = f_k h_k^lambda,                       *)
(*             Y_k^tau_k (g,h)^mu_k = F_k A_k^lambda,  PUB-ROT-ZK accepts,  *)
(*             prod_j A_j X_j^(-alpha_j) = (g^v, h^v)                       *)
(*                                                                          *)
(* What the implementation adds to / changes in the paper (each modelled    *)
(* under the name given; the verifier predicate below is exact for it):     *)
(*   GuardElem    every transmitted group element x: 0 < x < p, x^q = 1     *)
(*   GuardAbs     every transmitted exponent x: |x| < q  (negative          *)
(*                representatives pass; the catalogue of C05 used here      *)
(*                does not produce them, exponents are naturals below)      *)
(*   NoStmtCheck  the statement (X_k, Y_k, and alpha, c_k of a stand-alone  *)
(*                PUB-ROT-ZK) is NOT checked for membership or range: it is *)
(*                used modulo p / modulo q as it is                         *)
(*   GuardInv     X_j^alpha_j resp. g^gamma_k must be invertible mod p      *)
(*   FkNotAk      the last equation of PUB-ROT-ZK uses f_k where the paper  *)
(*                prints a_k (a misprint of the paper, noted in the code)   *)
(*   ProverInvZero a non-invertible GG^lam_j makes the prover send f_j = 0  *)
(* All numbers stay below 2^31 for p <= 46337.                              *)
(***************************************************************************)
EXTENDS Prims, TLC

\* ---------------------------------------------------------------- the group
Member(G, a) == a > 0 /\ a < G.p /\ PowM(a, G.q, G.p) = 1                \* GuardElem
\* primality by trial division, exact for n <= 46337
SmallPrime(n) == n > 1 /\ n <= 46337 /\ \A d \in 2..215 : (d < n /\ d * d <= n) => (n % d # 0)
IsGroup(G) == /\ SmallPrime(G.p) /\ SmallPrime(G.q) /\ (G.p - 1) % G.q = 0
              /\ G.g # 1 /\ Member(G, G.g) /\ G.h # 1 /\ Member(G, G.h)
Zq(G) == 0..(G.q - 1)
Elems(G) == {a \in 1..(G.p - 1) : PowM(a, G.q, G.p) = 1}
ExpOK(G, x) == x < G.q /\ (0 - x) < G.q                                    \* GuardAbs
Mul(G, a, b) == ((a % G.p) * (b % G.p)) % G.p
Pw(G, b, e) == PowM(b % G.p, e, G.p)                                       \* any base, natural exponent
Inv(G, a) == InvM(a % G.p, G.p)                                            \* 0 for a non-invertible a
Unit(G, a) == GCD(a % G.p, G.p) = 1
GE(G, e) == PowM(G.g, e % G.q, G.p)
HE(G, e) == PowM(G.h, e % G.q, G.p)
Com(G, m, r) == Mul(G, GE(G, m), HE(G, r))                                 \* Pedersen commitment g^m h^r
MulQ(G, a, b) == ((a % G.q) * (b % G.q)) % G.q
AddQ(G, a, b) == ((a % G.q) + (b % G.q)) % G.q
Ix(n, k, r) == ((k - 1 + n - (r % n)) % n) + 1

RECURSIVE SumTo(_, _, _)
SumTo(f, k, m) == IF k = 0 THEN 0 ELSE (SumTo(f, k - 1, m) + (f[k] % m)) % m
RECURSIVE ProdTo(_, _, _)
ProdTo(f, k, m) == IF k = 0 THEN 1 % m ELSE (ProdTo(f, k - 1, m) * (f[k] % m)) % m
Flat2(A) == [k \in 1..(2 * Len(A)) |-> A[(k + 1) \div 2][2 - (k % 2)]]       \* a_0, b_0, a_1, b_1, ...
Pairs(L) == [k \in 1..(Len(L) \div 2) |-> <<L[2 * k - 1], L[2 * k]>>]
Sub(L, a, k) == SubSeq(L, a, a + k - 1)                                    \* k lines from position a

\* =========================================================== PUB-ROT-ZK
PubRel(G, al, c, r, s) == \A k \in 1..Len(al) : c[k] % G.p = Com(G, al[Ix(Len(al), k, r)], s[k])
Gam(G, al, be, j) == LET n == Len(al) IN SumTo([i \in 1..n |-> MulQ(G, al[Ix(n, i, j - 1)], be[i])], n, G.q)
BigG(G, c, be) == ProdTo([j \in 1..Len(c) |-> Pw(G, c[j], be[j])], Len(c), G.p)
\* prover coins co = [u, lam, t] (lam[r+1], t[r+1] are not coins: they are the responses of the true branch)
PubF(G, al, c, r, co, be) ==
  LET n == Len(al)  gg == BigG(G, c, be) IN
  [j \in 1..n |-> IF j = r + 1 THEN HE(G, co.u)
                  ELSE Mul(G, Mul(G, GE(G, MulQ(G, co.lam[j], Gam(G, al, be, j))), HE(G, co.t[j])),
                           Inv(G, Pw(G, gg, co.lam[j])))]                   \* ProverInvZero: Inv = 0
PubResp(G, r, s, co, be, lambda) ==
  LET n == Len(s)
      others == SumTo([j \in 1..n |-> IF j = r + 1 THEN 0 ELSE co.lam[j]], n, G.q)
      lamr == ((lambda % G.q) + G.q - others) % G.q
      sb == SumTo([j \in 1..n |-> MulQ(G, s[j], be[j])], n, G.q)
      tr == AddQ(G, co.u, MulQ(G, lamr, sb))
  IN [lam |-> [j \in 1..n |-> IF j = r + 1 THEN lamr ELSE co.lam[j] % G.q],
      t |-> [j \in 1..n |-> IF j = r + 1 THEN tr ELSE co.t[j] % G.q]]
\* the verifier, in the order in which it decides
PubGuardF(G, f) == \A j \in 1..Len(f) : Member(G, f[j])
PubGuardR(G, lam, t) == (\A j \in 1..Len(lam) : ExpOK(G, lam[j])) /\ (\A j \in 1..Len(t) : ExpOK(G, t[j]))
PubEqK(G, al, c, be, f, lam, t, k) ==
  LET gk == GE(G, Gam(G, al, be, k)) IN
  /\ Unit(G, gk)                                                                   \* GuardInv
  /\ Pw(G, G.h, t[k]) = Mul(G, f[k], Pw(G, Mul(G, BigG(G, c, be), Inv(G, gk)), lam[k]))   \* FkNotAk
PubEq(G, al, c, be, lambda, f, lam, t) ==
  /\ SumTo(lam, Len(lam), G.q) = lambda
  /\ \A k \in 1..Len(al) : PubEqK(G, al, c, be, f, lam, t, k)
PubAccept(G, al, c, be, lambda, f, lam, t) ==
  PubGuardF(G, f) /\ PubGuardR(G, lam, t) /\ PubEq(G, al, c, be, lambda, f, lam, t)
\* the honest algorithm as one operator: (statement, witness, coins, challenges) -> transcript
PubProve(G, al, c, r, s, co, be, lambda) ==
  LET rs == PubResp(G, r, s, co, be, lambda) IN [f |-> PubF(G, al, c, r, co, be), lam |-> rs.lam, t |-> rs.t]
\* binding of the prover's draws: u, then (lam_j, t_j) for j = 0..n-1, j # r
PubCoins(n, r, d) ==
  LET rank(j) == IF j < r + 1 THEN j ELSE j - 1 IN
  [u |-> d[1], lam |-> [j \in 1..n |-> IF j = r + 1 THEN 0 ELSE d[2 * rank(j)]],
               t |-> [j \in 1..n |-> IF j = r + 1 THEN 0 ELSE d[2 * rank(j) + 1]]]
NPubCoins(n) == 2 * n - 1

\* =========================================================== rotation (VRHE)
CtMul(G, a, b) == <<Mul(G, a[1], b[1]), Mul(G, a[2], b[2])>>
CtPow(G, a, e) == <<Pw(G, a[1], e), Pw(G, a[2], e)>>
Enc0(G, s) == <<GE(G, s), HE(G, s)>>                                     \* encryption of 1 with randomness s
RotRel(G, X, Y, r, s) ==
  \A k \in 1..Len(X) : <<Y[k][1] % G.p, Y[k][2] % G.p>> = CtMul(G, X[Ix(Len(X), k, r)], Enc0(G, s[k]))
\* prover coins co = [u, t, o, pp, m] (sequences of length n) and the coins of PUB-ROT-ZK
RotB(al, r) == [k \in 1..Len(al) |-> al[Ix(Len(al), k, r)]]              \* the rotated challenge list
RotMove1(G, Y, r, s, co, al) ==
  LET n == Len(Y)  b == RotB(al, r) IN
  [h |-> [k \in 1..n |-> Com(G, b[k], co.u[k])],
   A |-> [k \in 1..n |-> CtMul(G, CtPow(G, Y[k], b[k] % G.q), Enc0(G, co.t[k]))],
   v |-> SumTo([k \in 1..n |-> AddQ(G, MulQ(G, b[k], s[k]), co.t[k])], n, G.q),
   f |-> [k \in 1..n |-> Com(G, co.o[k], co.pp[k])],
   F |-> [k \in 1..n |-> CtMul(G, CtPow(G, Y[k], co.o[k] % G.q), Enc0(G, co.m[k]))]]
RotResp(G, r, co, al, lambda) ==
  LET n == Len(al)  b == RotB(al, r) IN
  [tau |-> [k \in 1..n |-> AddQ(G, co.o[k], MulQ(G, lambda, b[k]))],
   rho |-> [k \in 1..n |-> AddQ(G, co.pp[k], MulQ(G, lambda, co.u[k]))],
   mu |-> [k \in 1..n |-> AddQ(G, co.m[k], MulQ(G, lambda, co.t[k]))]]
RotGuard1(G, m1) ==
  /\ \A k \in 1..Len(m1.h) : Member(G, m1.h[k])
  /\ \A k \in 1..Len(m1.A) : Member(G, m1.A[k][1]) /\ Member(G, m1.A[k][2])
  /\ ExpOK(G, m1.v)
  /\ \A k \in 1..Len(m1.f) : Member(G, m1.f[k])
  /\ \A k \in 1..Len(m1.F) : Member(G, m1.F[k][1]) /\ Member(G, m1.F[k][2])
RotGuard2(G, m2) == \A k \in 1..Len(m2.tau) : ExpOK(G, m2.tau[k]) /\ ExpOK(G, m2.rho[k]) /\ ExpOK(G, m2.mu[k])
RotExp(G, Y, lambda, m1, m2) ==
  /\ \A k \in 1..Len(Y) : Mul(G, Pw(G, G.g, m2.tau[k]), Pw(G, G.h, m2.rho[k])) = Mul(G, m1.f[k], Pw(G, m1.h[k], lambda))
  /\ \A k \in 1..Len(Y) : CtMul(G, CtPow(G, Y[k], m2.tau[k]), <<Pw(G, G.g, m2.mu[k]), Pw(G, G.h, m2.mu[k])>>)
                          = CtMul(G, m1.F[k], CtPow(G, m1.A[k], lambda))
RotProd(G, X, al, m1) ==
  LET n == Len(X) IN
  /\ \A j \in 1..n : Unit(G, Pw(G, X[j][1], al[j])) /\ Unit(G, Pw(G, X[j][2], al[j]))          \* GuardInv
  /\ ProdTo([j \in 1..n |-> Mul(G, m1.A[j][1], Inv(G, Pw(G, X[j][1], al[j])))], n, G.p) = Pw(G, G.g, m1.v)
  /\ ProdTo([j \in 1..n |-> Mul(G, m1.A[j][2], Inv(G, Pw(G, X[j][2], al[j])))], n, G.p) = Pw(G, G.h, m1.v)
\* ch = [al, lambda, be, lambda2];  T = [m1, m2, pub]
RotAccept(G, X, Y, ch, T) ==
  /\ RotGuard1(G, T.m1) /\ RotGuard2(G, T.m2) /\ RotExp(G, Y, ch.lambda, T.m1, T.m2)
  /\ PubAccept(G, ch.al, T.m1.h, ch.be, ch.lambda2, T.pub.f, T.pub.lam, T.pub.t)
  /\ RotProd(G, X, ch.al, T.m1)
RotProve(G, Y, r, s, co, ch) ==
  LET m1 == RotMove1(G, Y, r, s, co, ch.al) IN
  [m1 |-> m1, m2 |-> RotResp(G, r, co, ch.al, ch.lambda),
   pub |-> PubProve(G, ch.al, m1.h, r, co.u, co.pub, ch.be, ch.lambda2)]
\* binding of the prover's draws: (u_k, t_k) for k = 0..n-1, then (o_k, p_k, m_k) for k = 0..n-1, then PUB-ROT-ZK's
RotCoins(n, r, d) ==
  [u |-> [k \in 1..n |-> d[2 * k - 1]], t |-> [k \in 1..n |-> d[2 * k]],
   o |-> [k \in 1..n |-> d[2 * n + 3 * k - 2]], pp |-> [k \in 1..n |-> d[2 * n + 3 * k - 1]],
   m |-> [k \in 1..n |-> d[2 * n + 3 * k]],
   pub |-> PubCoins(n, r, [k \in 1..NPubCoins(n) |-> d[5 * n + k]])]
NRotCoins(n) == 5 * n + NPubCoins(n)
\* lines as they travel
Move1Lines(m1) == m1.h \o Flat2(m1.A) \o <<m1.v>> \o m1.f \o Flat2(m1.F)
Move2Lines(m2) == m2.tau \o m2.rho \o m2.mu
PubRespLines(p) == p.lam \o p.t
ParseMove1(n, L) == [h |-> Sub(L, 1, n), A |-> Pairs(Sub(L, n + 1, 2 * n)), v |-> L[3 * n + 1],
                     f |-> Sub(L, 3 * n + 2, n), F |-> Pairs(Sub(L, 4 * n + 2, 2 * n))]
ParseMove2(n, L) == [tau |-> Sub(L, 1, n), rho |-> Sub(L, n + 1, n), mu |-> Sub(L, 2 * n + 1, n)]

\* ================================================= where challenges come from
\* (i)  honest-verifier interactive: the verifier's coin, sent as it is; the prover reduces what it reads mod q
\* (pc) public coin: a two-party coin flip (Pedersen commitment to a share, exchange, opening, sum) per challenge.
\*      A party's messages for the coins (c, ch): commitment, then share and randomness
FlipCommit(G, c, ch) == Com(G, c, ch)
FlipOpenOK(G, C, a, ah) == ExpOK(G, a) /\ ExpOK(G, ah) /\ Com(G, a, ah) = C
FlipValue(G, own, peer) == AddQ(G, own, peer)
\* (ni) non-interactive: the random oracle is asked exactly these tuples (C05); the challenge is the answer mod q.
\*      prev = 0 for the first element of a chain, i = 0 .. n-1
GrpT(G) == <<G.p, G.q, G.g, G.h>>
AlphaTuple(G, X, Y, prev, i) == Flat2(X) \o Flat2(Y) \o GrpT(G) \o <<prev, i>>
LambdaTuple(G, X, Y, m1) == Flat2(X) \o Flat2(Y) \o Flat2(m1.A) \o Flat2(m1.F) \o m1.h \o m1.f \o GrpT(G) \o <<m1.v>>
BetaTuple(G, al, c, prev, i) == al \o c \o GrpT(G) \o <<prev, i>>
Lambda2Tuple(G, al, c, f, be) == al \o c \o f \o be \o GrpT(G)

\* ======================================================= the parties as runs
\* A party is a sequential program over: L the lines it receives, D its draws modulo q (in order), O the oracle's
\* answers to its calls (in order, [in |-> tuple, out |-> answer mod q]).  Run state:
\*   ok     FALSE once the party has stopped (verifier: refusal; prover: it ran out of input and its further
\*          behaviour is not specified)
\*   pos, ci, hi   next line / draw / oracle answer;  sent  lines written;  asked  tuples the oracle must be asked
Modes == {"i", "pc", "ni"}
\*   chal   the challenges obtained so far;  lamv, tauv  the lam_j / tau_k the verifier has read
St0 == [ok |-> TRUE, pos |-> 1, ci |-> 1, hi |-> 1, sent |-> <<>>, asked |-> <<>>, chal |-> <<>>, lamv |-> <<>>, tauv |-> <<>>]
Have(st, L, k) == st.pos + k - 1 <= Len(L)
Dr(D, i) == IF i <= Len(D) THEN D[i] ELSE 0
OrOut(O, i) == IF i <= Len(O) THEN O[i].out ELSE 0
Stop(st) == [st EXCEPT !.ok = FALSE]

\* one coin flip of a party: draw (c, ch), send the commitment, read the peer's (a group element), send c and ch, read
\* the peer's opening (|a|, |ah| < q, g^a h^ah = its commitment); any failure stops the party (the verifier refuses; the
\* prover's flips fail only after the verifier has gone, from where on the prover is not judged).  Returns [st, val]
Flip(G, st, L, D) ==
  LET c == Dr(D, st.ci)  ch == Dr(D, st.ci + 1)
      s1 == [st EXCEPT !.ci = @ + 2, !.sent = @ \o <<FlipCommit(G, c, ch)>>]
  IN IF ~(Have(s1, L, 1) /\ Member(G, L[s1.pos])) THEN [st |-> Stop(s1), val |-> 0]
     ELSE LET s2 == [s1 EXCEPT !.pos = @ + 1, !.sent = @ \o <<c, ch>>]
              C == L[s1.pos] IN
          IF ~(Have(s2, L, 2) /\ FlipOpenOK(G, C, L[s2.pos], L[s2.pos + 1])) THEN [st |-> Stop(s2), val |-> 0]
          ELSE [st |-> [s2 EXCEPT !.pos = @ + 2], val |-> FlipValue(G, c, L[s2.pos])]
\* one challenge; role "V" or "P"; tup the tuple of the non-interactive form
Acq0(mode, role, G, tup, st, L, D, O) ==
  CASE mode = "ni" -> [st |-> [st EXCEPT !.hi = @ + 1, !.asked = Append(@, tup)], val |-> OrOut(O, st.hi) % G.q]
    [] mode = "pc" -> Flip(G, st, L, D)
    [] mode = "i" /\ role = "V" -> [st |-> [st EXCEPT !.ci = @ + 1, !.sent = Append(@, Dr(D, st.ci))], val |-> Dr(D, st.ci)]
    [] mode = "i" /\ role = "P" -> IF Have(st, L, 1) THEN [st |-> [st EXCEPT !.pos = @ + 1], val |-> L[st.pos] % G.q]
                                    ELSE [st |-> Stop(st), val |-> 0]
Acq(mode, role, G, tup, st, L, D, O) ==
  LET a == Acq0(mode, role, G, tup, st, L, D, O) IN [st |-> [a.st EXCEPT !.chal = Append(@, a.val)], val |-> a.val]
\* a chain of n challenges; kind "alpha" (ctx = [X, Y]) or "beta" (ctx = [al, c]).  Returns [st, vals]
ChainTuple(G, kind, ctx, prev, i) == IF kind = "alpha" THEN AlphaTuple(G, ctx.X, ctx.Y, prev, i)
                                     ELSE BetaTuple(G, ctx.al, ctx.c, prev, i)
RECURSIVE AcqN(_, _, _, _, _, _, _, _, _, _)
AcqN(mode, role, G, kind, ctx, k, st, L, D, O) ==
  IF k = 0 THEN [st |-> st, vals |-> <<>>]
  ELSE LET pre == AcqN(mode, role, G, kind, ctx, k - 1, st, L, D, O) IN
       IF ~pre.st.ok THEN pre
       ELSE LET prev == IF k = 1 THEN 0 ELSE pre.vals[k - 1]
                a == Acq(mode, role, G, ChainTuple(G, kind, ctx, prev, k - 1), pre.st, L, D, O)
            IN [st |-> a.st, vals |-> Append(pre.vals, a.val)]
Take(st, L, k) == Sub(L, st.pos, k)
Adv(st, k) == [st EXCEPT !.pos = @ + k]
Put(st, lines) == [st EXCEPT !.sent = @ \o lines]

\* ---- verifier of PUB-ROT-ZK (stand-alone, or as the tail of the rotation verifier)
VPubRun(mode, G, al, c, st0, L, D, O) ==
  LET n == Len(al)
      b == AcqN(mode, "V", G, "beta", [al |-> al, c |-> c], n, st0, L, D, O)
  IN IF ~b.st.ok THEN b.st
     ELSE IF ~Have(b.st, L, n) THEN Stop(b.st)
     ELSE LET f == Take(b.st, L, n)  s1 == Adv(b.st, n) IN
          IF ~PubGuardF(G, f) THEN Stop(s1)
          ELSE LET l2 == Acq(mode, "V", G, Lambda2Tuple(G, al, c, f, b.vals), s1, L, D, O) IN
               IF ~l2.st.ok THEN l2.st
               ELSE IF ~Have(l2.st, L, 2 * n) THEN Stop(l2.st)
               ELSE LET lam == Take(l2.st, L, n)  t == Sub(L, l2.st.pos + n, n)  s2 == [Adv(l2.st, 2 * n) EXCEPT !.lamv = lam] IN
                    IF PubGuardR(G, lam, t) /\ PubEq(G, al, c, b.vals, l2.val, f, lam, t) THEN s2 ELSE Stop(s2)
VRunPub(mode, G, al, c, L, D, O) == VPubRun(mode, G, al, c, St0, L, D, O)

\* ---- verifier of the rotation argument
VRunRot(mode, G, X, Y, L, D, O) ==
  LET n == Len(X)
      a == AcqN(mode, "V", G, "alpha", [X |-> X, Y |-> Y], n, St0, L, D, O)
  IN IF ~a.st.ok THEN a.st
     ELSE IF ~Have(a.st, L, 6 * n + 1) THEN Stop(a.st)
     ELSE LET m1 == ParseMove1(n, Take(a.st, L, 6 * n + 1))  s1 == Adv(a.st, 6 * n + 1) IN
          IF ~RotGuard1(G, m1) THEN Stop(s1)
          ELSE LET lm == Acq(mode, "V", G, LambdaTuple(G, X, Y, m1), s1, L, D, O) IN
               IF ~lm.st.ok THEN lm.st
               ELSE IF ~Have(lm.st, L, 3 * n) THEN Stop(lm.st)
               ELSE LET m2 == ParseMove2(n, Take(lm.st, L, 3 * n))  s2 == [Adv(lm.st, 3 * n) EXCEPT !.tauv = m2.tau] IN
                    IF ~(RotGuard2(G, m2) /\ RotExp(G, Y, lm.val, m1, m2)) THEN Stop(s2)
                    ELSE LET s3 == VPubRun(mode, G, a.vals, m1.h, s2, L, D, O) IN
                         IF ~s3.ok THEN s3
                         ELSE IF RotProd(G, X, a.vals, m1) THEN s3 ELSE Stop(s3)

\* ---- prover of PUB-ROT-ZK.  coins: the draws of this sub-protocol are taken from D starting at st0.ci in the
\* order of PubCoins; with public coin the flips' draws come in between (they are consumed where they occur)
PPubRun(mode, G, al, c, r, s, st0, L, D, O) ==
  LET n == Len(al)
      b == AcqN(mode, "P", G, "beta", [al |-> al, c |-> c], n, st0, L, D, O)
  IN IF ~b.st.ok THEN b.st
     ELSE LET co == PubCoins(n, r, [k \in 1..NPubCoins(n) |-> Dr(D, b.st.ci + k - 1)])
              f == PubF(G, al, c, r, co, b.vals)
              s1 == Put([b.st EXCEPT !.ci = @ + NPubCoins(n)], f)
              l2 == Acq(mode, "P", G, Lambda2Tuple(G, al, c, f, b.vals), s1, L, D, O)
          IN IF ~l2.st.ok THEN l2.st
             ELSE Put(l2.st, PubRespLines(PubResp(G, r, s, co, b.vals, l2.val)))
PRunPub(mode, G, al, c, r, s, L, D, O) == PPubRun(mode, G, al, c, r, s, St0, L, D, O)

\* ---- prover of the rotation argument
PRunRot(mode, G, X, Y, r, s, L, D, O) ==
  LET n == Len(X)
      a == AcqN(mode, "P", G, "alpha", [X |-> X, Y |-> Y], n, St0, L, D, O)
  IN IF ~a.st.ok THEN a.st
     ELSE LET d == [k \in 1..(5 * n) |-> Dr(D, a.st.ci + k - 1)]
              co == [u |-> [k \in 1..n |-> d[2 * k - 1]], t |-> [k \in 1..n |-> d[2 * k]],
                     o |-> [k \in 1..n |-> d[2 * n + 3 * k - 2]], pp |-> [k \in 1..n |-> d[2 * n + 3 * k - 1]],
                     m |-> [k \in 1..n |-> d[2 * n + 3 * k]]]
              m1 == RotMove1(G, Y, r, s, co, a.vals)
              s1 == Put([a.st EXCEPT !.ci = @ + 5 * n], Move1Lines(m1))
              lm == Acq(mode, "P", G, LambdaTuple(G, X, Y, m1), s1, L, D, O)
          IN IF ~lm.st.ok THEN lm.st
             ELSE LET s2 == Put(lm.st, Move2Lines(RotResp(G, r, co, a.vals, lm.val))) IN
                  PPubRun(mode, G, a.vals, m1.h, r, co.u, s2, L, D, O)

\* ============================================ false statements and mutations
\* C04: edits that turn a true statement (X, Y) into a false one (the prover keeps its witness)
FalseKinds == {"noncyclic", "subst", "dup", "retype", "c1only", "c2only"}
\* swap two neighbouring output ciphertexts k, k+1 (for n >= 3 the result of a rotation followed by a transposition
\* is not a rotation)
EditY(G, X, Y, kind, k, e) ==
  LET n == Len(Y)  k2 == (k % n) + 1 IN
  CASE kind = "noncyclic" -> [Y EXCEPT ![k] = Y[k2], ![k2] = Y[k]]
    [] kind = "subst" -> [Y EXCEPT ![k] = <<GE(G, e), Mul(G, HE(G, e), GE(G, e + 1))>>]     \* a fresh ciphertext
    [] kind = "dup" -> [Y EXCEPT ![k] = Y[k2]]
    [] kind = "retype" -> [Y EXCEPT ![k] = <<Y[k][1], Mul(G, Y[k][2], GE(G, e))>>]          \* plaintext times g^e
    [] kind = "c1only" -> [Y EXCEPT ![k] = <<Mul(G, Y[k][1], GE(G, e)), Y[k][2]>>]
    [] kind = "c2only" -> [Y EXCEPT ![k] = <<Y[k][1], Mul(G, Y[k][2], HE(G, e))>>]
\* is (X, Y) a rotation at all (is there any witness)?  small groups only
IsRotation(G, X, Y) == \E r \in 0..(Len(X) - 1) : \A k \in 1..Len(X) : \E sk \in Zq(G) :
     <<Y[k][1] % G.p, Y[k][2] % G.p>> = CtMul(G, X[Ix(Len(X), k, r)], Enc0(G, sk))
IsPubRotation(G, al, c) == \E r \in 0..(Len(al) - 1) : \A k \in 1..Len(al) : \E sk \in Zq(G) : c[k] % G.p = Com(G, al[Ix(Len(al), k, r)], sk)
\* the defect of a claimed witness: D_k = Y_k / (X_{k-r} (g,h)^s_k)
Defect(G, X, Y, r, s) ==
  [k \in 1..Len(X) |-> LET w == CtMul(G, X[Ix(Len(X), k, r)], Enc0(G, s[k])) IN <<Mul(G, Y[k][1], Inv(G, w[1])), Mul(G, Y[k][2], Inv(G, w[2]))>>]
\* the honest algorithm with a non-fitting witness is accepted exactly for the alpha with prod_k D_k^alpha_{k-r} = (1,1)
\* (EXP-ZK and PUB-ROT-ZK speak about the prover's own h_k, A_k and hold by completeness)
DefectVanishes(G, X, Y, r, s, al) ==
  LET n == Len(X)  Dk == Defect(G, X, Y, r, s)  b == RotB(al, r) IN
  /\ ProdTo([k \in 1..n |-> Pw(G, Dk[k][1], b[k])], n, G.p) = 1
  /\ ProdTo([k \in 1..n |-> Pw(G, Dk[k][2], b[k])], n, G.p) = 1
\* PUB-ROT-ZK: defect E_k = c_k / (g^alpha_{k-r} h^s_k); accepted exactly when lam_r = 0 or prod E_k^beta_k = 1
PubDefect(G, al, c, r, s) == [k \in 1..Len(al) |-> Mul(G, c[k], Inv(G, Com(G, al[Ix(Len(al), k, r)], s[k])))]
PubDefectVanishes(G, al, c, r, s, be) ==
  ProdTo([k \in 1..Len(al) |-> Pw(G, PubDefect(G, al, c, r, s)[k], be[k])], Len(al), G.p) = 1

\* C05: the mutation catalogue for one number.  BIG stands for "far above p" (v + p 2^70 in the real run)
BIG == 1073741824
MutNames == {"plus1", "plusq", "zero", "one", "pm1", "p", "nonmember", "oversized", "swap"}
MutVal(G, v, m) ==
  CASE m = "plus1" -> v + 1
    [] m = "plusq" -> v + G.q
    [] m = "zero" -> 0
    [] m = "one" -> 1
    [] m = "pm1" -> G.p - 1
    [] m = "p" -> G.p
    [] m = "nonmember" -> (G.p - (v % G.p)) % G.p            \* -v: order 2 ord(v) for a member v # 1
    [] m = "oversized" -> BIG
    [] m = "plusmp" -> v + 1000 * G.p                        \* another representative modulo p, below 2^30
    [] m = "plusmq" -> v + 1000 * G.q
    [] m = "timesg" -> Mul(G, v, G.g)
MutLine(G, L, k, m) == IF m = "swap" THEN [L EXCEPT ![k] = L[k + 1], ![k + 1] = L[k]] ELSE [L EXCEPT ![k] = MutVal(G, L[k], m)]
=============================================================================
