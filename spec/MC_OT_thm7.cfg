SPECIFICATION ThmSpec
CONSTANTS
 P = 7
 Q = 3
 Gg = 2
 Vars = {"two"}
 Ns = {2}
 MsgVecs = {}
 CCoins = {}
 SCoins = {}
 Tamper = FALSE
 PowM <- TabPowM
INVARIANTS SlotTheorem
CHECK_DEADLOCK FALSE
