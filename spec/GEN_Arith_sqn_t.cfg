SPECIFICATION Spec
CONSTANTS
 Fam = "sqn"
 P <- PThorough
INVARIANTS Theorems Emit
CHECK_DEADLOCK FALSE
