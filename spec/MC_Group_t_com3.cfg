SPECIFICATION Spec
CONSTANTS
 MaxP = 23
 MaxQ = 11
 MaxK = 3
 Margin = 4
 Variants <- A_com3
 NaiveMaxP = 0
 NaiveVariants <- None
 AccMaxP = 11
 NbrMaxP = 23
 NbrVariants <- A_com3
 Mode = "nbr"
 CheckArith = FALSE
 SortedBases = TRUE
INVARIANTS BlockIsDefinition BlockSound Sound Complete Shape Elements Emit
CHECK_DEADLOCK FALSE
