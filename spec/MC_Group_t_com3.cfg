SPECIFICATION Spec
CONSTANTS
 MaxP = 47
 MaxQ = 23
 MaxK = 7
 Margin = 4
 Variants <- A_com3
 NaiveMaxP = 0
 NaiveVariants <- None
 NbrMaxP = 23
 NbrVariants <- A_com3
 Mode = "nbr"
 CheckArith = FALSE
 SortedBases = TRUE
INVARIANTS BlockIsDefinition BlockSound Sound Complete Shape Elements Emit
CHECK_DEADLOCK FALSE
