SPECIFICATION TSpec
CONSTANTS
 MaxPlayers = 32
 MaxTypeBits = 10
 MaxCards = 512
 MaxDkgPlayers = 256
POSTCONDITION Accepted
CHECK_DEADLOCK FALSE
