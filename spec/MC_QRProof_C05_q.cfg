SPECIFICATION Spec
CONSTANTS
 Insts <- Insts_C05_q
 MaskOneAsCoded = TRUE
INVARIANT Thm
CHECK_DEADLOCK FALSE
