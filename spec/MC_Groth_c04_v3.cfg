SPECIFICATION Spec
CONSTANTS
 P = 23
 Q = 11
 N = 3
 LE = 1
 Kind = "c04_v"
 CoinSet = {7}
 RSet = {0}
 PowM <- TabPowM
INVARIANT Theorem
CHECK_DEADLOCK FALSE
