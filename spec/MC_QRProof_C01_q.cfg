SPECIFICATION Spec
CONSTANTS
 Insts <- Insts_C01_q
 MaskOneAsCoded = TRUE
INVARIANT Thm
CHECK_DEADLOCK FALSE
