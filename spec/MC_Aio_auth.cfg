SPECIFICATION MCSpec
CONSTANTS
 N = 2
 Auth = TRUE
 Enc = FALSE
 Chunked = FALSE
 Variant = "select"
 MACLEN = 2
 BLK = 2
 BUFSZ = 12
 Delim = 63
 NoVal <- NoValMC
 Rcv = 1
 Prog <- Prog1_3eq
 MaxFault = 1
 Kinds <- AllKinds
 Scheds = {3}
 ArrSize = 0
 TagNL <- TagNLa
 IvNL = {}
INVARIANTS InOrderI CompleteAlways AuthSafeI NothingForged FramesFit 
PROPERTIES StoppedStays
CHECK_DEADLOCK FALSE
