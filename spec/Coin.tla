------------------------------- MODULE Coin -------------------------------
(***************************************************************************)
(* The two-party distributed coin flip of Jarecki and Lysyanskaya [JL00]   *)
(* (JareckiLysyanskayaEDCF::Flip_twoparty) as a protocol between two        *)
(* parties that are connected by one FIFO byte channel per direction.       *)
(* Written from the protocol description: each party commits to a random    *)
(* share a with a Pedersen commitment C = g^a h^r, sends C, waits for the   *)
(* other party's commitment, only then opens (a, r), checks the other       *)
(* party's opening against the commitment it has stored and outputs the sum *)
(* of the two shares modulo q.  One action per protocol move with a program *)
(* counter per party, so that message order is a behaviour, not an          *)
(* assumption.  A party that is not in `honest' is the adversary: it may    *)
(* put any message on the channel at any time, or close the channel.        *)
(* MC_Coin.tla checks the theorems exhaustively in a small group,           *)
(* CoinTrace.tla validates logs of the real code against these actions.     *)
(***************************************************************************)
EXTENDS Pedersen

Party == {0, 1}
Peer(i) == 1 - i
Final == {"done", "rej", "abort"}

VARIABLES G,        \* the group
          honest,   \* the parties that follow the protocol
          pc,       \* pc[i] \in start sentC gotC sentA sentO gotA done rej abort (and "ret" in the trace spec)
          sh,       \* sh[i] = [a, r]: the share and the commitment randomness of i
          peerC,    \* the commitment i has stored (0: none)
          peerO,    \* the opening messages i has read so far
          out,      \* the coin i outputs
          chan,     \* chan[i]: messages on their way to i
          closed,   \* closed[i]: nothing more will arrive for i
          opened,   \* ghost: parties whose share is on the wire
          nread,    \* ghost: number of messages i has read
          advLeft   \* messages the adversary may still send (bounds the model)
vars == <<G, honest, pc, sh, peerC, peerO, out, chan, closed, opened, nread, advLeft>>

InitWith(grp, hon, budget) ==
  /\ G = grp /\ honest = hon
  /\ pc = [i \in Party |-> "start"]
  /\ sh = [i \in Party |-> [a |-> 0, r |-> 0]]
  /\ peerC = [i \in Party |-> 0]
  /\ peerO = [i \in Party |-> <<>>]
  /\ out = [i \in Party |-> -1]
  /\ chan = [i \in Party |-> <<>>]
  /\ closed = [i \in Party |-> FALSE]
  /\ opened = {}
  /\ nread = [i \in Party |-> 0]
  /\ advLeft = budget

\* nothing more will come: the adversary closed the channel, or the honest peer has left the protocol
NoMore(i) == closed[i] \/ (Peer(i) \in honest /\ pc[Peer(i)] \in Final \cup {"ret"})
CanRead(i) == chan[i] # <<>> \/ NoMore(i)
AtEof(i) == chan[i] = <<>>
Unreadable(i) == AtEof(i) \/ ~IsNum(Head(chan[i]))        \* the read yields no number: the party gives up
Consume(i) == /\ chan' = [chan EXCEPT ![i] = IF AtEof(i) THEN <<>> ELSE Tail(@)]
              /\ nread' = [nread EXCEPT ![i] = IF AtEof(i) THEN @ ELSE @ + 1]
Send(i, ms) == chan' = [chan EXCEPT ![Peer(i)] = @ \o ms]

\* 1. commit to a fresh share
SendCommit(i, a, r) ==
  /\ i \in honest /\ pc[i] = "start"
  /\ a \in 0..(G.q - 1) /\ r \in 0..(G.q - 1)
  /\ sh' = [sh EXCEPT ![i] = [a |-> a, r |-> r]]
  /\ Send(i, <<Num(Commit(G, a, r))>>)
  /\ pc' = [pc EXCEPT ![i] = "sentC"]
  /\ UNCHANGED <<G, honest, peerC, peerO, out, closed, opened, nread, advLeft>>

\* 2. wait for the other commitment; it must be an element of the subgroup
RecvCommit(i) ==
  /\ i \in honest /\ pc[i] = "sentC" /\ CanRead(i)
  /\ Consume(i)
  /\ IF Unreadable(i) THEN pc' = [pc EXCEPT ![i] = "abort"] /\ UNCHANGED peerC
     ELSE LET m == Head(chan[i]) IN
          IF IsMemberMsg(G, m) THEN pc' = [pc EXCEPT ![i] = "gotC"] /\ peerC' = [peerC EXCEPT ![i] = m.sm]
          ELSE pc' = [pc EXCEPT ![i] = "rej"] /\ UNCHANGED peerC
  /\ UNCHANGED <<G, honest, sh, peerO, out, closed, opened, advLeft>>

\* 3. only now reveal the share, then the randomness.  EarlyOpen = TRUE is the broken protocol that reveals
\* without waiting (used as a negative control: the order invariant must then fail)
SendOpenA(i, early) ==
  /\ i \in honest /\ (pc[i] = "gotC" \/ (early /\ pc[i] = "sentC"))
  /\ Send(i, <<Num(sh[i].a)>>)
  /\ opened' = opened \cup {i}
  /\ pc' = [pc EXCEPT ![i] = IF pc[i] = "gotC" THEN "sentA" ELSE "earlyA"]
  /\ UNCHANGED <<G, honest, sh, peerC, peerO, out, closed, nread, advLeft>>
SendOpenR(i) ==
  /\ i \in honest /\ pc[i] = "sentA"
  /\ Send(i, <<Num(sh[i].r)>>)
  /\ pc' = [pc EXCEPT ![i] = "sentO"]
  /\ UNCHANGED <<G, honest, sh, peerC, peerO, out, closed, opened, nread, advLeft>>

\* 4. read the other share (|a'| < q) ...
RecvA(i) ==
  /\ i \in honest /\ pc[i] = "sentO" /\ CanRead(i)
  /\ Consume(i)
  /\ IF Unreadable(i) THEN pc' = [pc EXCEPT ![i] = "abort"] /\ UNCHANGED peerO
     ELSE LET m == Head(chan[i]) IN
          /\ peerO' = [peerO EXCEPT ![i] = <<m>>]
          /\ pc' = [pc EXCEPT ![i] = IF AbsBelowQ(G, m) THEN "gotA" ELSE "rej"]
  /\ UNCHANGED <<G, honest, sh, peerC, out, closed, opened, advLeft>>
\* ... and its randomness, check the opening against the stored commitment, output the sum
RecvR(i) ==
  /\ i \in honest /\ pc[i] = "gotA" /\ CanRead(i)
  /\ Consume(i)
  /\ IF Unreadable(i) THEN pc' = [pc EXCEPT ![i] = "abort"] /\ UNCHANGED <<peerO, out>>
     ELSE LET m == Head(chan[i]) IN
          /\ peerO' = [peerO EXCEPT ![i] = Append(@, m)]
          /\ IF Matches(G, peerC[i], peerO[i][1], m)
             THEN /\ pc' = [pc EXCEPT ![i] = "done"]
                  /\ out' = [out EXCEPT ![i] = (sh[i].a + Val(peerO[i][1])) % G.q]
             ELSE pc' = [pc EXCEPT ![i] = "rej"] /\ UNCHANGED out
  /\ UNCHANGED <<G, honest, sh, peerC, closed, opened, advLeft>>

\* ---- the adversary in the place of a party
AdvSend(to, m) ==
  /\ to \in honest /\ Peer(to) \notin honest /\ ~closed[to] /\ advLeft > 0
  /\ chan' = [chan EXCEPT ![to] = Append(@, m)]
  /\ advLeft' = advLeft - 1
  /\ UNCHANGED <<G, honest, pc, sh, peerC, peerO, out, closed, opened, nread>>
AdvClose(to) ==
  /\ to \in honest /\ Peer(to) \notin honest /\ ~closed[to]
  /\ closed' = [closed EXCEPT ![to] = TRUE]
  /\ UNCHANGED <<G, honest, pc, sh, peerC, peerO, out, chan, opened, nread, advLeft>>

HonestStep(i, early) ==
  \/ \E a, r \in 0..(G.q - 1) : SendCommit(i, a, r)
  \/ RecvCommit(i) \/ SendOpenA(i, early) \/ SendOpenR(i) \/ RecvA(i) \/ RecvR(i)

\* ---- the property (C17, two-party part)
\* no party reveals its share before it has received (and stored) the other party's commitment
C17_Order == \A i \in honest : i \in opened => (nread[i] >= 1 /\ Member(G, peerC[i]))
\* all honest participants output the same value, the sum of the shares modulo q
C17_Agreement == (honest = Party /\ pc[0] = "done" /\ pc[1] = "done") =>
                    (out[0] = out[1] /\ out[0] = (sh[0].a + sh[1].a) % G.q)
\* two honest parties never give up
C17_Complete == honest = Party => \A i \in Party : pc[i] \notin {"rej", "abort"}
\* an output is the sum of the own share and the share the peer was committed to, a value in 0..q-1
C17_Sum == \A i \in honest : pc[i] = "done" =>
              /\ Len(peerO[i]) = 2
              /\ Matches(G, peerC[i], peerO[i][1], peerO[i][2])
              /\ out[i] = (sh[i].a + Val(peerO[i][1])) % G.q
              /\ out[i] \in 0..(G.q - 1)
\* an opening that does not match the earlier commitment leads to rejection (and only such an opening does)
C17_Reject == \A i \in honest : Len(peerO[i]) = 2 =>
                 /\ pc[i] \in {"done", "rej"}
                 /\ (pc[i] = "done") = Matches(G, peerC[i], peerO[i][1], peerO[i][2])
\* whoever has no output has revealed nothing it was not entitled to, and never outputs later
C17_NoOutput == \A i \in honest : pc[i] \in {"rej", "abort"} => out[i] = -1

\* ---- theorems about the commitment scheme that give the order its meaning (checked as ASSUME in MC_Coin)
\* perfect hiding: every commitment is consistent with every share, for exactly one randomness
Hiding(grp) == \A c \in Subgroup(grp) : \A a \in 0..(grp.q - 1) :
                  Cardinality({r \in 0..(grp.q - 1) : Commit(grp, a, r) = c}) = 1
\* negative representatives open what their residue opens
NegEquiv(grp) == \A a, r \in (1 - grp.q)..(grp.q - 1) : Commit(grp, a, r) = Commit(grp, a % grp.q, r % grp.q)
\* with the peer's commitment and opening fixed before the own share is revealed, every outcome is hit by
\* exactly q of the q*q own coin pairs: the peer cannot bias the coin
Fair(grp) == \A a2 \in 0..(grp.q - 1) : \A v \in 0..(grp.q - 1) :
                Cardinality({<<a, r>> \in (0..(grp.q - 1)) \X (0..(grp.q - 1)) : (a + a2) % grp.q = v}) = grp.q
\* a peer that sees the share first can hit any outcome it likes (why the order matters): for every own share
\* and every target there is an opening of SOME commitment - without the order nothing is left of the coin
Controllable(grp) == \A a \in 0..(grp.q - 1) : \A v \in 0..(grp.q - 1) :
                        \E a2, r2 \in 0..(grp.q - 1) : (a + a2) % grp.q = v /\ Member(grp, Commit(grp, a2, r2))
=============================================================================
