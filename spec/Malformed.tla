------------------------------ MODULE Malformed ------------------------------
(***************************************************************************)
(* C12: the input space fed to the library's importers, stream             *)
(* constructors, verifier receiving sides and OpenPGP parsers.  A valid    *)
(* export is a sequence of fields separated by the delimiters | ^ newline  *)
(* (binary OpenPGP data: a sequence of octets).  The catalogue of          *)
(* structure-aware mutations of the property text is defined here and      *)
(* enumerated completely by TLC for every valid sample the driver reports  *)
(* (type, number of fields, number of characters); the driver applies each *)
(* descriptor to its sample and runs the consumer in a sandboxed child.    *)
(* The only outcomes the specification admits are a refusal (false /       *)
(* standard exception) or acceptance of what happens to be another valid   *)
(* object - never a crash, a sanitizer report or non-termination.          *)
(***************************************************************************)
EXTENDS Integers, Sequences, FiniteSets, TLC, Json, IOUtils

SamplesFile == IF "SAMPLES" \in DOMAIN IOEnv THEN IOEnv.SAMPLES ELSE "samples.ndjson"
Samples == ndJsonDeserialize(SamplesFile)
Stride == IF "STRIDE" \in DOMAIN IOEnv THEN (CHOOSE n \in 1..64 : ToString(n) = IOEnv.STRIDE) ELSE 1

\* values a field may be replaced by: empty, 0, 1, negative, non-digit, the limits of the library's dimensions and one
\* beyond (players 32, type bits 10, cards 512), 2^32, an oversized number, a delimiter-looking string
FieldValues == <<"", "0", "1", "-1", "x", "32", "33", "10", "11", "512", "513", "4294967296", "18446744073709551616",
                 "9999999999999999999999999999999999999999999999999999999999999999999999999999999999999999999999999999",
                 "crd", "sts", "stk", "-----">>
ByteValues == {0, 1, 127, 128, 191, 192, 223, 224, 254, 255}    \* OpenPGP length-octet boundaries and extremes

\* multi-octet length encodings written over the data: five-octet lengths at and next to 2^32 (sums with a header
\* length wrap around in 32 bits), 2^31, 0 and 1; two-octet lengths at their limits; a partial-length octet with the maximum
LenPatterns == << <<255, 255, 255, 255, 255>>, <<255, 255, 255, 255, 254>>, <<255, 255, 255, 255, 250>>, <<255, 128, 0, 0, 0>>,
                  <<255, 127, 255, 255, 255>>, <<255, 0, 0, 0, 0>>, <<255, 0, 0, 0, 1>>, <<192, 0>>, <<223, 255>>, <<254, 255>> >>

Outcomes == {"refused", "exception", "accepted"}                \* what the specification admits

FieldCases(s) ==
  LET ks == 0..(s.nf - 1) IN
  {[type |-> s.type, op |-> "DelField", k |-> k] : k \in ks} \cup
  {[type |-> s.type, op |-> "DupField", k |-> k] : k \in ks} \cup
  {[type |-> s.type, op |-> "TruncField", k |-> k] : k \in ks} \cup
  {[type |-> s.type, op |-> "SwapFields", k |-> k] : k \in ks} \cup
  {[type |-> s.type, op |-> "SetField", k |-> k, v |-> FieldValues[j]] : k \in ks, j \in 1..Len(FieldValues)}
\* the fields that carry a dimension, a count or an index, set to the neighbours of the library's limits and of the
\* sample's own dimensions (a later element of another dimension than the first one, one player more or less, ...)
DimValues == <<"0", "1", "2", "3", "4", "9", "10", "11", "31", "32", "33", "511", "512", "513">>
DimCases(s) ==
  {[type |-> s.type, op |-> "SetDim", k |-> s.dims[d], v |-> DimValues[j]] : d \in 1..Len(s.dims), j \in 1..Len(DimValues)}
CharCases(s) ==
  LET os == {o \in 0..s.nc : s.nc <= 400 \/ o % Stride = 0 \/ o > s.nc - 8} IN
  {[type |-> s.type, op |-> "TruncChar", k |-> o] : o \in os}
ByteCases(s) ==
  LET os == {o \in 0..(s.nc - 1) : s.nc <= 120 \/ o < 24 \/ o % Stride = 0} IN
  {[type |-> s.type, op |-> "SetByte", k |-> o, v |-> b] : o \in os, b \in ByteValues} \cup
  {[type |-> s.type, op |-> "FlipByte", k |-> o, v |-> 1] : o \in os} \cup
  {[type |-> s.type, op |-> "SetBytes", k |-> o, v |-> LenPatterns[j]] : o \in os, j \in 1..Len(LenPatterns)} \cup
  {[type |-> s.type, op |-> "InsBytes", k |-> o, v |-> LenPatterns[j]] : o \in os, j \in 1..Len(LenPatterns)}
\* key blocks as sequences of well-formed packets: every sequence over the packet kinds up to a length (primary key,
\* subkey, user ID, certification, subkey binding, key and subkey packets of an unknown algorithm, marker) - the parser
\* keeps pending objects between packets, so the order in which packets end a pending object matters
PktKinds == <<"pub", "sub", "uid", "sig", "subsig", "subx", "pubx", "marker">>
RECURSIVE PktSeqs(_)
PktSeqs(n) == IF n = 0 THEN {<<>>} ELSE LET r == PktSeqs(n - 1) IN
                 r \cup {Append(q, PktKinds[j]) : q \in {x \in r : Len(x) = n - 1}, j \in 1..Len(PktKinds)}
SeqCases(s) == IF s.type = "pgp_keyblock"
               THEN {[type |-> s.type, op |-> "PktSeq", k |-> 0, v |-> q] : q \in PktSeqs(IF Stride > 1 THEN 4 ELSE 5) \ {<<>>}}
               ELSE {}
CasesOf(s) == IF s.binary THEN CharCases(s) \cup ByteCases(s) \cup SeqCases(s) ELSE FieldCases(s) \cup DimCases(s) \cup CharCases(s)

VARIABLES i, done
Init == i = 1 /\ done = FALSE
Next == /\ i <= Len(Samples)
        /\ \A c \in CasesOf(Samples[i]) : PrintT(ToJson(c))
        /\ i' = i + 1 /\ done' = (i + 1 > Len(Samples))
Spec == Init /\ [][Next]_<<i, done>>
\* every mutation descriptor addresses a position inside (or just behind) its sample
WellFormed == \A k \in 1..Len(Samples) : \A c \in CasesOf(Samples[k]) : c.k >= 0 /\ c.k <= Samples[k].nc
=============================================================================
