------------------------------- MODULE OTTrace -------------------------------
(***************************************************************************)
(* Direction B for property C18: validation of executions recorded from the *)
(* real NaorPinkasEOTP objects (harness/drv_ot.cc record).  Per execution    *)
(*   Reset    group, variant, N, index, messages                            *)
(*   Choose1  the coins the chooser drew, the first move it wrote            *)
(*   Relay    the first move the sender was given (mutation catalogue)      *)
(*   Send     the coins the sender drew, its return value, what it wrote    *)
(*   Choose2  the chooser's return value and output                          *)
(*   Curious  the harness opening every slot with the chooser's exponent b   *)
(*   End                                                                      *)
(* Every logged value is recomputed from the logged coins with the actions  *)
(* of OTProto.tla; the invariants of OTProto (the property) are evaluated   *)
(* in every state; TLC has to consume the whole log.                         *)
(***************************************************************************)
EXTENDS OTProto, Json, IOUtils, TLCExt

TraceFile == IF "TRACE" \in DOMAIN IOEnv THEN IOEnv.TRACE ELSE "trace.ndjson"
TraceLog == ndJsonDeserialize(TraceFile)

VARIABLE l
tvars == <<st, l>>
Ev == TraceLog[l]
IsEv(name) == l <= Len(TraceLog) /\ Ev.e = name

Par0 == [G |-> [p |-> 23, q |-> 11, g |-> 2], var |-> "two", N |-> 2, sigma |-> 0, M |-> <<1, 1>>]
TInit == l = 1 /\ st = [Fresh(Par0) EXCEPT !.pc = "idle"]

TReset ==
  /\ IsEv("Reset") /\ st.pc \in {"idle", "closed"}
  /\ LET pr == [G |-> [p |-> Ev.grp[1], q |-> Ev.grp[2], g |-> Ev.grp[3]], var |-> Ev.var, N |-> Ev.N,
                sigma |-> Ev.sigma, M |-> Ev.M]
     IN /\ pr.G.p <= 46337 /\ IsSchnorr(pr.G)
        \* the quantifier of the property (an "n" transfer with N > q is legal: it must always be refused)
        /\ ParOK(pr)
        /\ st' = Fresh(pr)
  /\ l' = l + 1

TChoose1 ==
  /\ IsEv("Choose1")
  /\ ChooserMove(Ev.coins)
  /\ st'.q1 = Ev.mv
  /\ l' = l + 1

TRelay ==
  /\ IsEv("Relay")
  /\ Relay(Ev.dl)
  /\ (Ev.mut = "none") => (Ev.dl = st.q1)
  /\ l' = l + 1

TSend ==
  /\ IsEv("Send")
  /\ IF st.pc = "send" /\ SenderGuards
     THEN /\ Ev.ret /\ Ev.exc = 0
          /\ SenderAnswer(Ev.coins)               \* exactly 2N fresh coins, used as the paper says
          /\ Flat(st'.a2) = Ev.mv
     ELSE /\ SenderAbort
          /\ ~Ev.ret /\ Ev.mv = <<>>              \* refusal: nothing is written
          \* a refusal by exception only when the first move is too short to be read
          /\ (Ev.exc = 1) => (Len(st.d1) < QLen(st.par.var, st.par.N))
  /\ l' = l + 1

TChoose2 ==
  /\ IsEv("Choose2")
  /\ ChooserFinish(st.a2)
  /\ (st'.cres = "ok") <=> (Ev.ret /\ Ev.exc = 0)
  /\ (st'.cres = "ok") => (Ev.out = st'.out)
  /\ (Ev.exc = 1) => (st.sres = "abort")         \* it may only fail hard when nothing arrived
  /\ l' = l + 1

TCurious ==
  /\ IsEv("Curious") /\ st.pc = "done" /\ Answered
  /\ Len(Ev.dec) = st.par.N
  /\ \A j \in 1..st.par.N : Ev.dec[j] = Open(st.par.G, CB(st.cc), st.a2[j])
  /\ UNCHANGED st /\ l' = l + 1

TEnd ==
  /\ IsEv("End") /\ st.pc = "done"
  /\ st' = [st EXCEPT !.pc = "closed"] /\ l' = l + 1

TNext == TReset \/ TChoose1 \/ TRelay \/ TSend \/ TChoose2 \/ TCurious \/ TEnd
TSpec == TInit /\ [][TNext]_tvars

\* an answered query opens at most one message (computed by discrete logarithm: small groups only)
OneOnlySmall == (st.par.G.q <= 60) => OneOnly

Accepted == TLCGet("stats").diameter = Len(TraceLog) + 1
=============================================================================
