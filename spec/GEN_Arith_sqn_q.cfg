SPECIFICATION Spec
CONSTANTS
 Fam = "sqn"
 P <- PQuick
INVARIANTS Theorems Emit
CHECK_DEADLOCK FALSE
