SPECIFICATION TSpec
INVARIANT KeyIsPower
POSTCONDITION Accepted
CHECK_DEADLOCK FALSE
