\* a single family / a single case (replay): Families <- One_<family>, Lo = Hi = index
SPECIFICATION Spec
CONSTANTS
 Families <- One_len
 Lo = 191
 Hi = 192
 W = 1
 HiR64p = 1000000
 HiPkt = 1000000
 Seed = 1
INVARIANTS Theorems Emit
CHECK_DEADLOCK FALSE
