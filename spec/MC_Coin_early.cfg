SPECIFICATION MCSpec
CONSTANTS
 P = 11
 Q = 5
 Gg = 4
 Hh = 3
 Hon <- H0
 Budget = 1
 ASet <- AllR
 RSet <- R1
 Early = TRUE
 Gen = FALSE
INVARIANTS C17_Order
CHECK_DEADLOCK FALSE
