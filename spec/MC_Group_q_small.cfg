SPECIFICATION Spec
CONSTANTS
 MaxP = 47
 MaxQ = 23
 MaxK = 7
 Margin = 4
 Variants <- V_small
 NaiveMaxP = 13
 Mode = "nbr"
 CheckArith = TRUE
INVARIANTS BlockIsDefinition Sound Complete Shape Elements Emit
CHECK_DEADLOCK FALSE
