SPECIFICATION Spec
INVARIANT TableOK
CHECK_DEADLOCK FALSE
