SPECIFICATION Spec
CONSTANTS
 Fam = "koch"
 P <- PQuick
INVARIANTS Theorems Emit
CHECK_DEADLOCK FALSE
