SPECIFICATION Spec
CONSTANTS
 P = 47
 Q = 23
 N = 2
 LE = 2
 Kind = "c03_v"
 CoinSet = {1, 20}
 RSet = {5}
 PowM <- TabPowM
INVARIANT Theorem
CHECK_DEADLOCK FALSE
