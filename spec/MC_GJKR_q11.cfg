SPECIFICATION Spec
CONSTANTS
 UnansweredRule = TRUE
 FreshImage = TRUE
 N = 3
 T = 1
 GP = 23
 GQ = 11
 GG = 2
 GH = 3
 BadSet = {0, 1, 2, 3}
 CoefA = {0, 1, 5, 10}
 Deltas = {1, 10}
 MaxDev = 2
 Canonical = TRUE
INVARIANTS Inv_Complete Inv_Agree Inv_HonestQualified Inv_ShareV Inv_SharePedersen Inv_DealerConsistent Inv_OneSecret Inv_HonestContribute Inv_HonestNotReconstructed
CHECK_DEADLOCK FALSE
