SPECIFICATION TSpec
INVARIANTS C17_Outputs C17_Live
POSTCONDITION Accepted
CHECK_DEADLOCK FALSE
