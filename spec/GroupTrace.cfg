SPECIFICATION Spec
CONSTANTS
 NeedsOnly = FALSE
 CatEvery = 1
POSTCONDITION Accepted
CHECK_DEADLOCK FALSE
