SPECIFICATION Spec
CONSTANTS
 Adopt = TRUE
 Coeffs = {0, 1, 2, 7}
INVARIANTS Agreement HonestDealerAccepted SharesMatch Secret
CHECK_DEADLOCK FALSE
