INIT InitPubC
NEXT NextPubC
INVARIANTS InvPubC
CONSTANTS
 P = 23
 Q = 11
 Gg = 2
 Hh = 3
 Ns = {2, 3, 4}
 CoinSet = {0, 1, 2, 3, 4, 5, 6, 7, 8, 9, 10}
 ChSet <- CS4
 Wide = FALSE
 PowM <- TabPowM
CHECK_DEADLOCK FALSE
