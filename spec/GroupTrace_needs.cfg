SPECIFICATION Spec
CONSTANTS
 NeedsOnly = TRUE
 CatEvery = 0
POSTCONDITION Accepted
CHECK_DEADLOCK FALSE
