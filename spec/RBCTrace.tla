----------------------------- MODULE RBCTrace -----------------------------
(* Trace validation for the reliable broadcast: a log recorded from n real  *)
(* CachinKursawePetzoldShoupRBC objects (harness/drv_rbc.cc) must be a      *)
(* behaviour of RBC.tla.  Every event is one public call; the logged        *)
(* received message, sent messages, delivery and projected counters must be *)
(* exactly what the spec's action computes, and all safety invariants of    *)
(* RBC.tla are evaluated in every state on the way.                         *)
EXTENDS RBC, Json, IOUtils, TLCExt

TraceFile == IF "TRACE" \in DOMAIN IOEnv THEN IOEnv.TRACE ELSE "trace.ndjson"
TraceLog == ndJsonDeserialize(TraceFile)

VARIABLES l,      \* position in the log
          ok      \* FALSE once an event could not be matched (the rest of the execution is skipped)
tvars == <<vars, l, ok>>

Ev == TraceLog[l]
IsEv(name) == l <= Len(TraceLog) /\ Ev.e = name

FromReset(r) ==
  LET st0 == IF r.chan = <<>> THEN InitParty
             ELSE [InitParty EXCEPT !.stack = <<[id |-> Root, s |-> 0, ds |-> [w \in Party |-> 1]]>>,
                                    !.id = r.chan, !.fifo = r.fifo]
  IN /\ ps' = [i \in Honest |-> st0]
     /\ net' = [a \in Party |-> [b \in Party |-> <<>>]]
     /\ delivered' = [i \in Honest |-> <<>>]
     /\ returned' = [i \in Honest |-> <<>>]
     /\ bcast' = [i \in Honest |-> {}]
     /\ byzLeft' = 1000000

TInit ==
  /\ l = 1 /\ ok = TRUE
  /\ Init(1000000)

Seq2(x) == [k \in 1..Len(x) |-> x[k]]
TxOf(out) == [k \in 1..Len(out) |-> [to |-> out[k].to, m |-> out[k].m]]
SameTx(logtx, out) == Len(logtx) = Len(out) /\ \A k \in 1..Len(out) :
                         logtx[k].to = out[k].to /\ logtx[k].m = out[k].m
Proj(i, e) == /\ \A w \in Party : e.ds[w + 1] = ps'[i].ds[w]
              /\ e.nb = Len(ps'[i].dbuf)
              /\ e.sq = ps'[i].s
              /\ e.cid = ps'[i].id

TReset == IsEv("Reset") /\ FromReset(Ev) /\ ok' = TRUE /\ l' = l + 1

TBcast ==
  /\ IsEv("Bcast") /\ ok
  /\ "exc" \notin DOMAIN Ev
  /\ Broadcast(Ev.i, Ev.v, Ev.sq)
  /\ SameTx(Ev.tx, ToAll(Msg(ps[Ev.i].id, Ev.i, Ev.sq, RSEND, Ev.v)))
  /\ l' = l + 1 /\ UNCHANGED ok
TSetID == IsEv("SetID") /\ ok /\ SetID(Ev.i, Ev.c, Ev.f) /\ Proj(Ev.i, Ev) /\ l' = l + 1 /\ UNCHANGED ok
TRecoverID == IsEv("RecoverID") /\ ok /\ RecoverID(Ev.i, Ev.c, Ev.f) /\ Proj(Ev.i, Ev) /\ l' = l + 1 /\ UNCHANGED ok
TUnsetID == IsEv("UnsetID") /\ ok /\ UnsetID(Ev.i, Ev.f) /\ Proj(Ev.i, Ev) /\ l' = l + 1 /\ UNCHANGED ok

TStep ==
  /\ IsEv("Step") /\ ok
  /\ "exc" \notin DOMAIN Ev
  /\ LET i == Ev.i  lk == Ev.l
         q == net[lk][i]
         r == DeliverCall(ps[i], i, lk, IF q = <<>> THEN <<>> ELSE <<Head(q)>>)
     IN /\ Step(i, lk)
        /\ (IF r.consumed THEN Ev.rx = <<Head(q)>> ELSE Ev.rx = <<>>)
        /\ SameTx(Ev.tx, r.res.out)
        /\ (IF r.res.dl = <<>> THEN Ev.dl = <<>>
            ELSE Len(Ev.dl) = 1 /\ Ev.dl[1].who = r.res.dl[1].who /\ Ev.dl[1].v = r.res.dl[1].v)
        /\ Proj(i, Ev)
  /\ l' = l + 1 /\ UNCHANGED ok

TDFrom ==
  /\ IsEv("DFrom") /\ ok
  /\ "exc" \notin DOMAIN Ev
  /\ LET i == Ev.i  lk == Ev.l
         q == net[lk][i]
         r == DeliverCall(ps[i], i, lk, IF q = <<>> THEN <<>> ELSE <<Head(q)>>)
     IN
     /\ DFrom(i, Ev.who, lk)
     /\ (IF Len(returned'[i]) > Len(returned[i])
         THEN Ev.ret = <<returned'[i][Len(returned'[i])].v>> ELSE Ev.ret = <<>>)
     /\ \A w \in Party : Ev.pk[w + 1] = Len(ps'[i].park[w])
     /\ Proj(i, Ev)
     /\ IF DFromDelivers(ps[i], Ev.who)
        THEN /\ (IF r.consumed THEN Ev.rx = <<Head(q)>> ELSE Ev.rx = <<>>)
             /\ SameTx(Ev.tx, r.res.out)
        ELSE Ev.rx = <<>> /\ Ev.tx = <<>>
  /\ l' = l + 1 /\ UNCHANGED ok

TQueue == IsEv("Queue") /\ ok /\ QueueFrom(Ev.i, Ev.who, Ev.v) /\ l' = l + 1 /\ UNCHANGED ok
TByz == IsEv("Byz") /\ ok /\ Byz(Ev.b, Ev.to, Ev.m) /\ l' = l + 1 /\ UNCHANGED ok

\* end of an execution: the driver has handed over everything; bounded liveness
QuiescentT == /\ \A i \in Honest, lk \in Party : net[lk][i] = <<>>
              /\ \A i \in Honest : ~BufferScan(ps[i], i).hit /\ BufferScan(ps[i], i).res.out = <<>>
HasDlT(i, w, id, s) == \E x \in Dl(i) : x.who = w /\ x.id = id /\ x.s = s
TQuiesce ==
  /\ IsEv("Quiesce") /\ ok
  /\ Ev.empty = (\A i \in Honest, lk \in Party : net[lk][i] = <<>>)
  /\ l' = l + 1 /\ UNCHANGED <<vars, ok>>

TNext == TReset \/ TBcast \/ TSetID \/ TRecoverID \/ TUnsetID \/ TStep \/ TDFrom \/ TQueue \/ TByz \/ TQuiesce
TSpec == TInit /\ [][TNext]_tvars

\* the log is accepted iff TLC can consume all of it (checked as a violated invariant NotAccepted, or via the
\* postcondition when the search is linear)
NotAccepted == l <= Len(TraceLog)
Accepted == TLCGet("stats").diameter = Len(TraceLog) + 1
DeliveryStepT == [][(l' = l + 1 /\ TraceLog[l].e # "Reset") => (DeliveryStep /\ ReturnStep)]_tvars
=============================================================================
