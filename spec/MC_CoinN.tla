----------------------------- MODULE MC_CoinN -----------------------------
(* exhaustive instances of CoinN.tla: every world is a behaviour root -> .. -> world -> round 1 .. round 4, the *)
(* invariants evaluate the theorems in the last state.  Party N-1 deviates in every way of the deviation       *)
(* alphabet (Mode = "byz") or is an honest party behind faulty private links (Mode = "tamper"); party 0 and    *)
(* the deviating party range over all share polynomials, the others have fixed ones.                          *)
EXTENDS CoinN, TLC

CONSTANTS P, Q, Gg, Hh, N, T,
          Strict,     \* FALSE: negative control (a missing answer does not disqualify)
          Mode,       \* "byz" | "tamper"
          HonP, DevP  \* share polynomials of party 0 and of the deviating party
VARIABLES W, rd, r1, r2, r3, r4
mvars == <<W, rd, r1, r2, r3, r4>>

Grp == [p |-> P, q |-> Q, g |-> Gg, h |-> Hh]
ASSUME GoodGroup(Grp) /\ N < Q /\ 2 * T < N

Coefs == [1..(T + 1) -> 0..(Q - 1)]
PolysAll == Coefs
PolysOne == {[k \in 1..(T + 1) |-> 2]}
PolysConst == {f \in Coefs : \A k \in 2..(T + 1) : f[k] = 1}       \* every constant term, fixed higher coefficients
FixC(j) == [k \in 1..(T + 1) |-> (j + k) % Q]
FixH(j) == [k \in 1..(T + 1) |-> (3 * j + k + 1) % Q]
HonestDev == [byz |-> FALSE, commit |-> TRUE, sd |-> [l \in 1..N |-> 0], complain |-> {}, answer |-> "true",
              open |-> "true", recon |-> TRUE, checked |-> TRUE]
SdSet == {f \in [1..N -> {0, 1, 2}] : f[N] = 0}
ByzDevs == {[byz |-> TRUE, commit |-> c, sd |-> s, complain |-> cs, answer |-> a, open |-> o, recon |-> FALSE, checked |-> FALSE] :
              c \in BOOLEAN, s \in SdSet, cs \in SUBSET (0..(N - 2)), a \in {"true", "wrong", "ignore"}, o \in {"true", "wrong", "none"}}
TamperDevs == {[HonestDev EXCEPT !.sd = s] : s \in SdSet}
Devs == IF Mode = "byz" THEN ByzDevs ELSE TamperDevs

World(c0, cd, d) ==
  [n |-> N, t |-> T, G |-> Grp,
   poly |-> [j \in 1..N |-> IF j = 1 THEN [c |-> c0, h |-> FixH(0)]
                            ELSE IF j = N THEN [c |-> cd, h |-> FixH(N - 1)]
                            ELSE [c |-> FixC(j - 1), h |-> FixH(j - 1)]],
   dev |-> [j \in 1..N |-> IF j = N THEN d ELSE HonestDev]]

Init == W = 0 /\ rd = 0 /\ r1 = 0 /\ r2 = 0 /\ r3 = 0 /\ r4 = 0
\* the choice of the world is spread over three levels so that the work is shared by TLC's workers
Next ==
  \/ /\ rd = 0
     /\ \E c0 \in HonP, cd \in DevP : W' = [c0 |-> c0, cd |-> cd]
     /\ rd' = 10 /\ UNCHANGED <<r1, r2, r3, r4>>
  \/ /\ rd = 10
     /\ \E d \in Devs : W' = World(W.c0, W.cd, d)
     /\ rd' = 11 /\ UNCHANGED <<r1, r2, r3, r4>>
  \/ /\ rd = 11 /\ r1' = Round1(W) /\ rd' = 1 /\ UNCHANGED <<W, r2, r3, r4>>
  \/ /\ rd = 1 /\ r2' = Round2(W, r1) /\ rd' = 2 /\ UNCHANGED <<W, r1, r3, r4>>
  \/ /\ rd = 2 /\ r3' = Round3(W, r1, r2, Strict) /\ rd' = 3 /\ UNCHANGED <<W, r1, r2, r4>>
  \/ /\ rd = 3 /\ r4' = Round4(W, r1, r3) /\ rd' = 4 /\ UNCHANGED <<W, r1, r2, r3>>
Spec == Init /\ [][Next]_mvars

Holds == rd = 4 => /\ N_Agreement(W, r4) /\ N_Sum(W, r4) /\ N_Recon(W, r4) /\ N_Live(W, r3, r4)
Interp == rd = 1 => N_Interp(W, r1)
\* vacuity guards (must be violated): some world leads to reconstruction, some world disqualifies the deviating party
NeverRecon == rd = 4 => r4.failed = {}
NeverDisq == rd = 3 => r3.qual = Parties(W)
=============================================================================
