------------------------------- MODULE OTGen -------------------------------
(***************************************************************************)
(* Direction A for property C18: TLC enumerates transfers - group, variant, *)
(* number of messages, index, messages, the coins of both parties - and     *)
(* prints each case with everything the specification expects: the first    *)
(* move, the sender's verdict, the answer, the chooser's output and the     *)
(* curious chooser's decryptions.  "t" cases are first moves of the mutation*)
(* catalogue handed to the sender directly (the harness plays the chooser). *)
(* harness/drv_ot.cc executes the cases on NaorPinkasEOTP with the coins    *)
(* dictated and reports raw results; checks/c18.py compares.                *)
(* In every case state TLC also checks the theorems (invariant Theorems).   *)
(*                                                                          *)
(* Tree: root -> block (group, variant, N, sigma, kind) -> (a, b) -> case,  *)
(* so that the workers share the cases.  In blocks with nab = 0 the pair    *)
(* (a, b) runs through Z_q x Z_q, in 1-of-2 blocks the first q cases of a   *)
(* pair run through every c; everything else is drawn from a small LCG      *)
(* seeded with Seed (VERIF_SEED), with collisions, zero blinding exponents, *)
(* the message 1 and repeated messages forced regularly.                    *)
(***************************************************************************)
EXTENDS OT, Json

CONSTANTS Tier,   \* "quick" | "thorough"
          Seed

VARIABLE st

Lcg(x) == (x * 75 + 74) % 65537
Mix(x, y) == Lcg((Lcg(x % 65537) + (y % 65521) * 7919) % 65537)
RECURSIVE LcgSeq(_, _)
LcgSeq(x, n) == IF n = 0 THEN <<>> ELSE LET y == Lcg(x) IN <<y>> \o LcgSeq(y, n - 1)

G7 == [p |-> 7, q |-> 3, g |-> 2]
G11 == [p |-> 11, q |-> 5, g |-> 3]
G23 == [p |-> 23, q |-> 11, g |-> 2]
G47 == [p |-> 47, q |-> 23, g |-> 2]
G67 == [p |-> 67, q |-> 11, g |-> 64]          \* k = 6
G89 == [p |-> 89, q |-> 11, g |-> 64]          \* k = 8
G2063 == [p |-> 2063, q |-> 1031, g |-> 4]
G12373 == [p |-> 12373, q |-> 1031, g |-> 11775]   \* k = 12
G46199 == [p |-> 46199, q |-> 23099, g |-> 2]
AllGroups == {G7, G11, G23, G47, G67, G89, G2063, G12373, G46199}
ASSUME \A G \in AllGroups : IsSchnorr(G)

\* blocks: [G, var, N, sigma, kind, nab, ni]
Blk(G, var, Ns, kind, nab, ni) ==
  {[G |-> G, var |-> var, N |-> n, sigma |-> s, kind |-> kind, nab |-> nab, ni |-> ni] :
      <<n, s>> \in {z \in Ns \X (0..63) : z[2] < z[1]}}
BlkS(G, var, N, sigmas, kind, nab, ni) ==
  {[G |-> G, var |-> var, N |-> N, sigma |-> s, kind |-> kind, nab |-> nab, ni |-> ni] : s \in sigmas}
T == Tier = "thorough"
Blocks ==
  \* honest transfers, both parties real
       Blk(G23, "two", {2}, "h", 0, IF T THEN 40 ELSE 12)
  \cup Blk(G23, "n", IF T THEN 2..6 ELSE 2..4, "h", 0, IF T THEN 16 ELSE 3)
  \cup Blk(G23, "opt", IF T THEN 2..11 ELSE {2, 3, 4, 11}, "h", 0, IF T THEN 8 ELSE 1)
  \cup Blk(G11, "two", {2}, "h", 0, IF T THEN 40 ELSE 8)
  \cup Blk(G11, "n", 2..4, "h", 0, IF T THEN 40 ELSE 5)
  \cup Blk(G11, "opt", 2..5, "h", 0, IF T THEN 20 ELSE 2)
  \cup Blk(G7, "two", {2}, "h", 0, IF T THEN 30 ELSE 6)
  \cup Blk(G7, "n", 2..3, "h", 0, IF T THEN 30 ELSE 6)
  \cup Blk(G7, "opt", 2..3, "h", 0, IF T THEN 30 ELSE 6)
  \cup Blk(G47, "two", {2}, "h", IF T THEN 0 ELSE 60, IF T THEN 24 ELSE 4)
  \cup Blk(G47, "n", IF T THEN {3, 5, 8} ELSE {3, 5}, "h", IF T THEN 200 ELSE 40, IF T THEN 4 ELSE 3)
  \cup Blk(G47, "opt", IF T THEN {4, 9, 23} ELSE {4}, "h", IF T THEN 200 ELSE 50, 3)
  \cup UNION {Blk(G, "two", {2}, "h", IF T THEN 0 ELSE 40, 3) \cup Blk(G, "n", {3}, "h", IF T THEN 0 ELSE 40, 3)
              \cup Blk(G, "opt", {3}, "h", IF T THEN 0 ELSE 40, 2) : G \in {G67, G89}}
  \cup UNION {Blk(G, "two", {2}, "h", IF T THEN 200 ELSE 14, 2)
              \cup BlkS(G, "n", 4, {0, 3}, "h", IF T THEN 100 ELSE 12, 2)
              \cup BlkS(G, "n", 16, {0, 7, 15}, "h", IF T THEN 60 ELSE 10, 2)
              \cup BlkS(G, "n", 64, IF T THEN {0, 33, 63} ELSE {33}, "h", IF T THEN 40 ELSE 10, 2)
              \cup BlkS(G, "opt", 5, {0, 2, 4}, "h", IF T THEN 100 ELSE 12, 2)
              \cup BlkS(G, "opt", 64, IF T THEN {0, 31, 63} ELSE {63}, "h", IF T THEN 40 ELSE 10, 2) : G \in {G2063, G12373, G46199}}
  \* malformed first moves, sender only: every position x every mutation
  \cup Blk(G23, "two", {2}, "t", IF T THEN 40 ELSE 5, 0)
  \cup Blk(G23, "n", IF T THEN 2..5 ELSE 2..4, "t", IF T THEN 24 ELSE 4, 0)
  \cup Blk(G23, "opt", IF T THEN 2..5 ELSE 2..3, "t", IF T THEN 24 ELSE 4, 0)
  \cup Blk(G11, "two", {2}, "t", IF T THEN 25 ELSE 4, 0)
  \cup Blk(G11, "n", {3}, "t", IF T THEN 25 ELSE 4, 0)
  \cup UNION {BlkS(G, "two", 2, {1}, "t", IF T THEN 20 ELSE 3, 0) \cup BlkS(G, "n", 3, {0, 2}, "t", IF T THEN 20 ELSE 3, 0)
              \cup BlkS(G, "opt", 4, {3}, "t", IF T THEN 20 ELSE 3, 0)
              \cup BlkS(G, "n", 9, {4}, "t", IF T THEN 6 ELSE 1, 0) : G \in {G2063, G46199, G67}}

VarCode(v) == CASE v = "two" -> 1 [] v = "n" -> 2 [] v = "opt" -> 3
KindCode(k) == IF k = "h" THEN 1 ELSE 2
BH(b) == Mix(Mix(Mix(Mix(Mix(Seed, b.G.p), VarCode(b.var)), b.N), b.sigma), KindCode(b.kind))
MutSeq == <<"plus1", "otherres", "zero", "one", "pm1", "p", "q", "plusq", "nonmember", "neg", "plusp",
            "oversized", "swap", "dupprev", "dupfirst", "trunc">>
NAB(b) == IF b.nab = 0 THEN b.G.q * b.G.q ELSE b.nab
NI(b) == IF b.kind = "h" THEN b.ni ELSE QLen(b.var, b.N) * Len(MutSeq)
AB(b, j) ==
  LET q == b.G.q  bd == <<0, 1, q - 1>> IN
  IF b.nab = 0 THEN <<j \div q, j % q>>
  ELSE IF j < 9 THEN <<bd[(j \div 3) + 1], bd[(j % 3) + 1]>>
  ELSE LET h == Mix(BH(b), j) IN <<h % q, Lcg(h) % q>>

\* ---------------------------------------------------------------- one case
Case(b, j, i) ==
  LET G == b.G  q == G.q  N == b.N  sg == b.sigma
      ab == AB(b, j)  a == ab[1]  bb == ab[2]
      prod == (a * bb) % q
      \* honest cases draw per case, malformed ones per pair (the case index selects position and mutation)
      rs == LcgSeq(Mix(Mix(BH(b), j), IF b.kind = "h" THEN i ELSE 0), 4 * N + 6)
      c0 == [k \in 1..N |-> rs[k] % q]
      j1 == (rs[N + 2] % N) + 1
      j2 == (rs[N + 3] % N) + 1
      force == b.var = "n" /\ rs[N + 1] % 4 = 0 /\ j1 # sg + 1
      cN == IF force THEN [c0 EXCEPT ![j1] = IF j2 = sg + 1 \/ j2 = j1 THEN prod ELSE c0[j2]] ELSE c0
      cc == CASE b.var = "two" -> <<a, bb, IF b.nab = 0 /\ b.kind = "h" /\ i < q THEN i ELSE IF rs[N + 1] % 6 = 0 THEN prod ELSE c0[1]>>
              [] b.var = "n" -> <<a, bb>> \o cN
              [] b.var = "opt" -> <<a, bb>>
      sc == [k \in 1..(2 * N) |-> IF rs[N + 3 + k] % 8 = 0 THEN 0 ELSE rs[N + 3 + k] % q]
      me == [k \in 1..N |-> LET e == rs[3 * N + 3 + k] IN IF e % 4 = 0 THEN 0 ELSE e \div 4]
      M == [k \in 1..N |-> IF rs[3 * N + 3 + k] % 4 = 1 /\ k > 1 THEN Gen(G, me[1]) ELSE Gen(G, me[k])]
      pr == [G |-> G, var |-> b.var, N |-> N, sigma |-> sg, M |-> M]
      q1 == QueryOf(pr, cc)
  IN IF b.kind = "h"
     THEN LET sok == Guards(G, b.var, N, q1)
              A == IF sok THEN AnswerOf(pr, q1, sc) ELSE <<>>
          IN [id |-> <<BH(b), j, i>>, k |-> "h", grp |-> <<G.p, G.q, G.g>>, var |-> b.var, N |-> N, sigma |-> sg,
              M |-> M, cc |-> cc, sc |-> sc,
              q1 |-> q1, sok |-> sok, a2 |-> IF sok THEN Flat(A) ELSE <<>>,
              cok |-> sok /\ ChooserAccepts(G, N, A),
              out |-> IF sok THEN Open(G, bb, A[sg + 1]) ELSE 0,
              dec |-> IF sok THEN [t \in 1..N |-> Open(G, bb, A[t])] ELSE <<>>,
              coll |-> Collides(pr, cc)]
     ELSE LET pos == (i \div Len(MutSeq)) + 1
              mut == MutSeq[(i % Len(MutSeq)) + 1]
              app == MutApplies(q1, pos, mut)
              d1 == IF app THEN Mutate(G, q1, pos, mut) ELSE q1
              sok == Guards(G, b.var, N, d1)
              A == IF sok THEN AnswerOf(pr, d1, sc) ELSE <<>>
          IN [id |-> <<BH(b), j, i>>, k |-> "t", grp |-> <<G.p, G.q, G.g>>, var |-> b.var, N |-> N, sigma |-> sg,
              M |-> M, sc |-> sc, base |-> q1, mut |-> mut, pos |-> pos, app |-> app,
              d1 |-> d1, sok |-> sok, a2 |-> IF sok THEN Flat(A) ELSE <<>>]

\* ---------------------------------------------------------------- the tree
Root == [k |-> 0]
Init == st = Root
Next == \/ st.k = 0 /\ \E b \in Blocks : st' = [k |-> 1, b |-> b]
        \/ st.k = 1 /\ \E j \in 0..(NAB(st.b) - 1) : st' = [k |-> 2, b |-> st.b, j |-> j]
        \/ st.k = 2 /\ \E i \in 0..(NI(st.b) - 1) : st' = [k |-> 3, q |-> st.b.G.q, c |-> Case(st.b, st.j, i)]
Spec == Init /\ [][Next]_st

Emit == (st.k = 3) => ((st.c.k = "h" \/ st.c.app) => PrintT(ToJson(st.c)))

\* ---------------------------------------------------------------- theorems on every case
Theorems ==
  (st.k = 3) =>
    LET c == st.c  G == [p |-> c.grp[1], q |-> c.grp[2], g |-> c.grp[3]]  N == c.N IN
    IF c.k = "h"
    THEN /\ c.sok <=> ~c.coll                                      \* refusal exactly on coinciding exponents
         /\ c.sok => (c.cok /\ c.out = c.M[c.sigma + 1])            \* the chooser gets the message of its index
         /\ c.sok => \A t \in 1..N : (t # c.sigma + 1) =>            \* and opens no other one, except for s = 0
                        ((c.dec[t] = c.M[t]) <=> (SS(c.var, N, c.sc)[t] = 0))
         /\ c.sok => \A t \in 1..(2 * N) : Member(G, c.a2[t])
    ELSE /\ (c.sok /\ G.q <= 50) => OpensAtMostOne(G, c.var, N, c.d1)
         /\ (c.app /\ c.mut \in {"zero", "pm1", "p", "nonmember", "neg", "plusp", "oversized", "trunc"}) => ~c.sok
=============================================================================
