SPECIFICATION MCSpec
CONSTANTS
 P = 23
 Q = 11
 Gg = 2
 Hh = 3
 Hon <- H01
 Budget = 0
 ASet <- A1
 RSet <- R1
 Early = FALSE
 Gen = TRUE
INVARIANTS GenPrint
CHECK_DEADLOCK FALSE
