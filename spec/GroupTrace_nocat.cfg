SPECIFICATION Spec
CONSTANTS
 NeedsOnly = FALSE
 CatEvery = 0
POSTCONDITION Accepted
CHECK_DEADLOCK FALSE
