SPECIFICATION Spec
CONSTANTS
 Insts <- Insts_C03_t
 MaskOneAsCoded = TRUE
INVARIANT Thm
CHECK_DEADLOCK FALSE
