------------------------------ MODULE PGPTrace ------------------------------
(* Trace validation for the hash framing of OpenPGP (C19, direction B).     *)
(* harness/drv_pgp.cc calls the fingerprint / key id / signature-hash /     *)
(* S2K / KDF functions of the real library with libgcrypt's digest          *)
(* functions interposed and logs, per call, the arguments, the octets that  *)
(* were handed to each hash context ("md"), the digests and the result.     *)
(* Every logged event must satisfy what PGPFrame.tla prescribes: the hash   *)
(* input is exactly the framing of RFC 4880 (12.2, 5.2.4, 3.7.1), RFC 6637  *)
(* (KDF) and the v5 rules of rfc4880bis, the right hash function is used    *)
(* and the result is the prescribed part of the digest.  Hash functions     *)
(* themselves are oracles (their logged output is taken as is).             *)
EXTENDS PGPFrame, Json, IOUtils, TLCExt

TraceFile == IF "TRACE" \in DOMAIN IOEnv THEN IOEnv.TRACE ELSE "trace.ndjson"
Log == ndJsonDeserialize(TraceFile)
VARIABLE l

(* which libgcrypt digest computes OpenPGP hash algorithm h (libgcrypt numbers its classic digests like  *)
(* OpenPGP; SHA3-256 and SHA3-512 are 313 and 315)                                                        *)
GcryAlgo(h) == CASE h = 12 -> 313 [] h = 14 -> 315 [] OTHER -> h
HashLen(h) == CASE h = 1 -> 16 [] h \in {2, 3} -> 20 [] h \in {8, 12} -> 32 [] h = 9 -> 48 [] h \in {10, 14} -> 64 [] h = 11 -> 28

OneCtx(ev, algo, input) ==
  /\ Len(ev.md) = 1
  /\ ev.md[1].full
  /\ ev.md[1].a = GcryAlgo(algo)
  /\ ev.md[1].n = Len(input)
  /\ ev.md[1].in = input
  /\ Len(ev.md[1].out) = HashLen(algo)

OkFpr(ev) ==
  /\ OneCtx(ev, IF ev.v = 4 THEN HashSHA1 ELSE HashSHA256, KeyFrame(ev.v, ev.key))
  /\ ev.out = ev.md[1].out
OkKeyId(ev) ==
  /\ OneCtx(ev, IF ev.v = 4 THEN HashSHA1 ELSE HashSHA256, KeyFrame(ev.v, ev.key))
  /\ ev.out = IF ev.v = 4 THEN KeyIdV4(ev.md[1].out) ELSE KeyIdV5(ev.md[1].out)
  /\ Len(ev.out) = 8
OkSigHash(ev) ==
  /\ ev.ok
  /\ OneCtx(ev, ev.algo, SigHashInput(ev.kind, ev.v, ev.a, ev.b, ev.hashed))
  /\ ev.hash = ev.md[1].out
  /\ ev.left = Left16(ev.md[1].out)
OkS2K(ev) ==
  LET m == S2KContexts(ev.sklen, ev.hlen)               \* contexts needed; further (unused) ones are tolerated
      unit == ev.salt \o ev.pass
  IN /\ ev.hlen = HashLen(ev.algo)
     /\ Len(ev.md) >= m
     /\ \A j \in 1..m :
          LET c == ev.md[j]
              st == S2KStream(j - 1, ev.salt, ev.pass, ev.iter, ev.c)
          IN /\ c.a = GcryAlgo(ev.algo)
             /\ c.n = st.zeros + st.total
             /\ Len(c.out) = ev.hlen
             /\ IF c.full
                THEN Len(c.in) = c.n /\ \A k \in 1..c.n : c.in[k] = StreamAt(st, k)
                ELSE /\ c.Z = st.zeros /\ c.P = Len(unit) /\ c.per          \* octet k equals octet k-P from Z+P on
                     /\ Len(c.head) >= c.Z + c.P
                     /\ \A k \in 1..Len(c.head) : c.head[k] = StreamAt(st, k)
                     /\ \A k \in 1..Len(c.tail) : c.tail[k] = StreamAt(st, c.n - Len(c.tail) + k)
     /\ ev.out = Take(Flat([j \in 1..m |-> ev.md[j].out]), ev.sklen)
     /\ Len(ev.out) = ev.sklen
OkKDF(ev) ==
  /\ ev.ret = 0
  /\ OneCtx(ev, ev.hash, KdfInput(ev.zb, ev.oid, ev.hash, ev.sym, ev.fpr))
  /\ ev.out = ev.md[1].out

(* the hashed part of a signature as prepared by the library's PacketSigPrepare... functions: parsed back with *)
(* the subpacket grammar of 5.2.3.1; the fields the caller gave must be the ones a reader finds                *)
T32(p) == BE32(p[1], p[2])
IssuerOk(subs, issuer) ==
  CASE Len(issuer) = 8 -> HasOne(subs, 16, issuer)
    [] Len(issuer) = 20 -> (HasNone(subs, 16) \/ HasOne(subs, 16, SubSeq(issuer, 13, 20))) /\ HasOne(subs, 33, <<4>> \o issuer)
    [] Len(issuer) = 32 -> HasNone(subs, 16) /\ HasOne(subs, 33, <<5>> \o issuer)   \* no Issuer subpacket for a v5 key
    [] OTHER -> FALSE
OkSigPrep(ev) ==
  LET h == ParseHashed(ev.out)  subs == h.subs IN
  /\ h.ok /\ h.v = ev.v /\ h.type = ev.type /\ h.pk = ev.pk /\ h.hash = ev.hash
  /\ \A k \in 1..Len(subs) : SubBodyOk(subs[k])
  /\ \A t \in 0..127 : t # 20 => Cardinality(SubIdx(subs, t)) <= 1
  /\ HasOne(subs, 2, T32(ev.time))                                   \* creation time MUST be in the hashed area
  /\ IssuerOk(subs, ev.issuer)
  /\ (IF ev.fn = "self" /\ ev.exp # <<0, 0>> THEN HasOne(subs, 9, T32(ev.exp)) ELSE HasNone(subs, 9))
  /\ (IF ev.fn \in {"detached", "detachedv5", "certification"} /\ ev.exp # <<0, 0>> THEN HasOne(subs, 3, T32(ev.exp)) ELSE HasNone(subs, 3))
  /\ (IF ev.fn \in {"detached", "detachedv5", "certification"} /\ ev.policy # <<>> THEN HasOne(subs, 26, ev.policy) ELSE HasNone(subs, 26))
  /\ (ev.fn \in {"self", "revoker"} => HasOne(subs, 27, ev.flags))
  /\ (ev.fn = "revoker" => IF ev.revoker = <<>> THEN HasNone(subs, 12) ELSE HasOne(subs, 12, <<128, ev.pk2>> \o ev.revoker))
  /\ (ev.fn = "revocation" => HasOne(subs, 29, <<ev.revcode>> \o ev.reason))
  /\ ev.md = <<>>                                                      \* preparing a signature hashes nothing

(* a passphrase-protected secret key packet (usage octet 254) as emitted by PacketSecEncode / PacketSsbEncode:   *)
(* rng = the octet strings drawn from the random source (salt, IV), md = hash contexts in the order used:        *)
(* first the SHA-1 over the secret MPIs (appended before encryption), then the S2K contexts                      *)
OkSecEnc(ev) ==
  LET pub == BodyPubV4(ev.time, ev.algo, MPIs(ev.mpis))
      plain == MPI(ev.x)
      d == LenNewDecode(Tail(ev.out))
      body == Drop(ev.out, 1 + d.hl)
      salt == ev.rng[1]
      iv == ev.rng[2]
      count == body[Len(pub) + 13]
      need == S2KContexts(32, HashLen(HashSHA256))
  IN /\ Len(ev.rng) = 2 /\ Len(salt) = 8 /\ Len(iv) = 16
     /\ ev.out[1] = TagNew(IF ev.sub THEN 7 ELSE 5)
     /\ d.hl > 0 /\ ~d.part /\ d.len = <<0, Len(body)>>
     /\ Len(body) = Len(pub) + 4 + 8 + 1 + 16 + Len(plain) + 20
     /\ Take(body, Len(pub) + 29) = pub \o SecretS2K254Head(9, HashSHA256, salt, count, iv)
     /\ Len(ev.md) >= 1 + need
     /\ ev.md[1].a = GcryAlgo(HashSHA1) /\ ev.md[1].full /\ ev.md[1].in = plain
     /\ \A j \in 1..need :
          LET c == ev.md[1 + j]
              st == S2KStream(j - 1, salt, ev.pass, TRUE, count)
          IN /\ c.a = GcryAlgo(HashSHA256)
             /\ c.n = st.zeros + st.total
             /\ IF c.full
                THEN Len(c.in) = c.n /\ \A k \in 1..c.n : c.in[k] = StreamAt(st, k)
                ELSE /\ c.Z = st.zeros /\ c.P = Len(st.unit) /\ c.per
                     /\ Len(c.head) >= c.Z + c.P
                     /\ \A k \in 1..Len(c.head) : c.head[k] = StreamAt(st, k)
                     /\ \A k \in 1..Len(c.tail) : c.tail[k] = StreamAt(st, c.n - Len(c.tail) + k)

Ok(ev) == CASE ev.e = "Fpr" -> OkFpr(ev)
            [] ev.e = "KeyId" -> OkKeyId(ev)
            [] ev.e = "SigHash" -> OkSigHash(ev)
            [] ev.e = "S2K" -> OkS2K(ev)
            [] ev.e = "KDF" -> OkKDF(ev)
            [] ev.e = "SigPrep" -> OkSigPrep(ev)
            [] ev.e = "SecEnc" -> OkSecEnc(ev)
            [] OTHER -> FALSE

Init == l = 1
Next == l <= Len(Log) /\ Ok(Log[l]) /\ l' = l + 1
TSpec == Init /\ [][Next]_l
(* the log is accepted iff TLC can consume all of it *)
Accepted == TLCGet("stats").diameter = Len(Log) + 1
=============================================================================
