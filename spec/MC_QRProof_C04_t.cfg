SPECIFICATION Spec
CONSTANTS
 Insts <- Insts_C04_t
 MaskOneAsCoded = TRUE
INVARIANT Thm
CHECK_DEADLOCK FALSE
