------------------------------- MODULE RBC -------------------------------
(***************************************************************************)
(* Reliable broadcast of libTMCG (class CachinKursawePetzoldShoupRBC,      *)
(* src/CachinKursawePetzoldShoupSEABP.cc) as implemented: Bracha/CKPS      *)
(* r-send / r-echo / r-ready / r-request / r-answer, the FIFO extension    *)
(* with deliver sequence counters and deliver buffer, the out-of-order     *)
(* handler (l-retrieve / l-deliver / l-fail), channel identifiers with     *)
(* setID / unsetID / recoverID and the sender-specific DeliverFrom buffer. *)
(*                                                                         *)
(* One action per public call of the real object:                          *)
(*   Broadcast(i,v)  SetID(i,c,f)  UnsetID(i)  RecoverID(i,c,f)            *)
(*   Step(i,l)        = Deliver(m, who, scheduler, timeout 0) with the      *)
(*                      harness-owned transport handing over link l        *)
(*   DFrom(i,who,l)   = DeliverFrom(m, who, scheduler, timeout 0)          *)
(*   QueueFrom(i,who,v)                                                    *)
(*   Byz(b,to,m)      = a faulty party puts any message on its link        *)
(* Names of state components follow the C++ members.                       *)
(***************************************************************************)
EXTENDS Integers, Sequences, FiniteSets, TLC

CONSTANTS N,        \* number of parties (0..N-1)
          T,        \* resilience
          Honest,   \* set of honest parties
          FixF3,    \* TRUE: a tag is accepted (delivered or buffered) at most once (repaired code);
                    \* FALSE: pinned behaviour, every valid r-answer is delivered again (finding F3)
          FixF4,    \* TRUE: DeliverFrom falls through to Deliver (repaired); FALSE: pinned behaviour (finding F4)
          FixF15    \* TRUE: an r-send that arrives after the ready quorum for its digest is accepted at once (repaired);
                    \* FALSE: pinned behaviour, the slot then depends on an r-answer of a party that happens to serve (finding F15)

Party == 0..(N-1)
Root  == <<>>                      \* channel ID of a fresh object; an ID is the path of setID names

\* message actions (the code's numbering)
RSEND == 1  RECHO == 2  RREADY == 3  RREQUEST == 4  RANSWER == 5
LRETRIEVE == 6  LDELIVER == 7  LFAIL == 8

\* hash of a body: injective, range disjoint from payloads (payloads are < 1000)
H(v) == IF v < 1000 THEN 1000 + v ELSE 3000 + v

Msg(id, j, s, a, b) == [id |-> id, j |-> j, s |-> s, a |-> a, b |-> b]
Tag(m) == <<m.id, m.j, m.s>>

--------------------------------------------------------------------------
(* per-party state                                                          *)
InitParty == [ id    |-> Root,
               stack |-> <<>>,                       \* last_IDs / last_s / last_deliver_s
               s     |-> 0,
               ds    |-> [w \in Party |-> 1],         \* deliver_s
               fifo  |-> TRUE,
               seenS |-> {}, seenQ |-> {}, seenA |-> {},  \* send / request / answer : <<tag,l>>
               ech   |-> {}, rdy |-> {},              \* <<tag,l,d>> : first r-echo / r-ready of l for tag carried d
               retr  |-> {}, ldel |-> {},             \* retrieve / deliver : <<tag,l>>
               rbuf  |-> {},                          \* retrieve_buf : <<tag,l,body>>
               mbar  |-> <<>>, dbar |-> <<>>,         \* functions tag -> body (dynamic domain)
               acc   |-> {},                          \* accepted : tags already delivered or buffered for delivery (repair of F3)
               dbuf  |-> <<>>,                        \* deliver_buf
               park  |-> [w \in Party |-> <<>>],      \* buf_mpz / buf_id : sequence of [v, id]
               rec   |-> <<>> ]                       \* recover_s / recover_deliver_s : id -> [s, ds]

Has(f, k) == k \in DOMAIN f
Put(f, k, v) == [x \in (DOMAIN f) \cup {k} |-> IF x = k THEN v ELSE f[x]]

ECount(st, tag, d) == Cardinality({l \in Party : <<tag, l, d>> \in st.ech})
RCount(st, tag, d) == Cardinality({l \in Party : <<tag, l, d>> \in st.rdy})

ToAll(m) == [k \in 1..N |-> [to |-> k - 1, m |-> m]]
NoOut == <<>>
NoDl  == <<>>
Res(st, out, dl) == [st |-> st, out |-> out, dl |-> dl]

\* "check for matching tag and sequence counter before delivering" / "buffer the acknowledged message"
DeliverOrBuffer(st, m, out) ==
  LET who == m.j  tag == Tag(m) IN
  IF m.id = st.id /\ ((st.fifo /\ m.s = st.ds[who]) \/ ~st.fifo)
  THEN Res([st EXCEPT !.ds[who] = @ + 1, !.acc = IF FixF3 THEN @ \cup {tag} ELSE @], out,
           <<[who |-> who, id |-> m.id, s |-> m.s, v |-> st.mbar[tag]]>>)
  ELSE Res([st EXCEPT !.dbuf = Append(@, m), !.acc = IF FixF3 THEN @ \cup {tag} ELSE @], out, NoDl)

--------------------------------------------------------------------------
(* first part of Deliver(): the deliver buffer                              *)
Deliverable(st, k) ==
  LET e == st.dbuf[k] IN e.id = st.id /\ ((st.fifo /\ e.s = st.ds[e.j]) \/ ~st.fifo)
RemoveAt(q, k) == SubSeq(q, 1, k - 1) \o SubSeq(q, k + 1, Len(q))

\* entries with ID match whose sequence number is below the deliver counter are obsolete (FIFO only)
Obsolete(st, k) == LET e == st.dbuf[k] IN st.fifo /\ e.id = st.id /\ e.s < st.ds[e.j]
Future(st, w)   == {k \in 1..Len(st.dbuf) : st.fifo /\ st.dbuf[k].id = st.id /\ st.dbuf[k].j = w
                                              /\ st.dbuf[k].s > st.ds[w]}
MinS(st, w)     == CHOOSE x \in {st.dbuf[k].s : k \in Future(st, w)} :
                      \A y \in {st.dbuf[k].s : k \in Future(st, w)} : x <= y

\* the out-of-order handler: l-retrieve for every missing sequence number below the minimal buffered one,
\* to every other party that was not asked and has not answered yet; at most 40 sends (checked per sequence number)
RECURSIVE RetrFoo(_, _, _, _, _, _, _), RetrWho(_, _, _, _, _)
RetrFoo(st, me, w, foo, mn, out, cnt) ==
  IF ~(foo < mn /\ cnt < 40) THEN <<st, out, cnt>>
  ELSE LET tag  == <<st.id, w, foo>>
           tos  == {i \in Party : i # me /\ <<tag, i>> \notin st.ldel /\ <<tag, i>> \notin st.retr}
           m    == Msg(st.id, w, foo, LRETRIEVE, LRETRIEVE)
           st2  == [st EXCEPT !.retr = @ \cup {<<tag, i>> : i \in tos}]
       IN RetrFoo(st2, me, w, foo + 1, mn, out \o SelectSeq(ToAll(m), LAMBDA x : x.to \in tos),
                  cnt + Cardinality(tos))
RetrWho(st, me, w, out, cnt) ==
  IF w >= N THEN <<st, out, cnt>>
  ELSE IF Future(st, w) = {} THEN RetrWho(st, me, w + 1, out, cnt)
  ELSE LET r == RetrFoo(st, me, w, st.ds[w], MinS(st, w), out, cnt)
       IN RetrWho(r[1], me, w + 1, r[2], r[3])

\* returns [hit |-> TRUE, res |-> Res(..)] when a buffered message is delivered,
\* otherwise the state after l-retrieve emission and obsolete cleanup
BufferScan(st, me) ==
  LET cand == {k \in 1..Len(st.dbuf) : Deliverable(st, k)} IN
  IF cand # {}
  THEN LET k == CHOOSE x \in cand : \A y \in cand : x <= y
           e == st.dbuf[k]
       IN [hit |-> TRUE,
           res |-> Res([st EXCEPT !.ds[e.j] = @ + 1, !.dbuf = RemoveAt(@, k)], NoOut,
                       <<[who |-> e.j, id |-> e.id, s |-> e.s, v |-> st.mbar[Tag(e)]]>>)]
  ELSE LET r   == IF st.fifo THEN RetrWho(st, me, 0, NoOut, 0) ELSE <<st, NoOut, 0>>
           st2 == r[1]
           keep == SelectSeq(st2.dbuf, LAMBDA e : ~(st2.fifo /\ e.id = st2.id /\ e.s < st2.ds[e.j]))
       IN [hit |-> FALSE, res |-> Res([st2 EXCEPT !.dbuf = keep], r[2], NoDl)]

--------------------------------------------------------------------------
(* second part of Deliver(): one message m received from P_l               *)
Handle(st0, me, l, m, out0) ==
  LET tag == Tag(m) IN
  IF m.j > N - 1 \/ m.j < 0 \/ m.s < 1 \/ m.a < RSEND \/ m.a > LDELIVER
  THEN Res(st0, out0, NoDl)                              \* malformed (note: l-fail = 8 is refused here)
  ELSE CASE m.a = RSEND ->
         IF <<tag, l>> \in st0.seenS THEN Res(st0, out0, NoDl)
         ELSE LET st == [st0 EXCEPT !.seenS = @ \cup {<<tag, l>>}] IN
              IF m.j # l THEN Res(st, out0, NoDl)         \* faked r-send
              ELSE IF Has(st.mbar, tag) /\ st.mbar[tag] # m.b THEN Res(st, out0, NoDl)
              ELSE LET st2  == [st EXCEPT !.mbar = Put(@, tag, m.b)]
                       out2 == out0 \o ToAll(Msg(m.id, m.j, m.s, RECHO, H(m.b)))
                   IN IF FixF15 /\ Has(st2.dbar, tag) /\ tag \notin st2.acc /\ H(m.b) = st2.dbar[tag]
                      THEN DeliverOrBuffer(st2, m, out2)       \* payload after the ready quorum (repair of F15)
                      ELSE Res(st2, out2, NoDl)
       [] m.a = RECHO ->
         IF \E d \in {x[3] : x \in {y \in st0.ech : y[1] = tag /\ y[2] = l}} : TRUE
         THEN Res(st0, out0, NoDl)
         ELSE LET st == [st0 EXCEPT !.ech = @ \cup {<<tag, l, m.b>>}] IN
              IF ECount(st, tag, m.b) = N - T /\ RCount(st, tag, m.b) <= T
              THEN Res(st, out0 \o ToAll(Msg(m.id, m.j, m.s, RREADY, m.b)), NoDl)
              ELSE Res(st, out0, NoDl)
       [] m.a = RREADY ->
         IF \E y \in st0.rdy : y[1] = tag /\ y[2] = l
         THEN Res(st0, out0, NoDl)
         ELSE LET st == [st0 EXCEPT !.rdy = @ \cup {<<tag, l, m.b>>}]
                  r  == RCount(st, tag, m.b)
                  e  == ECount(st, tag, m.b)
              IN
              IF T > 0 /\ r = T + 1 /\ e < N - T
              THEN Res(st, out0 \o ToAll(Msg(m.id, m.j, m.s, RREADY, m.b)), NoDl)
              ELSE IF r = 2 * T + 1
              THEN IF Has(st.dbar, tag) /\ st.dbar[tag] # m.b THEN Res(st, out0, NoDl)
                   ELSE LET st2 == [st EXCEPT !.dbar = Put(@, tag, m.b)]
                            foo == IF Has(st2.mbar, tag) THEN H(st2.mbar[tag]) ELSE 0
                        IN IF foo # st2.dbar[tag]
                           THEN Res(st2, out0 \o [k \in 1..(2 * T + 1) |->
                                       [to |-> k - 1, m |-> Msg(m.id, m.j, m.s, RREQUEST, m.b)]], NoDl)
                           ELSE DeliverOrBuffer(st2, m, out0)
              ELSE Res(st, out0, NoDl)
       [] m.a = RREQUEST ->
         IF <<tag, l>> \in st0.seenQ THEN Res(st0, out0, NoDl)
         ELSE LET st == [st0 EXCEPT !.seenQ = @ \cup {<<tag, l>>}] IN
              IF Has(st.mbar, tag)
              THEN Res(st, out0 \o <<[to |-> l, m |-> Msg(m.id, m.j, m.s, RANSWER, st.mbar[tag])]>>, NoDl)
              ELSE Res(st, out0, NoDl)
       [] m.a = RANSWER ->
         IF <<tag, l>> \in st0.seenA THEN Res(st0, out0, NoDl)
         ELSE LET st == [st0 EXCEPT !.seenA = @ \cup {<<tag, l>>}] IN
              IF FixF3 /\ tag \in st.acc THEN Res(st, out0, NoDl)   \* repaired code: already accepted
              ELSE IF ~Has(st.dbar, tag) THEN Res(st, out0, NoDl)
              ELSE IF H(m.b) # st.dbar[tag] THEN Res(st, out0, NoDl)
              ELSE DeliverOrBuffer([st EXCEPT !.mbar = Put(@, tag, m.b)], m, out0)
       [] m.a = LRETRIEVE ->
         LET who == m.j IN
         IF Has(st0.mbar, tag) /\ ((st0.fifo /\ m.s < st0.ds[who]) \/ ~st0.fifo)
         THEN Res(st0, out0 \o <<[to |-> l, m |-> Msg(m.id, m.j, m.s, LDELIVER, st0.mbar[tag])]>>, NoDl)
         ELSE Res(st0, out0 \o <<[to |-> l, m |-> Msg(m.id, m.j, m.s, LFAIL, LFAIL)]>>, NoDl)
       [] m.a = LDELIVER ->
         IF <<tag, l>> \in st0.ldel THEN Res(st0, out0, NoDl)
         ELSE IF <<tag, l>> \notin st0.retr THEN Res(st0, out0, NoDl)    \* unwanted
         ELSE LET st == [st0 EXCEPT !.ldel = @ \cup {<<tag, l>>},
                                    !.rbuf = {x \in @ : ~(x[1] = tag /\ x[2] = l)} \cup {<<tag, l, m.b>>}]
                  got(i) == <<tag, i>> \in st.ldel
                  val(i) == (CHOOSE x \in st.rbuf : x[1] = tag /\ x[2] = i)[3]
                  num == Cardinality({i \in Party : got(i)})
                  agree(i) == 1 + Cardinality({k \in Party : k > i /\ k # me /\ got(k) /\ val(k) = val(i)})
                  ok == {i \in Party : i # me /\ got(i) /\ agree(i) >= N - T}
              IN IF num < N - T \/ ok = {} THEN Res(st, out0, NoDl)
                 ELSE LET i == CHOOSE x \in ok : \A y \in ok : x <= y
                      IN DeliverOrBuffer([st EXCEPT !.mbar = Put(@, tag, val(i))], m, out0)
       [] OTHER -> Res(st0, out0, NoDl)

\* one call Deliver(..., timeout 0) of party me while the transport offers link l (msg = <<>> when the link is empty)
DeliverCall(st, me, l, msg) ==
  LET b == BufferScan(st, me) IN
  IF b.hit THEN [res |-> b.res, consumed |-> FALSE]
  ELSE IF msg = <<>> THEN [res |-> b.res, consumed |-> FALSE]
  ELSE [res |-> Handle(b.res.st, me, l, msg[1], b.res.out), consumed |-> TRUE]

--------------------------------------------------------------------------
VARIABLES ps,         \* ps[i] : state of honest party i
          net,        \* net[a][b] : FIFO link a -> b (what C13 guarantees)
          delivered,  \* ghost: delivered[i] = sequence of protocol deliveries [who,id,s,v] (return of Deliver)
          returned,   \* ghost: returned[i] = sequence of [who,id,v] handed to the caller by DeliverFrom
          bcast,      \* ghost: bcast[i] = set of [id,s,v] broadcast by honest i
          byzLeft     \* budget of Byzantine injections (bounds the model)
vars == <<ps, net, delivered, returned, bcast, byzLeft>>

Strip(q) == [k \in 1..Len(q) |-> q[k].m]
PutMsgs(nt, from, out) ==
  [a \in Party |-> [b \in Party |->
      IF a = from /\ b \in Honest       \* what is sent to a faulty party is of no further interest
      THEN nt[a][b] \o Strip(SelectSeq(out, LAMBDA x : x.to = b)) ELSE nt[a][b]]]

Init(budget) ==
  /\ ps = [i \in Honest |-> InitParty]
  /\ net = [a \in Party |-> [b \in Party |-> <<>>]]
  /\ delivered = [i \in Honest |-> <<>>]
  /\ returned = [i \in Honest |-> <<>>]
  /\ bcast = [i \in Honest |-> {}]
  /\ byzLeft = budget

\* Broadcast(m): sq is the sequence token (FIFO: s+1; non-FIFO: the 256-bit random value, a parameter here)
Broadcast(i, v, sq) ==
  /\ i \in Honest
  /\ (ps[i].fifo => sq = ps[i].s + 1)
  /\ ps' = [ps EXCEPT ![i].s = sq]
  /\ net' = PutMsgs(net, i, ToAll(Msg(ps[i].id, i, sq, RSEND, v)))
  /\ bcast' = [bcast EXCEPT ![i] = @ \cup {[id |-> ps[i].id, s |-> sq, v |-> v]}]
  /\ UNCHANGED <<delivered, returned, byzLeft>>

SetID(i, c, f) ==
  /\ i \in Honest
  /\ ps' = [ps EXCEPT ![i].stack = Append(@, [id |-> ps[i].id, s |-> ps[i].s, ds |-> ps[i].ds]),
                      ![i].id = Append(@, c), ![i].fifo = f, ![i].s = 0,
                      ![i].ds = [w \in Party |-> 1]]
  /\ UNCHANGED <<net, delivered, returned, bcast, byzLeft>>

RecoverID(i, c, f) ==
  /\ i \in Honest
  /\ LET nid == Append(ps[i].id, c)
         known == Has(ps[i].rec, nid)
     IN ps' = [ps EXCEPT ![i].stack = Append(@, [id |-> ps[i].id, s |-> ps[i].s, ds |-> ps[i].ds]),
                         ![i].id = nid, ![i].fifo = f,
                         ![i].s = IF known THEN ps[i].rec[nid].s ELSE 0,
                         ![i].ds = IF known THEN ps[i].rec[nid].ds ELSE [w \in Party |-> 1]]
  /\ UNCHANGED <<net, delivered, returned, bcast, byzLeft>>

UnsetID(i, f) ==
  /\ i \in Honest
  /\ LET st == ps[i]
         rec2 == Put(st.rec, st.id, [s |-> st.s, ds |-> st.ds])
         top == IF Len(st.stack) > 0 THEN st.stack[Len(st.stack)]
                ELSE [id |-> Root, s |-> 0, ds |-> [w \in Party |-> 1]]
     IN ps' = [ps EXCEPT ![i].rec = rec2, ![i].fifo = f, ![i].id = top.id, ![i].s = top.s, ![i].ds = top.ds,
                         ![i].stack = IF Len(st.stack) > 0 THEN SubSeq(st.stack, 1, Len(st.stack) - 1) ELSE <<>>]
  /\ UNCHANGED <<net, delivered, returned, bcast, byzLeft>>

\* the effect of one Deliver(timeout 0) on everything but ps[i].park
ApplyDeliver(i, l, r) ==
  /\ net' = LET n1 == IF r.consumed THEN [net EXCEPT ![l][i] = Tail(@)] ELSE net
            IN PutMsgs(n1, i, r.res.out)
  /\ delivered' = [delivered EXCEPT ![i] = @ \o r.res.dl]

Step(i, l) ==
  /\ i \in Honest /\ l \in Party
  /\ LET q == net[l][i]
         r == DeliverCall(ps[i], i, l, IF q = <<>> THEN <<>> ELSE <<Head(q)>>)
     IN /\ ps' = [ps EXCEPT ![i] = r.res.st]
        /\ ApplyDeliver(i, l, r)
  /\ UNCHANGED <<returned, bcast, byzLeft>>

\* DeliverFrom(m, who, scheduler, timeout 0): exactly one iteration of its loop
DFrom(i, who, l) ==
  /\ i \in Honest /\ who \in Party /\ l \in Party
  /\ LET st == ps[i]
         pk == st.park[who]
         hits == {k \in 1..Len(pk) : pk[k].id = st.id}
     IN IF hits # {}
        THEN LET k == CHOOSE x \in hits : \A y \in hits : x <= y IN
             /\ ps' = [ps EXCEPT ![i].park[who] = RemoveAt(@, k)]
             /\ returned' = [returned EXCEPT ![i] = Append(@, [who |-> who, id |-> st.id, v |-> pk[k].v])]
             /\ UNCHANGED <<net, delivered>>
        ELSE IF pk # <<>> /\ ~FixF4
        THEN UNCHANGED <<ps, net, delivered, returned>>     \* pinned code: nothing happens (finding F4)
        ELSE LET q == net[l][i]
                 r == DeliverCall(st, i, l, IF q = <<>> THEN <<>> ELSE <<Head(q)>>)
                 st2 == r.res.st
             IN /\ ps' = [ps EXCEPT ![i] =
                            IF r.res.dl = <<>> THEN st2
                            ELSE [st2 EXCEPT !.park[r.res.dl[1].who] =
                                       Append(@, [v |-> r.res.dl[1].v, id |-> st.id])]]
                /\ ApplyDeliver(i, l, r)
                /\ UNCHANGED returned
  /\ UNCHANGED <<bcast, byzLeft>>

\* does this DeliverFrom call run the embedded Deliver()?
DFromDelivers(st, who) ==
  LET pk == st.park[who] IN
  {k \in 1..Len(pk) : pk[k].id = st.id} = {} /\ (pk = <<>> \/ FixF4)

QueueFrom(i, who, v) ==
  /\ i \in Honest
  /\ ps' = [ps EXCEPT ![i].park[who] = <<[v |-> v, id |-> ps[i].id]>> \o @]
  /\ UNCHANGED <<net, delivered, returned, bcast, byzLeft>>

\* a faulty party b appends an arbitrary message to its link towards an honest party
Byz(b, to, m) ==
  /\ b \in Party \ Honest /\ to \in Honest
  /\ byzLeft > 0
  /\ byzLeft' = byzLeft - 1
  /\ net' = [net EXCEPT ![b][to] = Append(@, m)]
  /\ UNCHANGED <<ps, delivered, returned, bcast>>

--------------------------------------------------------------------------
(* safety properties (C14)                                                  *)
Dl(i) == {delivered[i][k] : k \in 1..Len(delivered[i])}

\* no two honest parties deliver different values for the same sender and slot
Agreement == \A a, b \in Honest : \A x \in Dl(a), y \in Dl(b) :
                (x.who = y.who /\ x.id = y.id /\ x.s = y.s) => x.v = y.v
\* no honest party delivers a slot twice
NoDuplicate == \A i \in Honest : \A k1, k2 \in 1..Len(delivered[i]) :
                 LET x == delivered[i][k1]  y == delivered[i][k2] IN
                 (k1 # k2) => ~(x.who = y.who /\ x.id = y.id /\ x.s = y.s)
\* for an honest sender only what it broadcast is delivered
Integrity == \A i \in Honest : \A x \in Dl(i) :
                x.who \in Honest => [id |-> x.id, s |-> x.s, v |-> x.v] \in bcast[x.who]
\* what DeliverFrom hands out was delivered by the protocol on the channel that is current, or queued by the caller
\* (checked as an action property below); FIFO order is an action property as well

\* deliveries extend by at most one entry per step; a new delivery carries the current channel ID, and in FIFO
\* mode the sequence number that was due
\* a party that knows the agreed digest of a slot and a payload matching it has accepted the slot
\* (delivered it or buffered it for delivery); needs the accepted set of the F3 repair
KnownIsAccepted == FixF3 => \A i \in Honest : \A tag \in (DOMAIN ps[i].mbar) \cap (DOMAIN ps[i].dbar) :
                      H(ps[i].mbar[tag]) = ps[i].dbar[tag] => tag \in ps[i].acc

DeliveryStep ==
  \A i \in Honest :
     \/ delivered'[i] = delivered[i]
     \/ /\ Len(delivered'[i]) = Len(delivered[i]) + 1
        /\ SubSeq(delivered'[i], 1, Len(delivered[i])) = delivered[i]
        /\ LET x == delivered'[i][Len(delivered'[i])] IN
             /\ x.id = ps[i].id                                 \* ChannelIsolation
             /\ ps[i].fifo => x.s = ps[i].ds[x.who]             \* FifoOrder
ReturnStep ==
  \A i \in Honest :
     \/ returned'[i] = returned[i]
     \/ /\ Len(returned'[i]) = Len(returned[i]) + 1
        /\ returned'[i][Len(returned'[i])].id = ps[i].id

TypeOK == /\ \A i \in Honest : ps[i].s >= 0
          /\ byzLeft >= 0
=============================================================================
