SPECIFICATION Spec
CONSTANTS
 MaxP = 47
 MaxQ = 23
 MaxK = 7
 Margin = 4
 Variants <- A_one
 NaiveMaxP = 13
 NaiveVariants <- D_one
 AccMaxP = 1000
 NbrMaxP = 47
 NbrVariants <- N_one
 Mode = "nbr"
 CheckArith = TRUE
 SortedBases = TRUE
INVARIANTS BlockIsDefinition BlockSound Sound Complete Shape Elements Emit
CHECK_DEADLOCK FALSE
