SPECIFICATION Spec
CONSTANTS
 MaxP = 47
 MaxQ = 23
 MaxK = 7
 Margin = 4
 Variants <- N_com1
 NaiveMaxP = 0
 Mode = "nbr"
 CheckArith = FALSE
 SortedBases = FALSE
INVARIANTS BlockIsDefinition Sound Complete Shape Elements Emit
CHECK_DEADLOCK FALSE
