SPECIFICATION Spec
CONSTANTS
 MaxP = 90
 MaxQ = 45
 MaxK = 10
 Margin = 4
 Variants <- A_com1
 NaiveMaxP = 13
 NaiveVariants <- D_com1
 NbrMaxP = 47
 NbrVariants <- N_com1
 Mode = "nbr"
 CheckArith = FALSE
 SortedBases = FALSE
INVARIANTS BlockIsDefinition BlockSound Sound Complete Shape Elements Emit
CHECK_DEADLOCK FALSE
