SPECIFICATION Spec
CONSTANTS
 MaxP = 90
 MaxQ = 45
 MaxK = 10
 Margin = 4
 Variants <- A_com1
 NaiveMaxP = 13
 NaiveVariants <- D_com1
 AccMaxP = 47
 NbrMaxP = 47
 NbrVariants <- A_com1q
 Mode = "nbr"
 CheckArith = FALSE
 SortedBases = TRUE
INVARIANTS BlockIsDefinition BlockSound Sound Complete Shape Elements Emit
CHECK_DEADLOCK FALSE
