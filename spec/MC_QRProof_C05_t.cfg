SPECIFICATION Spec
CONSTANTS
 Insts <- Insts_C05_t
 MaskOneAsCoded = TRUE
INVARIANT Thm
CHECK_DEADLOCK FALSE
