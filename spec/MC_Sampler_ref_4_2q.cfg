SPECIFICATION Spec
CONSTANTS
 Part = "ref"
 Base = 4
 WordLen = 2
 MaxW = 1
 MaxN = 0
 OntoN = 0
 PairN = 0
 NaiveN = 0
 MaxRotN = 0
 MaxResM = 0
 MaxResE = 0
 NumLen = 2
 ProcN = 3
INVARIANT Holds
PROPERTY ProcStutter
CHECK_DEADLOCK FALSE
