INIT InitRotC
NEXT NextRotC
INVARIANTS InvRotC
CONSTANTS
 P = 23
 Q = 11
 Gg = 2
 Hh = 3
 Ns = {2}
 CoinSet = {0, 1, 10}
 ChSet <- CS2
 Wide = TRUE
 PowM <- TabPowM
CHECK_DEADLOCK FALSE
