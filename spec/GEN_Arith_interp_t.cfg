SPECIFICATION Spec
CONSTANTS
 Fams = {"ip", "big"}
 P <- PThorough
INVARIANTS Theorems Emit
CHECK_DEADLOCK FALSE
