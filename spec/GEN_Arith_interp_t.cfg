SPECIFICATION Spec
CONSTANTS
 Fams = {"ip"}
 P <- PThorough
INVARIANTS Theorems Emit
CHECK_DEADLOCK FALSE
