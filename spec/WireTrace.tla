----------------------------- MODULE WireTrace -----------------------------
(***************************************************************************)
(* Trace validation for property C11 (direction B).  harness/drv_wire.cc   *)
(* "record" lets the library itself make objects - generated Rabin keys    *)
(* with their proofs and self-signatures, cards, stacks and stack secrets  *)
(* made by the toolbox in both codings, the group of the masking scheme,   *)
(* and the persisted states that parties hold after runs of Pedersen VSS,  *)
(* the GJKR DKG and the CGJKR threshold DSS (with refresh) - and logs one   *)
(* event per object: its members (rendered by GMP, or as integers where     *)
(* every member is below 2^31), the text the library exported, and what     *)
(* importing that text through the member function / stream operator /     *)
(* stream constructor gave (accepted, equal member by member, operator==,   *)
(* re-export identical).  TLC reads the log and judges every event: the     *)
(* logged text must be Export(o) of Wire.tla for the logged members, the    *)
(* specification's own round trip must hold for o, and both import paths    *)
(* must have reported an equal object with an identical re-export.  A bad   *)
(* event is printed (one JSON line) and counted; the whole log is consumed. *)
(***************************************************************************)
EXTENDS Wire, Json, IOUtils, TLCExt

TraceFile == IF "TRACE" \in DOMAIN IOEnv THEN IOEnv.TRACE ELSE "trace.ndjson"
TraceLog == ndJsonDeserialize(TraceFile)

VARIABLES l,       \* position in the log
          nbad     \* number of events judged bad
tvars == <<l, nbad>>

Ev == TraceLog[l]
Has(r, k) == k \in DOMAIN r

\* what an import path reported: accepted, equal, operator== (where the type has one) true, re-export "=" (identical)
PathOK(p) == /\ p.ok /\ Has(p, "eq") /\ p.eq
             /\ (Has(p, "eqop") => p.eqop)
             /\ Has(p, "re") /\ p.re = "="

Verdict ==
  IF Ev.e # "Obj" THEN "not-an-object-event"
  ELSE IF Export(Ev.o) # Ev.txt THEN "export-text"
  ELSE IF ~RoundTrip(Ev.o) THEN "specification-round-trip"
  ELSE IF ~PathOK(Ev.imp) THEN "import"
  ELSE IF ~PathOK(Ev.str) THEN "stream"
  ELSE "ok"

Report(kind) == PrintT(ToJson([bad |-> l, kind |-> kind, what |-> (IF Has(Ev, "what") THEN Ev.what ELSE "?"),
                            ty |-> (IF Has(Ev, "o") THEN Ev.o.ty ELSE "?"),
                            want |-> (IF kind = "export-text" THEN Export(Ev.o) ELSE "")]))

TInit == l = 1 /\ nbad = 0
Step == LET v == Verdict IN IF v = "ok" THEN nbad' = nbad ELSE Report(v) /\ nbad' = nbad + 1
TNext == l <= Len(TraceLog) /\ Step /\ l' = l + 1
TSpec == TInit /\ [][TNext]_tvars

\* the whole log was consumed (the search is a single path)
Accepted == TLCGet("stats").diameter = Len(TraceLog) + 1
=============================================================================
