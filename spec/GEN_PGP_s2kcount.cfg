\* quick-tier configuration of family s2kcount (checks/c19.py writes the per-tier/per-seed variant to out/C19/cfg)
SPECIFICATION Spec
CONSTANTS
 Family = "s2kcount"
 Lo = 0
 Hi = 1000000
 W = 1
 Seed = 1
INVARIANTS Theorems Emit
CHECK_DEADLOCK FALSE
