---------------------------- MODULE MC_PGPFrame ----------------------------
(* Case generator and small-domain theorem checker for PGPFrame.tla (C19).  *)
(* One state per case: for every family of Families, i runs through         *)
(* Lo..Hi in W interleaved chains (several workers are busy, one JVM serves *)
(* several families); in every state TLC                                    *)
(*   - checks the spec-level theorems of the family (invariant Theorems),   *)
(*   - prints the case with the results the RFC prescribes (invariant Emit) *)
(*     as one JSON line, which checks/c19.py hands to harness/drv_pgp.cc.   *)
(* The driver runs the real library function on "in" and reports "got",     *)
(* which must equal "exp".                                                  *)
EXTENDS PGPFrame, Json, TLCExt

CONSTANTS Families,    \* sequence of case families enumerated by this run
          Lo, Hi, W,   \* index range (cut at the size of a family), number of interleaved chains per family
          HiR64p, HiPkt, \* last index of the two open-ended families
          Seed         \* varies the pattern strings
VARIABLES fi, i
Family == Families[fi]

(* pattern octet strings: length n, variant s *)
Pat(n, s) == Tup([k \in 1..n |-> (k * 37 + n * 11 + s * 101 + ((k * k) \div 7)) % 256])
PatA(n, s) == Tup([k \in 1..n |-> 97 + ((k * 7 + s) % 26)])                \* lower-case letters
PatNZ(n, s) == Tup([k \in 1..n |-> 1 + ((k * 37 + n * 11 + s * 101) % 255)])   \* no zero octet
At(seq, k) == seq[(k % Len(seq)) + 1]

-----------------------------------------------------------------------------
(* r64b: ALL octet strings of length <= 2 *)
B2(k) == IF k = 0 THEN <<>> ELSE IF k <= 256 THEN <<k - 1>> ELSE <<(k - 257) \div 256, (k - 257) % 256>>
CaseR64(b) == LET w == Radix64Wrapped(b) IN
  [op |-> "r64", i |-> i, in |-> [b |-> b, s |-> w],
   exp |-> [enc |-> w, dec |-> b, crc |-> CRC24Octets(b), crcline |-> ChecksumLine(b)]]
NPad(cs) == Cardinality({k \in 1..Len(cs) : cs[k] = PadChar})
ThmR64(b) ==
  LET e == Radix64(b)  w == Radix64Wrapped(b)  n == Len(b) IN
  /\ Radix64Decode(e) = b /\ Radix64Decode(w) = b                        \* round trip, with and without line breaks
  /\ Len(e) = 4 * ((n + 2) \div 3)
  /\ \A k \in 1..Len(e) : IsR64Char(e[k]) \/ (e[k] = PadChar /\ k > Len(e) - 2)
  /\ NPad(e) = (3 - (n % 3)) % 3
  /\ \A l \in 1..NLines(e) : Len(Line(e, l)) <= LineLen /\ (l < NLines(e) => Len(Line(e, l)) = LineLen)
  /\ Len(w) = Len(e) + 2 * (IF NLines(e) = 0 THEN 0 ELSE NLines(e) - 1)
  /\ R64Filter(w) = R64Filter(e)
  /\ CRC24(b \o CRC24Octets(b)) = 0                                        \* the CRC is a polynomial remainder
  /\ CRC24(b) < 16777216

(* r64q (quick tier): all strings of length <= 1 and a quarter of the two-octet strings: <<a, b>> with b = a mod 4, *)
(* so that every b occurs with 64 values of a (the thorough tier runs r64b, all of them)                           *)
B2q(k) == IF k <= 256 THEN B2(k) ELSE LET j == k - 257  a == j \div 64  c == j % 64 IN <<a, 4 * c + (a % 4)>>
(* r64pq (quick tier): the lengths up to the first line-wrap boundary + 2 and +-2 around the next three boundaries *)
QLens == [k \in 1..51 |-> k - 1] \o <<94, 95, 96, 97, 98, 142, 143, 144, 145, 146, 190, 191, 192, 193, 194, 200>>

(* r64p: pattern strings of every length Lo..Hi, with the complete armor (all four block types, with and *)
(* without a Comment header)                                                                            *)
ArmorTypeOf(n) == CASE n % 4 = 0 -> 1 [] n % 4 = 1 -> 2 [] n % 4 = 2 -> 5 [] OTHER -> 6
CommentOf(n) == IF n % 3 = 0 THEN <<>> ELSE IF n % 3 = 1 THEN PatA(5 + (n % 7), n) ELSE PatA(1, n)
HeadersOf(n) == IF CommentOf(n) = <<>> THEN <<>> ELSE <<ArmorHeader(TxtComment, CommentOf(n))>>
CaseR64P(n) ==
  LET b == Pat(n, Seed)
      w == Radix64Wrapped(b)
      a == Armor(ArmorTypeOf(n), HeadersOf(n), b)
  IN IF n = 0 THEN CaseR64(b)
     ELSE [op |-> "armor", i |-> i,
           in |-> [b |-> b, s |-> w, t |-> ArmorTypeOf(n), comment |-> CommentOf(n), a |-> a],
           exp |-> [enc |-> w, dec |-> b, crc |-> CRC24Octets(b), crcline |-> ChecksumLine(b),
                    armor |-> a, dt |-> ArmorTypeOf(n), dd |-> b]]

(* r64r (thorough): pseudo-random octet strings of length 3..64, derived from Seed and the index with the     *)
(* Lehmer generator x' = 75 x mod 65537 (all numbers stay below 2^31)                                          *)
RECURSIVE Lehmer(_, _)
Lehmer(x, n) == IF n = 0 THEN <<>> ELSE <<x % 256>> \o Lehmer((x * 75) % 65537, n - 1)
RandStr(k) == Lehmer(1 + ((k * 7919 + Seed * 104729) % 65536), 3 + (k % 62))

(* armorbad: armor blocks built from the structure of 6.2 with one element varied; the verdict is the one *)
(* the property demands: a checksum line that is present must be "=" and the four radix-64 characters of  *)
(* the CRC of the data; a block with a BEGIN line inside, without the blank separator line or without the *)
(* matching END line is refused (type 0, no data).  (A block WITHOUT checksum line is not a case: the     *)
(* checksum is optional in RFC 4880 6.1, but the property makes no claim about such blocks.)              *)
Faults == << "none", "crcflip", "crcother", "crcshort", "crcgluedtail", "dataflip",
             "nested", "nestedbegin", "nosep", "noend", "endfirst", "wrongend", "lf", "wsblank",
             "nestedhdr", "nestedhdrsame", "nestedhdrfull" >>
BadLens == <<1, 2, 3, 47, 48, 49, 100>>
FlipChar(c) == IF c = 65 THEN 66 ELSE 65             \* another radix-64 character
NotCR(c) == c # 13
ArmorFault(t, b, f) ==
  LET data == Radix64Wrapped(b)
      crc == ChecksumLine(b)
      other == ChecksumLine(b \o <<1>>)
      t2 == IF t = 1 THEN 2 ELSE 1
      head == HeaderLine(t) \o EOL
      tail == TailLine(t) \o EOL
      inner == Armor(t, <<>>, <<1, 2, 3>>)
  IN CASE f = "none"     -> head \o EOL \o data \o EOL \o crc \o EOL \o tail
       [] f = "crcflip"  -> head \o EOL \o data \o EOL \o [crc EXCEPT ![3] = FlipChar(crc[3])] \o EOL \o tail
       [] f = "crcother" -> head \o EOL \o data \o EOL \o other \o EOL \o tail
       [] f = "crcshort" -> head \o EOL \o data \o EOL \o SubSeq(crc, 1, 3) \o EOL \o tail   \* "=" and two characters
       [] f = "crcgluedtail" -> head \o EOL \o data \o EOL \o other \o tail                   \* wrong checksum, END line glued to it
       [] f = "dataflip" -> head \o EOL \o [data EXCEPT ![1] = FlipChar(data[1])] \o EOL \o crc \o EOL \o tail
       [] f = "nested"   -> head \o EOL \o data \o EOL \o inner \o crc \o EOL \o tail
       [] f = "nestedbegin" -> head \o EOL \o HeaderLine(t) \o EOL \o EOL \o data \o EOL \o crc \o EOL \o tail
       \* another block's BEGIN line (and END line) among the armor header lines, before the blank separator
       [] f = "nestedhdr"     -> head \o HeaderLine(t2) \o EOL \o EOL \o data \o EOL \o crc \o EOL \o tail
       [] f = "nestedhdrsame" -> head \o HeaderLine(t) \o EOL \o EOL \o data \o EOL \o crc \o EOL \o tail
       [] f = "nestedhdrfull" -> head \o HeaderLine(t2) \o EOL \o TailLine(t2) \o EOL \o EOL \o data \o EOL \o crc \o EOL \o tail
       [] f = "nosep"    -> head \o data \o EOL \o crc \o EOL \o tail
       [] f = "noend"    -> head \o EOL \o data \o EOL \o crc \o EOL
       [] f = "endfirst" -> tail \o EOL \o data \o EOL \o crc \o EOL \o head
       [] f = "wrongend" -> head \o EOL \o data \o EOL \o crc \o EOL \o TailLine(t2) \o EOL
       [] f = "lf"       -> SelectSeq(head \o EOL \o data \o EOL \o crc \o EOL \o tail, NotCR)   \* LF line ends
       [] f = "wsblank"  -> head \o <<32, 9>> \o EOL \o data \o EOL \o crc \o EOL \o tail    \* "blank" line of white space
Accepted(f) == f \in {"none", "lf", "wsblank"}
CaseArmorBad(k) ==
  LET f == At(Faults, k)
      n == At(BadLens, k \div Len(Faults))
      t == ArmorTypeOf((k \div Len(Faults)) \div Len(BadLens))
      b == Pat(n, Seed + 3)
  IN [op |-> "armordec", i |-> i, in |-> [a |-> ArmorFault(t, b, f), fault |-> f, t |-> t, n |-> n],
      exp |-> IF Accepted(f) THEN [dt |-> t, dd |-> b] ELSE [dt |-> 0, dd |-> <<>>]]
NArmorBad == Len(Faults) * Len(BadLens) * 4

-----------------------------------------------------------------------------
(* len: every body length 0..LenExh and the special ones, encoder and decoder *)
LenExh == 8500
LenSpecial == << <<0, 65534>>, <<0, 65535>>, <<1, 0>>, <<1, 1>>, <<255, 65535>>, <<256, 0>>, <<256, 1>>,
                 <<32767, 65535>>, <<32768, 0>>, <<32768, 1>>, <<43690, 21845>>, <<65535, 65534>>, <<65535, 65535>> >>
LenOf(k) == IF k <= LenExh THEN <<0, k>> ELSE LenSpecial[k - LenExh]
NLen == LenExh + Len(LenSpecial)
DecRec(d) == [hl |-> d.hl, len |-> d.len, part |-> d.part]
CaseLen(k) == LET p == LenOf(k)  e == LenNewP(p) IN
  [op |-> "len", i |-> i, in |-> [n |-> p, os |-> e \o <<7, 7>>],
   exp |-> [enc |-> e, dec |-> DecRec(LenNewDecode(e \o <<7, 7>>))]]
ThmLen(k) == LET p == LenOf(k)  e == LenNewP(p)  d == LenNewDecode(e \o <<7, 7>>) IN
  /\ d.hl = Len(e) /\ d.len = p /\ ~d.part
  /\ Len(e) \in {1, 2, 5}
  /\ (p[1] = 0 /\ p[2] < 192) <=> Len(e) = 1
  /\ (p[1] = 0 /\ p[2] >= 192 /\ p[2] < 8384) <=> Len(e) = 2
  /\ (k > 0 /\ k <= LenExh) => LenNewP(LenOf(k - 1)) # e                    \* injective along the chain

(* lenx, mpix (thorough): the exhaustive ranges continued up to 70000 *)
CaseLenX(k) == LET p == Pair(LenExh + 1 + k)  e == LenNewP(p) IN
  [op |-> "len", i |-> i, in |-> [n |-> p, os |-> e \o <<7, 7>>],
   exp |-> [enc |-> e, dec |-> DecRec(LenNewDecode(e \o <<7, 7>>))]]
ThmLenX(k) == LET p == Pair(LenExh + 1 + k)  e == LenNewP(p)  d == LenNewDecode(e \o <<7, 7>>) IN
  d.hl = 5 /\ d.len = p /\ ~d.part /\ Len(e) = 5

(* lendec: the decoder on every first octet, with four different continuations and for new and old format *)
Conts == << <<0, 0, 0, 0>>, <<255, 255, 255, 255>>, <<1, 2, 3, 4>>, <<>>, <<200>>, <<128, 0, 0>> >>
CaseLenDec(k) ==
  LET o == k % 256
      os == <<o>> \o At(Conts, k \div 256)
      fmt == (k \div (256 * Len(Conts)))                     \* 0 = new format, 1..3 = old format length-type 0..2
      d == IF fmt = 0 THEN LenNewDecode(os) ELSE LenOldDecode(os, fmt - 1)
  IN [op |-> "lendec", i |-> i, in |-> [os |-> os, new |-> (fmt = 0), lt |-> IF fmt = 0 THEN 0 ELSE fmt - 1],
      exp |-> [dec |-> DecRec(d)]]
NLenDec == 256 * Len(Conts) * 4
ThmLenDec(k) ==
  LET o == k % 256  os == <<o>> \o At(Conts, k \div 256)  d == LenNewDecode(os) IN
  /\ d.hl \in {0, 1, 2, 5}
  /\ d.part <=> (o >= 224 /\ o <= 254)
  /\ d.part => (d.hl = 1 /\ \E e \in 0..30 : d.len = Pair(2 ^ e) /\ e = o - 224)
  /\ (d.hl = 0) <=> ((o >= 192 /\ o < 224 /\ Len(os) < 2) \/ (o = 255 /\ Len(os) < 5))

(* tag: packet tag octets; encoder for every tag, PacketBodyExtract for every first octet *)
CaseTagEnc(t) == [op |-> "tagenc", i |-> i, in |-> [t |-> t], exp |-> [enc |-> <<TagNew(t)>>]]
BodyOfK(k) == Pat(At(<<0, 1, 5, 191, 192, 300>>, k \div 256), Seed)
LenOldEnc(lt, n) == CASE lt = 0 -> BE(n, 1) [] lt = 1 -> BE(n, 2) [] lt = 2 -> BE(n, 4) [] OTHER -> <<>>
CaseBodyExtract(k) ==
  LET o == k % 256
      td == TagDecode(o)
      body == IF ~td.new /\ td.lt = 3 /\ BodyOfK(k) = <<>> THEN <<42>> ELSE BodyOfK(k)   \* (indeterminate length and empty: not a case)
      fits == td.new \/ td.lt # 0 \/ Len(body) < 256
      hdr == IF td.new THEN LenNew(Len(body)) ELSE LenOldEnc(td.lt, Len(body))
      junk == IF ~td.new /\ td.lt = 3 THEN <<>> ELSE <<9, 9, 9>>       \* indeterminate length: body runs to the end
      ok == td.ok /\ fits /\ td.tag # 0                                 \* tag 0 is reserved and must not be used
  IN [op |-> "extract", i |-> i, in |-> [os |-> <<o>> \o hdr \o (IF fits THEN body ELSE <<>>) \o junk],
      exp |-> IF ok THEN [ret |-> td.tag, body |-> body] ELSE [ret |-> 0, body |-> <<>>]]
NBodyExtract == 256 * 6
ThmTag(k) == LET o == k % 256  td == TagDecode(o) IN
  /\ td.ok <=> o >= 128
  /\ (td.ok /\ td.new) => (TagNew(td.tag) = o /\ td.tag \in 0..63)
  /\ (td.ok /\ ~td.new) => (TagOld(td.tag, td.lt) = o /\ td.tag \in 0..15 /\ td.lt \in 0..3)

(* partial: packets cut into partial-body chunks, valid and invalid *)
P(n) == [part |-> TRUE, n |-> n]
F(n) == [part |-> FALSE, n |-> n]
Chunkings == <<
  <<P(512), F(0)>>, <<P(512), F(1)>>, <<P(512), F(191)>>, <<P(512), F(192)>>, <<P(512), F(300)>>,
  <<P(1024), F(5)>>, <<P(512), P(512), F(0)>>, <<P(512), P(1), F(2)>>, <<P(512), P(256), P(2), F(200)>>,
  <<P(2048), P(1), P(1), F(0)>>, <<P(512), P(4), F(8383)>>, <<P(512), P(4), F(8384)>>,
  <<F(700)>>,
  \* invalid: first partial chunk shorter than 512, packet ending with a partial chunk
  <<P(256), F(300)>>, <<P(1), F(600)>>, <<P(512), P(8)>>, <<P(512)>> >>
PartTags == <<11, 8, 9, 18, 2, 6, 13, 1>>
CasePartial(k) ==
  LET ch == At(Chunkings, k)
      t == At(PartTags, k \div Len(Chunkings))
      body == Pat(SumN(ch), Seed + t)
      ok == ChunkingValid(t, body, ch)
  IN [op |-> "extract", i |-> i, in |-> [os |-> PartialPacket(t, body, ch) \o (IF ch[Len(ch)].part THEN <<>> ELSE <<9, 9>>)],
      exp |-> IF ok THEN [ret |-> t, body |-> body] ELSE [ret |-> 0, body |-> <<>>]]
NPartial == Len(Chunkings) * Len(PartTags)

-----------------------------------------------------------------------------
(* mpi: integers as octet strings; every value 0..MpiExh (with 0..2 leading zero octets), powers of two and *)
(* their neighbours up to 2^72; then decoder-only cases with arbitrary bit counts and truncated input        *)
MpiExh == 1100
MinBE(n) == StripZ(BE(n, 4))
Pow2(k) == <<2 ^ (k % 8)>> \o Rep(0, k \div 8)                       \* 2^k
Pow2m1(k) == (IF k % 8 = 0 THEN <<>> ELSE <<2 ^ (k % 8) - 1>>) \o Rep(255, k \div 8)     \* 2^k - 1
Pow2p1(k) == <<2 ^ (k % 8)>> \o Rep(0, (k \div 8) - 1) \o <<1>>      \* 2^k + 1, k >= 8
MpiValue(k) ==
  IF k <= MpiExh THEN Rep(0, k % 3) \o MinBE(k)
  ELSE LET j == k - MpiExh - 1  e == 8 + (j \div 3) IN
       Rep(0, j % 2) \o (CASE j % 3 = 0 -> Pow2m1(e) [] j % 3 = 1 -> Pow2(e) [] OTHER -> Pow2p1(e))
NMpi == MpiExh + 1 + 3 * 65
CaseMpi(k) == LET v == MpiValue(k)  e == MPI(v) IN
  [op |-> "mpi", i |-> i, in |-> [v |-> v, os |-> e \o <<5, 6>>],
   exp |-> [enc |-> e, used |-> MPIDecode(e \o <<5, 6>>).used, val |-> MPIDecode(e \o <<5, 6>>).val,
            sum |-> SumOctets(e)]]
ThmMpi(k) == LET v == MpiValue(k)  e == MPI(v)  d == MPIDecode(e \o <<5, 6>>) IN
  /\ d.used = Len(e) /\ d.val = StripZ(v)
  /\ Len(e) = 2 + Len(StripZ(v))
  /\ e[1] * 256 + e[2] = MPIBits(v)
  /\ (Len(e) > 2 => e[3] # 0)
  /\ (k <= MpiExh /\ k > 0) => (2 ^ (MPIBits(v) - 1) <= k /\ k < 2 ^ MPIBits(v))
  /\ (k = 0) => e = <<0, 0>>
CaseMpiX(k) == LET n == 1101 + k  v == Rep(0, n % 2) \o MinBE(n)  e == MPI(v) IN
  [op |-> "mpi", i |-> i, in |-> [v |-> v, os |-> e \o <<5, 6>>],
   exp |-> [enc |-> e, used |-> MPIDecode(e \o <<5, 6>>).used, val |-> MPIDecode(e \o <<5, 6>>).val, sum |-> SumOctets(e)]]
ThmMpiX(k) == LET n == 1101 + k  v == MinBE(n)  e == MPI(v) IN
  MPIDecode(e).val = v /\ MPIDecode(e).used = Len(e) /\ 2 ^ (MPIBits(v) - 1) <= n /\ n < 2 ^ MPIBits(v) /\ Val(v) = n
BitCounts == <<0, 1, 7, 8, 9, 15, 16, 17, 63, 64, 65, 255, 256, 257, 1023, 1024, 2048>>
CaseMpiDec(k) ==
  LET bits == At(BitCounts, k)
      n == (bits + 7) \div 8
      short == (k \div Len(BitCounts)) % 2 = 1                   \* one octet missing
      full == PatNZ(n, Seed + k)
      os == BE(bits, 2) \o (IF short /\ n > 0 THEN SubSeq(full, 1, n - 1) ELSE full \o <<5>>)
      d == MPIDecode(os)
  IN [op |-> "mpidec", i |-> i, in |-> [os |-> os], exp |-> [used |-> d.used, val |-> d.val]]
NMpiDec == 2 * Len(BitCounts)

(* s2kcount: the 256 coded counts *)
ThmS2K(c) ==
  /\ S2KCount(c) >= 1024 /\ S2KCount(c) <= 65011712
  /\ (c > 0 => S2KCount(c - 1) < S2KCount(c))
  /\ S2KCount(0) = 1024 /\ S2KCount(255) = 65011712 /\ S2KCount(96) = 65536
CaseS2K(c) == [op |-> "s2kcount", i |-> i, in |-> [c |-> c], exp |-> [count |-> S2KCount(c)]]

-----------------------------------------------------------------------------
(* pkt: packet encoders, field by field; the emitted octets must be the ones the RFC lays out, and the   *)
(* library's own decoder must recover the fields from the spec's octets                                  *)
KeyId(k) == Pat(8, Seed + k)
Time0 == <<24000, 4660>>                                 \* 0x5DC01234
LitLens == <<0, 1, 185, 186, 187, 300>>
UidLens == <<0, 1, 2, 191, 192, 193, 300>>
MpiSizes == <<1, 2, 16, 31, 32, 33, 128, 129>>
Mp(k, salt) == LET n == At(MpiSizes, k) IN <<1 + ((k * 29 + salt) % 255)>> \o Pat(n - 1, Seed + salt + k)
OidP256 == <<42, 134, 72, 206, 61, 3, 1, 7>>
OidEd25519 == <<43, 6, 1, 4, 1, 218, 71, 15, 1>>
OidCv25519 == <<43, 6, 1, 4, 1, 151, 85, 1, 5, 1>>
PubAlgos == <<1, 2, 3, 16, 17, 19, 22, 18>>
PubMaterial(algo, k) ==
  CASE algo \in {1, 2, 3} -> [mpis |-> <<Mp(k + 4, 1), <<1, 0, 1>>>>, oid |-> <<>>, kdf |-> <<0, 0>>,
                               octets |-> MPIs(<<Mp(k + 4, 1), <<1, 0, 1>>>>)]
    [] algo = 16 -> [mpis |-> <<Mp(k + 5, 1), Mp(k, 2), Mp(k + 1, 3)>>, oid |-> <<>>, kdf |-> <<0, 0>>,
                     octets |-> MPIs(<<Mp(k + 5, 1), Mp(k, 2), Mp(k + 1, 3)>>)]
    [] algo = 17 -> [mpis |-> <<Mp(k + 6, 1), Mp(k + 2, 2), Mp(k, 3), Mp(k + 1, 4)>>, oid |-> <<>>, kdf |-> <<0, 0>>,
                     octets |-> MPIs(<<Mp(k + 6, 1), Mp(k + 2, 2), Mp(k, 3), Mp(k + 1, 4)>>)]
    [] algo = 19 -> [mpis |-> <<<<4>> \o Pat(64, Seed + k)>>, oid |-> OidP256, kdf |-> <<0, 0>>,
                     octets |-> ECMaterial(19, OidP256, <<4>> \o Pat(64, Seed + k), 0, 0)]
    [] algo = 22 -> [mpis |-> <<<<64>> \o Pat(32, Seed + k)>>, oid |-> OidEd25519, kdf |-> <<0, 0>>,
                     octets |-> ECMaterial(22, OidEd25519, <<64>> \o Pat(32, Seed + k), 0, 0)]
    [] algo = 18 -> [mpis |-> <<<<64>> \o Pat(32, Seed + k)>>, oid |-> OidCv25519, kdf |-> <<8, 7>>,
                     octets |-> ECMaterial(18, OidCv25519, <<64>> \o Pat(32, Seed + k), 8, 7)]
CasePub(k, sub, v5) ==
  LET algo == At(PubAlgos, k)
      m == PubMaterial(algo, k)
      body == IF v5 THEN BodyPubV5(Time0, algo, m.octets) ELSE BodyPubV4(Time0, algo, m.octets)
  IN [op |-> "pub", i |-> i,
      in |-> [sub |-> sub, v |-> IF v5 THEN 5 ELSE 4, time |-> Time0, algo |-> algo, mpis |-> m.mpis, oid |-> m.oid, kdf |-> m.kdf,
              os |-> Packet(IF sub THEN 14 ELSE 6, body)],
      exp |-> [enc |-> Packet(IF sub THEN 14 ELSE 6, body),
               dec |-> [ret |-> IF sub THEN 14 ELSE 6, v |-> IF v5 THEN 5 ELSE 4, time |-> Time0, algo |-> algo,
                        mpis |-> [j \in 1..Len(m.mpis) |-> StripZ(m.mpis[j])], oid |-> m.oid, kdf |-> m.kdf]]]
SubTypes == <<2, 9, 11, 16, 21, 27, 30, 33, 20, 100>>
SubLens == <<0, 1, 4, 8, 190, 191, 192, 300>>
CaseSec(k, sub) ==
  LET algo == IF k % 2 = 0 THEN 17 ELSE 16
      m == PubMaterial(algo, k)
      x == Mp(k + 3, 9)
      tag == IF sub THEN 7 ELSE 5
      os == Packet(tag, BodyPubV4(Time0, algo, m.octets) \o SecretClear(<<x>>))
  IN [op |-> "sec", i |-> i, in |-> [sub |-> sub, time |-> Time0, algo |-> algo, mpis |-> m.mpis, x |-> x, os |-> os],
      exp |-> [enc |-> os, dec |-> [ret |-> tag, v |-> 4, time |-> Time0, algo |-> algo, s2kconv |-> 0,
                                    mpis |-> [j \in 1..Len(m.mpis) |-> StripZ(m.mpis[j])], x |-> StripZ(x)]]]
PktKinds == << "uid", "lit", "sed", "seipd", "mdc", "aead", "pkeskrsa", "pkeskelg", "pkeskecdh", "sig2", "sig1", "subpkt",
               "pub", "pubv5", "sub", "subv5", "sec", "ssb" >>
CasePkt(k) ==
  LET kind == At(PktKinds, k)
      r == k \div Len(PktKinds)
  IN CASE kind = "uid" -> LET u == PatA(At(UidLens, r), Seed + r) IN
            [op |-> "uid", i |-> i, in |-> [uid |-> u, os |-> PktUid(u)],
             exp |-> [enc |-> PktUid(u), dec |-> [ret |-> 13, uid |-> u]]]
       [] kind = "lit" -> LET d == Pat(At(LitLens, r), Seed + r) IN
            [op |-> "lit", i |-> i, in |-> [time |-> Time0, data |-> d, os |-> PktLit(Time0, d)],
             exp |-> [enc |-> PktLit(Time0, d), dec |-> [ret |-> 11, fmt |-> 98, fnlen |-> 0, time |-> Time0, data |-> d]]]
       [] kind = "sed" -> LET d == Pat(At(UidLens, r), Seed + r) IN
            [op |-> "sed", i |-> i, in |-> [data |-> d], exp |-> [enc |-> PktSed(d)]]
       [] kind = "seipd" -> LET d == Pat(At(UidLens, r), Seed + r) IN
            [op |-> "seipd", i |-> i, in |-> [data |-> d], exp |-> [enc |-> PktSeipd(d)]]
       [] kind = "mdc" -> LET h == Pat(20, Seed + r) IN
            [op |-> "mdc", i |-> i, in |-> [hash |-> h, os |-> PktMdc(h)],
             exp |-> [enc |-> PktMdc(h), dec |-> [ret |-> 19, hash |-> h]]]
       [] kind = "aead" -> LET d == Pat(At(UidLens, r) + 16, Seed + r)  iv == Pat(IF r % 2 = 0 THEN 16 ELSE 15, r) IN
            [op |-> "aead", i |-> i, in |-> [sk |-> 9, aead |-> IF r % 2 = 0 THEN 1 ELSE 2, chunk |-> r % 17, iv |-> iv, data |-> d],
             exp |-> [enc |-> PktAead(9, IF r % 2 = 0 THEN 1 ELSE 2, r % 17, iv, d)]]
       [] kind = "pkeskrsa" -> LET me == Mp((r % 6) + 2, 1 + r) IN       \* 16 octets and more (the decoder wants a body >= 16)
            [op |-> "pkeskrsa", i |-> i, in |-> [keyid |-> KeyId(r), me |-> me, os |-> PktPKESK_RSA(KeyId(r), me)],
             exp |-> [enc |-> PktPKESK_RSA(KeyId(r), me), dec |-> [ret |-> 1, v |-> 3, keyid |-> KeyId(r), algo |-> 1, mpis |-> <<StripZ(me)>>]]]
       [] kind = "pkeskelg" -> LET gk == Mp(r, 2)  myk == Mp(r + 1, 3) IN
            [op |-> "pkeskelg", i |-> i, in |-> [keyid |-> KeyId(r), gk |-> gk, myk |-> myk, os |-> PktPKESK_ELG(KeyId(r), gk, myk)],
             exp |-> [enc |-> PktPKESK_ELG(KeyId(r), gk, myk),
                      dec |-> [ret |-> 1, v |-> 3, keyid |-> KeyId(r), algo |-> 16, mpis |-> <<StripZ(gk), StripZ(myk)>>]]]
       [] kind = "pkeskecdh" -> LET epk == <<64>> \o Pat(32, Seed + r)  rkw == Pat(40 + 8 * (r % 2), Seed + r) IN
            [op |-> "pkeskecdh", i |-> i, in |-> [keyid |-> KeyId(r), epk |-> epk, rkw |-> rkw, os |-> PktPKESK_ECDH(KeyId(r), epk, rkw)],
             exp |-> [enc |-> PktPKESK_ECDH(KeyId(r), epk, rkw),
                      dec |-> [ret |-> 1, v |-> 3, keyid |-> KeyId(r), algo |-> 18, mpis |-> <<StripZ(epk)>>, rkw |-> rkw]]]
       [] kind = "sig2" -> LET h == SigHashedArea(19, 17, 8, SubPkt(2, FALSE, BE32(Time0[1], Time0[2])) \o SubPkt(16, FALSE, KeyId(r)))
                               left == Pat(2, r)  rr == Mp(r, 5)  ss == Mp(r + 1, 6) IN
            [op |-> "sig2", i |-> i, in |-> [hashed |-> h, left |-> left, r |-> rr, s |-> ss],
             exp |-> [enc |-> PktSig(h, left, <<rr, ss>>)]]
       [] kind = "sig1" -> LET h == SigHashedArea(0, 1, 10, SubPkt(2, FALSE, BE32(Time0[1], Time0[2])) \o SubPkt(33, FALSE, <<4>> \o Pat(20, r)))
                               left == Pat(2, r)  ss == Mp(r + 4, 6) IN
            [op |-> "sig1", i |-> i, in |-> [hashed |-> h, left |-> left, s |-> ss],
             exp |-> [enc |-> PktSig(h, left, <<ss>>)]]
       [] kind = "subpkt" -> LET d == Pat(At(SubLens, r), Seed + r)  ty == At(SubTypes, r \div Len(SubLens))  cr == (r % 2 = 1) IN
            [op |-> "subpkt", i |-> i, in |-> [type |-> ty, critical |-> cr, data |-> d],
             exp |-> [enc |-> SubPkt(ty, cr, d)]]
       [] kind = "pub" -> CasePub(r, FALSE, FALSE)
       [] kind = "pubv5" -> CasePub(r, FALSE, TRUE)
       [] kind = "sub" -> CasePub(r, TRUE, FALSE)
       [] kind = "subv5" -> CasePub(r, TRUE, TRUE)
       [] kind = "sec" -> CaseSec(r, FALSE)
       [] kind = "ssb" -> CaseSec(r, TRUE)
(* every emitted packet is tag octet, canonical length, body; and can be cut again at exactly that point *)
ThmPkt(k) ==
  LET c == CasePkt(k)
      e == c.exp.enc
  IN IF c.op = "subpkt" THEN LET d == LenNewDecode(e) IN d.hl > 0 /\ d.len = <<0, Len(e) - d.hl>> /\ ~d.part
     ELSE LET d == LenNewDecode(Tail(e)) IN
          /\ TagDecode(e[1]).ok /\ TagDecode(e[1]).new
          /\ d.hl > 0 /\ ~d.part /\ d.len = <<0, Len(e) - 1 - d.hl>>

(* sigdec: v4 signature packets whose hashed area starts with a filler subpacket (private type 100..102) of every *)
(* critical length, written in every length form that can express it, followed by creation time, issuer and key  *)
(* flags: the library's decoder must find the fields behind the filler                                           *)
FillLens == <<0, 1, 189, 190, 191, 192, 300, 8382, 8383, 8384, 9000, 16318>>
FormsFor(n) == (IF n < 192 THEN {1} ELSE {}) \cup (IF n >= 192 /\ n <= 16319 THEN {2} ELSE {}) \cup {5}
CaseSigDec(k) ==
  LET fl == At(FillLens, k)
      form == At(<<1, 2, 5>>, k \div Len(FillLens))
      valid == form \in FormsFor(fl + 1)
      variant == k \div (3 * Len(FillLens))
      pk == IF variant % 2 = 0 THEN 17 ELSE 1
      ty == At(<<0, 1, 19, 24, 32>>, variant)
      ha == At(<<8, 10, 2>>, variant)
      flags == <<At(<<3, 12, 32>>, variant)>>
      filler == IF valid THEN SubPktForm(form, 100 + (k % 3), FALSE, Pat(fl, Seed + k)) ELSE <<>>
      hs == filler \o SubPkt(2, FALSE, BE32(Time0[1], Time0[2])) \o SubPkt(16, FALSE, KeyId(k)) \o SubPkt(27, FALSE, flags)
      left == Pat(2, k)
      mpis == IF pk = 17 THEN <<Mp(k, 5), Mp(k + 1, 6)>> ELSE <<Mp(k + 4, 6)>>
      os == Packet(2, BodySigV4(ty, pk, ha, hs, <<>>, left, mpis))
  IN [op |-> "sigdec", i |-> i, in |-> [os |-> os, pk |-> pk, fill |-> fl, form |-> IF valid THEN form ELSE 0],
      exp |-> [ret |-> 2, v |-> 4, type |-> ty, pk |-> pk, hash |-> ha, time |-> Time0, issuer |-> KeyId(k), flags |-> flags,
               hlen |-> Len(hs), left |-> left, mpis |-> [j \in 1..Len(mpis) |-> StripZ(mpis[j])]]]
NSigDec == 3 * Len(FillLens) * 5
ThmSigDec(k) ==
  LET c == CaseSigDec(k)
      body == Drop(c.in.os, 1 + LenNewDecode(Tail(c.in.os)).hl)
      h == ParseHashed(SubSeq(body, 1, 6 + c.exp.hlen))
  IN /\ h.ok /\ h.v = 4 /\ h.type = c.exp.type
     /\ \A j \in 1..Len(h.subs) : SubBodyOk(h.subs[j])
     /\ HasOne(h.subs, 2, BE32(Time0[1], Time0[2])) /\ HasOne(h.subs, 16, c.exp.issuer) /\ HasOne(h.subs, 27, c.exp.flags)

-----------------------------------------------------------------------------
Case == CASE Family = "r64b" -> CaseR64(B2(i))
          [] Family = "r64p" -> CaseR64P(i)
          [] Family = "armorbad" -> CaseArmorBad(i)
          [] Family = "len" -> CaseLen(i)
          [] Family = "lendec" -> CaseLenDec(i)
          [] Family = "tagenc" -> CaseTagEnc(i)
          [] Family = "extract" -> CaseBodyExtract(i)
          [] Family = "partial" -> CasePartial(i)
          [] Family = "mpi" -> CaseMpi(i)
          [] Family = "mpidec" -> CaseMpiDec(i)
          [] Family = "s2kcount" -> CaseS2K(i)
          [] Family = "pkt" -> CasePkt(i)
          [] Family = "sigdec" -> CaseSigDec(i)
          [] Family = "r64r" -> CaseR64(RandStr(i))
          [] Family = "lenx" -> CaseLenX(i)
          [] Family = "mpix" -> CaseMpiX(i)
          [] Family = "r64q" -> CaseR64(B2q(i))
          [] Family = "r64pq" -> CaseR64P(QLens[i + 1])
Thm == CASE Family = "r64b" -> ThmR64(B2(i))
         [] Family = "r64p" -> ThmR64(Pat(i, Seed))
         [] Family = "armorbad" -> TRUE
         [] Family = "len" -> ThmLen(i)
         [] Family = "lendec" -> ThmLenDec(i)
         [] Family = "tagenc" -> TagDecode(TagNew(i)) = [ok |-> TRUE, new |-> TRUE, tag |-> i, lt |-> 0]
         [] Family = "extract" -> ThmTag(i)
         [] Family = "partial" -> TRUE
         [] Family = "mpi" -> ThmMpi(i)
         [] Family = "mpidec" -> TRUE
         [] Family = "s2kcount" -> ThmS2K(i)
         [] Family = "pkt" -> ThmPkt(i)
         [] Family = "sigdec" -> ThmSigDec(i)
         [] Family = "r64r" -> ThmR64(RandStr(i))
         [] Family = "lenx" -> ThmLenX(i)
         [] Family = "mpix" -> ThmMpiX(i)
         [] Family = "r64q" -> ThmR64(B2q(i))
         [] Family = "r64pq" -> ThmR64(Pat(QLens[i + 1], Seed))
(* number of cases of a family (Hi in the cfg files is computed from these by checks/c19.py: TLC evaluates them) *)
FamilySize == [r64b |-> 65793, armorbad |-> NArmorBad, len |-> NLen + 1, lendec |-> NLenDec, tagenc |-> 64,
               extract |-> NBodyExtract, partial |-> NPartial, mpi |-> NMpi, mpidec |-> NMpiDec, s2kcount |-> 256,
               sigdec |-> NSigDec, r64q |-> 257 + 256 * 64, r64pq |-> Len(QLens),
               r64r |-> 30000, lenx |-> 70000 - LenExh, mpix |-> 70000 - MpiExh]
(* the index range actually enumerated: a family of fixed size ends at its last case *)
LastOf(fam) == IF fam \in DOMAIN FamilySize THEN Min(Hi, FamilySize[fam] - 1)
               ELSE IF fam = "r64p" THEN Min(Hi, HiR64p) ELSE IF fam = "pkt" THEN Min(Hi, HiPkt) ELSE Hi
(* the groups of families that share one TLC run (checks/c19.py) *)
GrpQ1 == <<"r64q">>
GrpQ2 == <<"r64pq", "armorbad", "partial", "sigdec">>
GrpQ3 == <<"len", "lendec", "extract", "tagenc", "mpidec", "s2kcount">>
GrpQ4 == <<"mpi", "pkt">>
GrpT1 == <<"r64b">>
GrpT2 == <<"r64p">>
GrpT3 == <<"r64r", "lenx", "mpix">>
GrpT4 == <<"armorbad", "partial", "sigdec", "mpi", "pkt">>
Single(fam) == <<fam>>
One_r64b == Single("r64b")  One_r64q == Single("r64q")  One_r64p == Single("r64p")  One_r64pq == Single("r64pq")
One_r64r == Single("r64r")  One_armorbad == Single("armorbad")  One_len == Single("len")  One_lenx == Single("lenx")
One_lendec == Single("lendec")  One_tagenc == Single("tagenc")  One_extract == Single("extract")
One_partial == Single("partial")  One_mpi == Single("mpi")  One_mpix == Single("mpix")  One_mpidec == Single("mpidec")
One_s2kcount == Single("s2kcount")  One_pkt == Single("pkt")  One_sigdec == Single("sigdec")

(* RFC 4880 6.5 examples and the customary CRC-24 check value: they test the oracle itself *)
ASSUME Radix64(<<20, 251, 156, 3, 217, 126>>) = <<70, 80, 117, 99, 65, 57, 108, 43>>       \* FPucA9l+
ASSUME Radix64(<<20, 251, 156, 3, 217>>) = <<70, 80, 117, 99, 65, 57, 107, 61>>            \* FPucA9k=
ASSUME Radix64(<<20, 251, 156, 3>>) = <<70, 80, 117, 99, 65, 119, 61, 61>>                 \* FPucAw==
ASSUME CRC24(<<>>) = CRC24Init
ASSUME CRC24(<<49, 50, 51, 52, 53, 54, 55, 56, 57>>) = 2215682                             \* "123456789" -> 0x21CF02
(* RFC 4880 4.2.2 / 3.2 / 3.7.1.3 worked examples *)
ASSUME LenNew(100) = <<100>> /\ LenNew(1723) = <<197, 251>> /\ LenNew(100000) = <<255, 0, 1, 134, 160>>
ASSUME LenNewDecode(<<239>>).len = Pair(32768) /\ LenNewDecode(<<225>>).len = Pair(2) /\ LenNewDecode(<<240>>).len = Pair(65536)
ASSUME MPI(<<1>>) = <<0, 1, 1>> /\ MPI(<<1, 255>>) = <<0, 9, 1, 255>>
ASSUME S2KCount(96) = 65536
ASSUME PktMdc(Rep(0, 20))[1] = 211 /\ PktMdc(Rep(0, 20))[2] = 20                           \* 0xD3 0x14

Init == fi \in 1..Len(Families) /\ i \in Lo..(Lo + W - 1) /\ i <= LastOf(Families[fi])
Next == i + W <= LastOf(Family) /\ i' = i + W /\ fi' = fi
Spec == Init /\ [][Next]_<<fi, i>>
Theorems == Thm
Emit == PrintT(ToJson([fam |-> Family, c |-> Case]))
=============================================================================
