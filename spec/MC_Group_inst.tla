--------------------------- MODULE MC_Group_inst ---------------------------
(* concrete variant sets for the Group configs (cfg files substitute them)  *)
EXTENDS MC_Group

\* sizes at and around the bit lengths that occur in the box: (3,2) for p=7,q=3 / p=13,q=3; (5,4) for p=23,q=11;
\* (5,3) for p=29,q=7 / p=31,q=5; (6,5) for p=47,q=23; each also refuses the next shorter group
SZ == {<<3, 2>>, <<5, 3>>, <<5, 4>>, <<6, 5>>}
V_dlog == {V("dlog", s[1], s[2], 0, 0, c, 0) : s \in SZ, c \in BOOLEAN}
V_dlog_nc == {V("dlog", s[1], s[2], 0, 0, FALSE, 0) : s \in SZ}
V_qr == {V("qr", s[1], 0, s[2], 0, TRUE, 0) : s \in {<<3, 1>>, <<3, 3>>, <<5, 4>>, <<5, 6>>, <<6, 3>>, <<6, 6>>}}
V_pqgh == {V("pqgh", s[1], s[2], 0, 0, c, 0) : s \in SZ, c \in BOOLEAN}
V_pqg == {V("pqg", s[1], s[2], 0, 0, FALSE, 0) : s \in SZ}
V_com1 == {V("com", s[1], s[2], 0, 0, FALSE, 1) : s \in SZ}
V_com2 == {V("com", s[1], s[2], 0, 0, FALSE, 2) : s \in {<<3, 2>>, <<5, 4>>}}
V_com3 == {V("com", 5, 4, 0, 0, FALSE, 3)}
V_vsshe == {V("com", 5, 4, 0, le, FALSE, 2) : le \in {1, 2, 3}}
V_com2v == V_com2 \cup V_vsshe
V_small == V_dlog \cup V_qr \cup V_pqg \cup V_com1
V_canon == {w \in V_dlog \cup V_pqgh : w.canon}
V_all2 == V_dlog \cup V_qr \cup V_pqgh \cup V_pqg \cup V_com1 \cup V_com2 \cup V_vsshe
=============================================================================
