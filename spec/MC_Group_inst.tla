--------------------------- MODULE MC_Group_inst ---------------------------
(* concrete variant sets for the Group configs (cfg files substitute them)  *)
EXTENDS MC_Group

\* sizes at and around the bit lengths that occur in the box: (3,2) for p=7,q=3 / p=13,q=3; (5,4) for p=23,q=11;
\* (5,3) for p=29,q=7 / p=31,q=5; (6,5) for p=47,q=23; each also refuses the next shorter group
SZ == {<<3, 2>>, <<5, 3>>, <<5, 4>>, <<6, 5>>}
SZ2 == {<<3, 2>>, <<5, 4>>}
QRSZ == {<<3, 1>>, <<3, 3>>, <<5, 4>>, <<5, 6>>, <<6, 3>>, <<6, 6>>}
Dlog(S) == {V("dlog", s[1], s[2], 0, 0, c, 0) : s \in S, c \in BOOLEAN}
QR(S) == {V("qr", s[1], 0, s[2], 0, TRUE, 0) : s \in S}
PQGH(S) == {V("pqgh", s[1], s[2], 0, 0, c, 0) : s \in S, c \in BOOLEAN}
PQG(S) == {V("pqg", s[1], s[2], 0, 0, FALSE, 0) : s \in S}
Com(S, n) == {V("com", s[1], s[2], 0, 0, FALSE, n) : s \in S}
Vsshe(S, L) == {V("com", s[1], s[2], 0, le, FALSE, 2) : s \in S, le \in L}

\* groups of variants: accepting sets of the box for all of them (A_*), neighbourhoods of the well-formed sets for
\* the N_* ones, block = definition by filtering for the D_* ones (the most permissive sizes)
A_one == Dlog(SZ) \cup QR(QRSZ) \cup PQG(SZ)
N_one == Dlog(SZ2) \cup QR({<<3, 3>>, <<5, 4>>, <<6, 3>>}) \cup PQG(SZ2)
D_one == Dlog({<<3, 2>>}) \cup QR({<<3, 1>>}) \cup PQG({<<3, 2>>})
A_com1 == Com(SZ, 1)
A_com1q == Com(SZ2, 1)
D_com1 == Com({<<3, 2>>}, 1)
A_two == PQGH(SZ)
A_twoq == PQGH(SZ2)
D_two == PQGH({<<3, 2>>})
A_com == Com(SZ2, 2) \cup Vsshe({<<3, 2>>, <<5, 4>>}, {1, 2, 3})
A_comq == Com(SZ2, 2) \cup Vsshe({<<5, 4>>}, {2, 3})
N_comq == Com({<<5, 4>>}, 2) \cup Vsshe({<<5, 4>>}, {2})
N_com == Com(SZ2, 2) \cup Vsshe({<<5, 4>>}, {1, 2})
A_com3 == Com({<<5, 4>>}, 3)
None == {}
E_one == {V("pqg", 3, 2, 0, 0, FALSE, 0)}
\* variants that need the oracle
V_canon == {V("dlog", 1, 1, 0, 0, TRUE, 0)}
=============================================================================
