#!/usr/bin/env python3
"""writes the MC_Group_*.cfg files (kept in git; re-run after changing the table)"""
base = """SPECIFICATION Spec
CONSTANTS
 MaxP = %(maxp)d
 MaxQ = %(maxq)d
 MaxK = %(maxk)d
 Margin = %(margin)d
 Variants <- %(variants)s
 NaiveMaxP = %(naive)d
 Mode = "%(mode)s"
 CheckArith = %(arith)s
INVARIANTS %(inv)s
CHECK_DEADLOCK FALSE
"""
THEOREMS = "BlockIsDefinition Sound Complete Shape Elements Emit"
def cfg(name, **kw):
    d = dict(maxp=47, maxq=23, maxk=7, margin=4, variants="V_small", naive=13, mode="nbr", inv=THEOREMS, arith="FALSE")
    d.update(kw)
    open(name + ".cfg", "w").write(base % d)

# oracle strings needed for the canonical generators of a box (printed only; repeated until none is missing)
cfg("MC_Group_needs_q", variants="V_canon", mode="needs", inv="Emit")
cfg("MC_Group_needs_t", variants="V_canon", mode="needs", inv="Emit", maxp=90, maxq=45, maxk=10)
# quick: box p<=47, q<=23, k<=7, generators -4..p+4
cfg("MC_Group_q_small", variants="V_small", arith="TRUE")                       # dlog, qr, pqg, com n=1: blocks + neighbourhoods
cfg("MC_Group_q_pqgh", variants="V_pqgh", naive=11)                # two-generator classes: blocks + neighbourhoods
cfg("MC_Group_q_com", variants="V_com2v", maxp=23, maxq=11, naive=5)   # n=2: neighbourhoods up to p=23
cfg("MC_Group_q_comacc", variants="V_com2v", mode="acc", naive=0)      # n=2: accepting sets of the whole box
# thorough: box p<=90, q<=45, k<=10
T = dict(maxp=90, maxq=45, maxk=10)
cfg("MC_Group_t_small", variants="V_small", naive=23, arith="TRUE", **T)
cfg("MC_Group_t_pqgh", variants="V_pqgh", naive=17, **T)
cfg("MC_Group_t_com", variants="V_com2v", naive=7, maxp=47, maxq=23, maxk=7)
cfg("MC_Group_t_comacc", variants="V_com2v", mode="acc", naive=0, **T)
cfg("MC_Group_t_com3", variants="V_com3", maxp=23, maxq=11, maxk=7, naive=0)
