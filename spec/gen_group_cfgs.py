#!/usr/bin/env python3
"""writes the MC_Group_*.cfg files (kept in git; re-run after changing the table)"""
base = """SPECIFICATION Spec
CONSTANTS
 MaxP = %(maxp)d
 MaxQ = %(maxq)d
 MaxK = %(maxk)d
 Margin = %(margin)d
 Variants <- %(variants)s
 NaiveMaxP = %(naive)d
 NaiveVariants <- %(nv)s
 AccMaxP = %(accp)d
 NbrMaxP = %(nbrp)d
 NbrVariants <- %(nbrv)s
 Mode = "%(mode)s"
 CheckArith = %(arith)s
 SortedBases = %(sorted)s
INVARIANTS %(inv)s
CHECK_DEADLOCK FALSE
"""
THEOREMS = "BlockIsDefinition BlockSound Sound Complete Shape Elements Emit"
def cfg(name, **kw):
    d = dict(maxp=47, maxq=23, maxk=7, margin=4, variants="A_one", naive=0, nv="None", accp=1000, nbrp=0, nbrv="None", mode="nbr",
             inv=THEOREMS, arith="FALSE", sorted="TRUE")
    d.update(kw)
    open(name + ".cfg", "w").write(base % d)

Q = dict(maxp=47, maxq=23, maxk=7)          # quick box
T = dict(maxp=90, maxq=45, maxk=10)         # thorough box
# member sets for the element checks: every p >= 1, every q of the box (also groups that are not well-formed)
cfg("MC_Group_q_elem", variants="E_one", mode="elem", inv="Emit", **Q)
cfg("MC_Group_t_elem", variants="E_one", mode="elem", inv="Emit", **T)
# per group of variants: accepting set of every block of the box (printed), block = definition for the small blocks,
# state machine  well-formed set -> single-field corruption  with all theorems in every state, neighbourhoods printed
cfg("MC_Group_q_one", variants="A_one", nv="D_one", naive=13, nbrv="N_one", nbrp=47, arith="TRUE", **Q)
cfg("MC_Group_q_com1", variants="A_com1q", nv="D_com1", naive=7, nbrv="A_com1q", nbrp=31, maxp=31, maxq=15, maxk=7)
cfg("MC_Group_q_two", variants="A_twoq", nv="D_two", naive=11, nbrv="A_twoq", nbrp=31, **Q)
cfg("MC_Group_q_com2", variants="A_comq", nbrv="N_comq", nbrp=23, accp=13, maxp=23, maxq=11, maxk=3)
cfg("MC_Group_t_one", variants="A_one", nv="D_one", naive=29, nbrv="N_one", nbrp=90, arith="TRUE", **T)
cfg("MC_Group_t_com1", variants="A_com1", nv="D_com1", naive=13, nbrv="A_com1q", nbrp=47, accp=47, **T)
cfg("MC_Group_t_two", variants="A_two", nv="D_two", naive=17, nbrv="A_twoq", nbrp=47, accp=60, **T)
cfg("MC_Group_t_com2", variants="A_com", nbrv="N_com", nbrp=31, accp=19, **Q)   # (filtering a whole n=2 block exceeds TLC's set size limit from p=9 on)
cfg("MC_Group_t_com3", variants="A_com3", nbrv="A_com3", nbrp=23, accp=11, maxp=23, maxq=11, maxk=3)
