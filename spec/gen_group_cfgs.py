#!/usr/bin/env python3
"""writes the MC_Group_*.cfg files (kept in git; re-run after changing the table)"""
base = """SPECIFICATION Spec
CONSTANTS
 MaxP = %(maxp)d
 MaxQ = %(maxq)d
 MaxK = %(maxk)d
 Margin = %(margin)d
 Variants <- %(variants)s
 NaiveMaxP = %(naive)d
 Mode = "%(mode)s"
 CheckArith = %(arith)s
 SortedBases = %(sorted)s
INVARIANTS %(inv)s
CHECK_DEADLOCK FALSE
"""
THEOREMS = "BlockIsDefinition Sound Complete Shape Elements Emit"
def cfg(name, **kw):
    d = dict(maxp=47, maxq=23, maxk=7, margin=4, variants="A_one", naive=0, mode="acc", inv=THEOREMS, arith="FALSE", sorted="TRUE")
    d.update(kw)
    open(name + ".cfg", "w").write(base % d)

Q = dict(maxp=47, maxq=23, maxk=7)          # quick box
QN = dict(maxp=31, maxq=15, maxk=7)         # quick: well-formed sets up to p = 31 get their neighbourhoods explored
T = dict(maxp=90, maxq=45, maxk=10)         # thorough box
# oracle strings needed for the canonical generators of a box (printed only; repeated until none is missing)
cfg("MC_Group_needs_q", variants="V_canon", mode="needs", inv="Emit", **Q)
cfg("MC_Group_needs_t", variants="V_canon", mode="needs", inv="Emit", **T)
# member sets for the element checks: every p >= 1, every q of the box (also groups that are not well-formed)
cfg("MC_Group_q_elem", variants="E_one", mode="elem", inv="Emit", **Q)
cfg("MC_Group_t_elem", variants="E_one", mode="elem", inv="Emit", **T)
# accepting sets of the whole box, block by block; small blocks are also computed by filtering (BlockIsDefinition)
cfg("MC_Group_q_acc1", variants="A_one", naive=13, arith="TRUE", **Q)
cfg("MC_Group_q_acc2", variants="A_two", naive=11, **Q)
cfg("MC_Group_q_acc3", variants="A_com", naive=5, **Q)
cfg("MC_Group_t_acc1", variants="A_one", naive=23, arith="TRUE", **T)
cfg("MC_Group_t_acc2", variants="A_two", naive=17, **T)
cfg("MC_Group_t_acc3", variants="A_com", naive=7, **T)
cfg("MC_Group_t_acc4", variants="A_com3", naive=5, maxp=47, maxq=23, maxk=7)
# state machine: well-formed set -> single-field corruption, all theorems in every state, neighbourhoods printed
cfg("MC_Group_q_nbr1", variants="N_one", mode="nbr", **Q)
cfg("MC_Group_q_nbr2", variants="N_com1", mode="nbr", **QN)
cfg("MC_Group_q_nbr3", variants="N_two", mode="nbr", **QN)
cfg("MC_Group_q_nbr4", variants="N_com", mode="nbr", maxp=23, maxq=11, maxk=7)
cfg("MC_Group_t_nbr1", variants="N_one", mode="nbr", **T)
cfg("MC_Group_t_nbr2", variants="N_com1", mode="nbr", sorted="FALSE", **Q)
cfg("MC_Group_t_nbr3", variants="N_two", mode="nbr", sorted="FALSE", **Q)
cfg("MC_Group_t_nbr4", variants="N_com", mode="nbr", maxp=47, maxq=23, maxk=7)
cfg("MC_Group_t_nbr5", variants="N_com3", mode="nbr", maxp=23, maxq=11, maxk=7)
