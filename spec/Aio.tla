------------------------------- MODULE Aio -------------------------------
(***************************************************************************)
(* Point-to-point links of libTMCG (classes aiounicast_select and          *)
(* aiounicast_nonblock): N parties, one directed byte stream per ordered   *)
(* pair, a transport (the harness-owned relay) that hands the bytes over   *)
(* in pieces of any size and may rewrite them, and a receiver that         *)
(* reassembles messages from whatever has arrived.                         *)
(*                                                                         *)
(* Written from the framing definition, not from the C++:                  *)
(*   frame  = [IV, once per link, encrypted mode] line NL [tag]            *)
(*   line   = base-62 digits of the integer (plain) or of the ciphertext   *)
(*            octet string '+' || E(digits of integer + 2^256) (encrypted; *)
(*            chunked: ... '|' base-62 message counter), never contains NL *)
(*   tag    = MAC(line NL decimal(sequence number)), MACLEN raw octets     *)
(*   parse  : only when a complete line AND the complete tag are buffered  *)
(*   verify : failure while the expected sequence number is still 1 drops  *)
(*            the frame; any later failure stops the link for good         *)
(* MAC and cipher are oracles: a tag verifies iff (line, sequence number)  *)
(* is exactly what the sender authenticated under that number and the tag  *)
(* is the sender's tag; a ciphertext line decrypts to the sender's value   *)
(* iff the stream cipher is in step (CFB: in-order lines after the genuine *)
(* IV; a wrong IV garbles only the first message; chunked/CTR: the counter *)
(* travels in the line).  Octets are integers 0..255 (model checking uses  *)
(* abstract codes > 255 for oracle outputs); only the value NL = 10 has a  *)
(* meaning for the parser, wherever it occurs (raw tag and IV octets may   *)
(* look like NL).                                                          *)
(*                                                                         *)
(* One operator per public call, all pure functions of a world record W    *)
(* (the configuration is read from the current state, w.cfg),              *)
(* so that they can be chained by generators (AioGen), used as actions     *)
(* (MC_Aio) and re-evaluated against recorded logs (AioTrace):             *)
(*   PutMsg      one frame appended by Send                                *)
(*   DoMove      the transport hands over k octets                         *)
(*   DoSplice    the transport rewrites its pending octets (fault)         *)
(*   DoRecv      Receive(m, i_out, scheduler, timeout 0)                   *)
(*   DoRecvArr   Receive(vector, i_out, scheduler, timeout 0)              *)
(***************************************************************************)
EXTENDS Integers, Sequences, FiniteSets, TLC

CONSTANTS Delim,    \* the value that closes an array in chunked mode (4242424242)
          NoVal     \* "no value" of the value type in use

VARIABLE w          \* the world (record, see WInit); w.cfg is the configuration of the objects, fixed between resets
vars == <<w>>

\* configuration of the library objects (constructor arguments and sizes)
MkCfg(n, variant, auth, enc, chunked, maclen, blk, bufsz) ==
  [n |-> n, variant |-> variant, auth |-> auth, enc |-> enc, chunked |-> chunked, maclen |-> maclen, blk |-> blk, bufsz |-> bufsz]
N       == w.cfg.n         \* parties 0..N-1
Auth    == w.cfg.auth      \* aio_is_authenticated
Enc     == w.cfg.enc       \* aio_is_encrypted
Chunked == w.cfg.chunked   \* aio_is_chunked
Variant == w.cfg.variant   \* "select" | "nonblock"  (the polling variant has no chunked mode: flag ignored)
MACLEN  == w.cfg.maclen    \* tag length when authenticated (32 in the library, 2 in scaled model checking)
BLK     == w.cfg.blk       \* IV length when encrypted (16 / 2)
BUFSZ   == w.cfg.bufsz     \* size of the reassembly buffer per link

Party  == 0..(N - 1)
NL     == 10
BAR    == 124
RR     == 1        \* aio_scheduler_roundrobin
RND    == 2        \* aio_scheduler_random
DIRECT == 3        \* aio_scheduler_direct
Chk    == Chunked /\ Variant = "select"
MacLen == IF Auth THEN MACLEN ELSE 0

--------------------------------------------------------------------------
(* sequences of octets                                                      *)
Take(s, k) == SubSeq(s, 1, k)
Drop(s, k) == SubSeq(s, k + 1, Len(s))
MinOf(S) == CHOOSE x \in S : \A y \in S : x <= y
MaxOf(S) == CHOOSE x \in S : \A y \in S : x >= y
FirstNL(s) == LET S == {k \in 1..Len(s) : s[k] = NL} IN IF S = {} THEN 0 ELSE MinOf(S)
IsPrefix(p, s) == Len(p) <= Len(s) /\ p = Take(s, Len(p))
Contains(s, sub) == \E i \in 0..(Len(s) - Len(sub)) : SubSeq(s, i + 1, i + Len(sub)) = sub

\* base-62 text as GMP writes it: 0-9 A-Z a-z
B62Char(d) == IF d < 10 THEN 48 + d ELSE IF d < 36 THEN 55 + d ELSE 61 + d
RECURSIVE B62(_)
B62(x) == IF x < 62 THEN <<B62Char(x)>> ELSE Append(B62(x \div 62), B62Char(x % 62))
IsB62(c) == (c >= 48 /\ c <= 57) \/ (c >= 65 /\ c <= 90) \/ (c >= 97 /\ c <= 122)

--------------------------------------------------------------------------
(* the world                                                                *)
RxLinkInit == [buf |-> <<>>,       \* buf_in[0..buf_ptr)
               flag |-> FALSE,     \* buf_flag: worth parsing
               ivGot |-> FALSE,    \* iv_flag_in
               ivOk |-> FALSE,     \* the octets taken as IV were the sender's IV
               sqn |-> 1,          \* mac_sqn_in
               nDec |-> 0,         \* lines fed to the stream cipher so far
               desync |-> FALSE]   \* stream cipher out of step for good

WInit(c) ==
  LET P == 0..(c.n - 1)
      Links(x) == [a \in P |-> [b \in P |-> x]]
  IN [cfg    |-> c,
      tx     |-> Links(<<>>),     \* tx[a][b]: frames sent, [v, iv, line, tag]; mac_sqn_out = Len + 1
      wire   |-> Links(<<>>),     \* wire[a][b]: octets written by a, still held by the transport
      sock   |-> Links(<<>>),     \* sock[a][b]: octets handed over, not yet read by b
      lk     |-> Links(RxLinkInit), \* lk[b][a]: b's reassembly state for the stream from a
      cur    |-> [b \in P |-> 0],   \* aio_schedule_current
      curb   |-> [b \in P |-> 0],   \* aio_schedule_buffer
      q      |-> Links(<<>>),     \* q[b][a]: buf_mpz, values received for array assembly
      nfault |-> Links(0),        \* rewrites of wire[a][b] so far
      deliv  |-> Links(<<>>),     \* ghost deliv[b][a]: values returned by the single-message Receive
      arrs   |-> Links(<<>>),     \* ghost arrs[b][a]: arrays returned by the array Receive
      sarrs  |-> Links(<<>>)]     \* ghost sarrs[a][b]: arrays accepted for sending

SentV(W, a, b) == [k \in 1..Len(W.tx[a][b]) |-> W.tx[a][b][k].v]

--------------------------------------------------------------------------
(* sender                                                                   *)
\* the frame of the next message on a -> b is well formed
FrameOK(W, a, b, iv, line, tag) ==
  /\ Len(iv) = (IF Enc /\ W.tx[a][b] = <<>> THEN BLK ELSE 0)
  /\ Len(tag) = MacLen
  /\ Len(line) >= 1
  /\ \A k \in 1..Len(line) : line[k] # NL
FrameBytes(f) == f.iv \o f.line \o <<NL>> \o f.tag
PutMsg(W, a, b, v, iv, line, tag) ==
  LET f == [v |-> v, iv |-> iv, line |-> line, tag |-> tag]
  IN [W EXCEPT !.tx[a][b] = Append(@, f), !.wire[a][b] = @ \o FrameBytes(f)]
\* values that travel for one call of Send(vector): the array, closed by the delimiter in chunked mode
ArrayValues(vs) == IF Chk THEN Append(vs, Delim) ELSE vs

--------------------------------------------------------------------------
(* transport                                                                *)
DoMove(W, a, b, k) ==
  [W EXCEPT !.wire[a][b] = Drop(@, k), !.sock[a][b] = @ \o Take(W.wire[a][b], k)]
\* keep pos octets, drop del, put ins, keep the rest
DoSplice(W, a, b, pos, del, ins) ==
  [W EXCEPT !.wire[a][b] = Take(@, pos) \o ins \o Drop(@, pos + del), !.nfault[a][b] = @ + 1]

--------------------------------------------------------------------------
(* oracles                                                                  *)
MacOk(msgs, sqn, line, tag) == sqn <= Len(msgs) /\ msgs[sqn].line = line /\ msgs[sqn].tag = tag
LineMsg(msgs, line) == LET S == {m \in 1..Len(msgs) : msgs[m].line = line} IN IF S = {} THEN 0 ELSE MinOf(S)

\* value carried by an accepted line; r is the link state after the frame has been consumed
Decode(r, msgs, line) ==
  IF Enc /\ ~Chk
  THEN LET m == r.nDec + 1
           known == m <= Len(msgs)
           same == known /\ msgs[m].line = line
           good == same /\ ~r.desync /\ (m = 1 => r.ivOk)
       IN [ok |-> good, v |-> IF good THEN msgs[m].v ELSE NoVal,
           r |-> [r EXCEPT !.nDec = m, !.desync = @ \/ ~same]]
  ELSE LET m == LineMsg(msgs, line)
       IN [ok |-> m > 0, v |-> IF m > 0 THEN msgs[m].v ELSE NoVal, r |-> r]

--------------------------------------------------------------------------
(* receiver: one visit of one link inside Receive                           *)
\* a complete frame at the head of the buffer is taken; "done" = the call returns now
TryParse(r, msgs) ==
  LET p == FirstNL(r.buf) IN
  IF p = 0 \/ Len(r.buf) - p < MacLen THEN [done |-> FALSE, out |-> "none", v |-> NoVal, r |-> r]
  ELSE LET line == Take(r.buf, p - 1)
           tag  == SubSeq(r.buf, p + 1, p + MacLen)
           rest == Drop(r.buf, p + MacLen)
           cons == [r EXCEPT !.buf = rest, !.flag = (rest # <<>>)]
       IN IF Auth /\ ~MacOk(msgs, r.sqn, line, tag)
          THEN IF r.sqn # 1
               THEN [done |-> TRUE, out |-> "fail", v |-> NoVal, r |-> r]       \* link stopped: nothing consumed
               ELSE [done |-> TRUE, out |-> "fail", v |-> NoVal, r |-> cons]    \* dropped
          ELSE LET r1 == IF Auth THEN [cons EXCEPT !.sqn = @ + 1] ELSE cons
                   d  == Decode(r1, msgs, line)
               IN [done |-> TRUE, out |-> IF d.ok THEN "ok" ELSE "fail", v |-> d.v, r |-> d.r]

\* one read: everything that is available and fits
ReadInto(r, avail, msgs) ==
  LET room == BUFSZ - Len(r.buf)
      k == IF Len(avail) < room THEN Len(avail) ELSE room
      b1 == r.buf \o Take(avail, k)
  IN IF k <= 0 THEN [r |-> r, taken |-> 0]
     ELSE IF Enc /\ ~r.ivGot
          THEN IF Len(b1) >= BLK
               THEN [r |-> [r EXCEPT !.buf = Drop(b1, BLK), !.ivGot = TRUE,
                                     !.ivOk = (Len(msgs) >= 1 /\ Take(b1, BLK) = msgs[1].iv),
                                     !.flag = (Len(b1) > BLK)],
                     taken |-> k]
               ELSE [r |-> [r EXCEPT !.buf = b1], taken |-> k]
          ELSE [r |-> [r EXCEPT !.buf = b1, !.flag = TRUE], taken |-> k]

Visit(r, avail, msgs) ==
  LET t == IF r.flag THEN TryParse(r, msgs) ELSE [done |-> FALSE, out |-> "none", v |-> NoVal, r |-> r] IN
  IF t.done THEN [r |-> t.r, taken |-> 0, out |-> t.out, v |-> t.v]
  ELSE LET rd == ReadInto([r EXCEPT !.flag = FALSE], avail, msgs)
       IN [r |-> rd.r, taken |-> rd.taken, out |-> "none", v |-> NoVal]

--------------------------------------------------------------------------
(* Receive(m, i_out, scheduler, 0): N visits, the first result ends the call *)
PickLink(W, b, sched, who, picks, k) ==
  CASE sched = RR -> W.cur[b] [] sched = RND -> picks[k] [] OTHER -> who

RECURSIVE Rounds(_, _, _, _, _, _)
Rounds(W, b, sched, who, picks, k) ==
  IF k > N THEN [W |-> W, ok |-> FALSE, from |-> IF sched = DIRECT THEN who ELSE N, v |-> NoVal]
  ELSE LET link == PickLink(W, b, sched, who, picks, k)
           W1 == IF sched = RR THEN [W EXCEPT !.cur[b] = (@ + 1) % N] ELSE W
           vr == Visit(W1.lk[b][link], W1.sock[link][b], W1.tx[link][b])
           W2 == [W1 EXCEPT !.lk[b][link] = vr.r, !.sock[link][b] = Drop(@, vr.taken)]
       IN IF vr.out = "none" THEN Rounds(W2, b, sched, who, picks, k + 1)
          ELSE [W |-> IF vr.out = "ok" THEN [W2 EXCEPT !.deliv[b][link] = Append(@, vr.v)] ELSE W2,
                ok |-> vr.out = "ok", from |-> link, v |-> vr.v]

DoRecv(W, b, sched, who, picks) == Rounds(W, b, sched, who, picks, 1)

--------------------------------------------------------------------------
(* Receive(vector, i_out, scheduler, 0): one look at the queue, one Receive  *)
\* chunked mode, the value behind the array is not the delimiter: drop up to and including the last
\* delimiter among the values taken (everything taken when there is none)
Resync(vals, rest) ==
  LET D == {k \in 1..Len(vals) : vals[k] = Delim}
  IN IF D = {} THEN rest ELSE Drop(vals, MaxOf(D)) \o rest

DoRecvArr(W, b, size, sched, who, picks) ==
  LET io == CASE sched = RR -> W.curb[b] [] sched = RND -> picks[1] [] OTHER -> who
      W1 == IF sched = RR THEN [W EXCEPT !.curb[b] = (@ + 1) % N] ELSE W
      pk == IF sched = RND THEN Tail(picks) ELSE picks
      qq == W1.q[b][io]
      enough == Len(qq) >= (IF Chk THEN size + 1 ELSE size)
      vals == Take(qq, size)
      rest == Drop(qq, size)
  IN IF enough /\ (~Chk \/ rest[1] = Delim)
     THEN [W |-> [W1 EXCEPT !.q[b][io] = IF Chk THEN Tail(rest) ELSE rest, !.arrs[b][io] = Append(@, vals)],
           ok |-> TRUE, from |-> io, vs |-> vals]
     ELSE LET W2 == IF enough THEN [W1 EXCEPT !.q[b][io] = Resync(vals, rest)] ELSE W1
              r  == Rounds(W2, b, sched, io, pk, 1)
              W3 == IF r.ok THEN [r.W EXCEPT !.q[b][r.from] = Append(@, r.v)] ELSE r.W
          IN [W |-> W3, ok |-> FALSE, from |-> IF r.ok THEN N ELSE r.from, vs |-> <<>>]

--------------------------------------------------------------------------
(* the property                                                             *)
\* untouched stream: exactly once, unchanged, in sending order - whatever the fragmentation
InOrder(W) == \A a \in Party, b \in Party :
  W.nfault[a][b] = 0 => IsPrefix(W.deliv[b][a], SentV(W, a, b))

\* ... and nothing is lost: once everything has been handed over and the receiver has looked at it
Complete(W) == \A a \in Party, b \in Party :
  (W.nfault[a][b] = 0 /\ W.wire[a][b] = <<>> /\ W.sock[a][b] = <<>> /\ ~W.lk[b][a].flag)
     => (W.deliv[b][a] = SentV(W, a, b) /\ W.lk[b][a].buf = <<>>)

\* authenticated links, any rewriting of the wire: what is delivered is what was sent, in order, at most
\* once, with nothing missing in between.  (The IV is not covered by the tag: a rewritten IV costs the
\* first message of a stream-mode link and nothing else.)
AuthSafe(W) == Auth => \A a \in Party, b \in Party :
  LET d == W.deliv[b][a]  s == SentV(W, a, b)  r == W.lk[b][a]
  IN \/ IsPrefix(d, s)
     \/ (Enc /\ ~Chk /\ r.ivGot /\ ~r.ivOk /\ Len(s) >= 1 /\ IsPrefix(d, Tail(s)))

\* arrays arrive whole and in order
ArraysWhole(W) == \A a \in Party, b \in Party :
  W.nfault[a][b] = 0 => IsPrefix(W.arrs[b][a], W.sarrs[a][b])
=============================================================================
