SPECIFICATION TSpec
INVARIANTS Correct HonestAbort Refusal Curious CuriousPairs OneOnlySmall
POSTCONDITION Accepted
CHECK_DEADLOCK FALSE
