SPECIFICATION Spec
CONSTANTS
 UnansweredRule = TRUE
 FreshImage = FALSE
 N = 3
 T = 1
 GP = 11
 GQ = 5
 GG = 3
 GH = 9
 BadSet = {0}
 CoefA = {1}
 Deltas = {1}
 MaxDev = 1
 Canonical = TRUE
INVARIANTS Inv_Complete Inv_Agree Inv_HonestQualified Inv_ShareV Inv_SharePedersen Inv_DealerConsistent Inv_OneSecret Inv_HonestContribute Inv_HonestNotReconstructed
CHECK_DEADLOCK FALSE
