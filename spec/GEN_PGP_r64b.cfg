\* quick-tier configuration of family r64b (checks/c19.py writes the per-tier/per-seed variant to out/C19/cfg)
SPECIFICATION Spec
CONSTANTS
 Family = "r64b"
 Lo = 0
 Hi = 1000000
 W = 4
 Seed = 1
INVARIANTS Theorems Emit
CHECK_DEADLOCK FALSE
