SPECIFICATION Spec
CONSTANTS
 P = 47
 Q = 23
 N = 2
 LE = 2
 Kind = "c05_v"
 CoinSet = {0}
 RSet = {0}
 PowM <- TabPowM
INVARIANT Theorem
CHECK_DEADLOCK FALSE
