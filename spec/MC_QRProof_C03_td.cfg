SPECIFICATION Spec
CONSTANTS
 Insts <- Insts_C03_td
 MaskOneAsCoded = FALSE
INVARIANT Thm
CHECK_DEADLOCK FALSE
