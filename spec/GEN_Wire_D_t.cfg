SPECIFICATION Spec
CONSTANTS
 MaxPlayers = 32
 MaxTypeBits = 10
 MaxCards = 512
 MaxDkgPlayers = 256
 Fams = {"state"}
 P <- PThorough
INVARIANTS Theorems Emit
CHECK_DEADLOCK FALSE
