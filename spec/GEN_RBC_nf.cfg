SPECIFICATION MCSpec
CONSTANTS
 N = 4
 T = 1
 Honest <- H3
 FixF3 = TRUE
 FixF4 = TRUE
 FixF15 = TRUE
 Prog <- P_two3
 UseDFrom <- None
 DFromWho <- AllParties
 ByzBudget = 4
 ByzAlphabet <- AlphaNFHelp
 InitChan <- ChanA
 InitFifo = FALSE
 GenDepth = 60
 LateParty = 99
INVARIANTS GenPrint
PROPERTIES DeliveryStepP 
CHECK_DEADLOCK FALSE
CONSTRAINT GenStop
