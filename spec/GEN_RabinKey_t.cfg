SPECIFICATION Spec
CONSTANTS
 Tier = "thorough"
 Ops = {"verify", "decrypt", "check"}
 MaxPrime = 31
INVARIANTS Theorems Emit
CHECK_DEADLOCK FALSE
