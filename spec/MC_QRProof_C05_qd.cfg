SPECIFICATION Spec
CONSTANTS
 Insts <- Insts_C05_qd
 MaskOneAsCoded = FALSE
INVARIANT Thm
CHECK_DEADLOCK FALSE
