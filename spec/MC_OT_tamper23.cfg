SPECIFICATION Spec
CONSTANTS
 P = 23
 Q = 11
 Gg = 2
 Vars = {"two", "n", "opt"}
 Ns = {2, 3}
 MsgVecs <- MV23
 CCoins <- C3c
 SCoins <- C1a
 Tamper = TRUE
 PowM <- TabPowM
INVARIANTS Correct HonestAbort Refusal OneOnly Curious CuriousPairs
CHECK_DEADLOCK FALSE
