INIT InitRotC
NEXT NextRotC
INVARIANTS InvRotC
CONSTANTS
 P = 23
 Q = 11
 Gg = 2
 Hh = 3
 Ns = {2, 3, 4}
 CoinSet = {0, 1, 5, 10}
 ChSet <- CS3
 Wide = FALSE
 PowM <- TabPowM
CHECK_DEADLOCK FALSE
