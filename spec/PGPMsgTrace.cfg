SPECIFICATION TSpec
INVARIANTS Report
POSTCONDITION Consumed
CHECK_DEADLOCK FALSE
