SPECIFICATION Spec
CONSTANTS
 P = 11
 Q = 5
 Gg = 4
 Hh = 3
 N = 3
 T = 1
 Strict = FALSE
 Mode = "byz"
 HonP <- PolysConst
 DevP <- PolysConst
INVARIANTS Holds
CHECK_DEADLOCK FALSE
