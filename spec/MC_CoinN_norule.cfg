SPECIFICATION Spec
CONSTANTS
 P = 11
 Q = 5
 Gg = 4
 Hh = 3
 N = 3
 T = 1
 Strict = FALSE
 Mode = "byz"
 HonP <- PolysOne
 DevP <- PolysOne
INVARIANTS Holds
CHECK_DEADLOCK FALSE
