SPECIFICATION Spec
CONSTANTS
 P = 67
 Q = 11
 Gg = 64
 K = 2
 W = 2
 L = 2
 HXS = {1, 7}
 Mode = "card"
INVARIANTS C01_AllShares C01_Missing C01_Sentinel CardInGroup C08_Product C08_Common C03_Schnorr C03_CP C05_NegEquiv C05_Binding C04_CP C02_Mix C02_Glue
CHECK_DEADLOCK FALSE
