------------------------------ MODULE Pedersen ------------------------------
(* Pedersen commitments in a Schnorr group and the values that travel on the  *)
(* wire - the operators shared by the two-party (Coin.tla) and the n-party    *)
(* (CoinN.tla) coin flip.  Written from the definitions.                      *)
EXTENDS Prims

\* ---- Pedersen commitments in the subgroup of order q of Z_p^*;  G = [p, q, g, h]
Member(G, a) == a > 0 /\ a < G.p /\ PowM(a, G.q, G.p) = 1
Commit(G, a, r) == (PowZ(G.g, a, G.p) * PowZ(G.h, r, G.p)) % G.p     \* integer exponents, sign allowed
Subgroup(G) == {x \in 1..(G.p - 1) : PowM(x, G.q, G.p) = 1}
\* a well-formed common reference string
GoodGroup(G) == /\ IsPrime(G.p) /\ IsPrime(G.q) /\ (G.p - 1) % G.q = 0 /\ GCD(G.q, (G.p - 1) \div G.q) = 1
                /\ G.g > 1 /\ G.g < G.p - 1 /\ G.h > 1 /\ G.h < G.p - 1 /\ G.g # G.h
                /\ PowM(G.g, G.q, G.p) = 1 /\ PowM(G.h, G.q, G.p) = 1

\* ---- values on the wire: sign and magnitude; sm = -1: a number too large for the model (>= 2^30, in
\* particular >= p and >= q); sm = -2: a line that is not a number at all
Num(x) == [sg |-> IF x > 0 THEN 1 ELSE IF x < 0 THEN -1 ELSE 0, sm |-> IF x < 0 THEN -x ELSE x]
Junk == [sg |-> 0, sm |-> -2]
Big(s) == [sg |-> s, sm |-> -1]
IsNum(m) == m.sm # -2
Small(m) == m.sm >= 0
Val(m) == m.sg * m.sm
IsMemberMsg(G, m) == IsNum(m) /\ Small(m) /\ m.sg = 1 /\ Member(G, m.sm)
AbsBelowQ(G, m) == IsNum(m) /\ Small(m) /\ m.sm < G.q
\* the opening <<ma, mr>> fits the commitment c: the definition of "matches the earlier commitment"
Matches(G, c, ma, mr) == /\ AbsBelowQ(G, ma) /\ AbsBelowQ(G, mr)
                         /\ Commit(G, Val(ma), Val(mr)) = c

=============================================================================
