SPECIFICATION PSpec
CONSTANTS
 MaskOneAsCoded = TRUE
 Strict = TRUE
POSTCONDITION Accepted
CHECK_DEADLOCK FALSE
