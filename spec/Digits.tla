------------------------------- MODULE Digits -------------------------------
(***************************************************************************)
(* Natural numbers as little-endian digit sequences over a base `Base`.     *)
(* TLC integers are 32 bit; the samplers of libTMCG work on 64-bit words    *)
(* and on big integers, so the specification of their coin -> output map    *)
(* (Sampler.tla) is written over digit sequences.  With Base = 256 a number *)
(* is the byte string the library draws.                                    *)
(*                                                                          *)
(* Every operator here has an integer meaning (Val); MC_Sampler.tla makes   *)
(* TLC check  Val(Op(a,b)) = Val(a) op Val(b)  exhaustively for small bases *)
(* and lengths, so the same text can be trusted at Base = 256.              *)
(* Requirement for TLC: (Base+1) * max small operand < 2^31.                *)
(***************************************************************************)
EXTENDS Integers, Sequences, FiniteSets

CONSTANT Base

Digit == 0..(Base - 1)
IsNum(a) == /\ DOMAIN a = 1..Len(a)
            /\ \A k \in 1..Len(a) : a[k] \in Digit

SetMax(S) == CHOOSE x \in S : \A y \in S : y <= x
SetMin(S) == CHOOSE x \in S : \A y \in S : x <= y

RECURSIVE Trim(_)
Trim(a) == IF a = <<>> THEN a
           ELSE IF a[Len(a)] = 0 THEN Trim(SubSeq(a, 1, Len(a) - 1)) ELSE a

RECURSIVE Val(_)                       \* only for numbers that fit an integer
Val(a) == IF a = <<>> THEN 0 ELSE a[1] + Base * Val(Tail(a))

RECURSIVE FromInt(_)
FromInt(x) == IF x = 0 THEN <<>> ELSE <<x % Base>> \o FromInt(x \div Base)

Rest(a) == IF a = <<>> THEN a ELSE Tail(a)
Lo(a) == IF a = <<>> THEN 0 ELSE a[1]

\* -1 / 0 / 1
Cmp(a, b) ==
  LET x == Trim(a)
      y == Trim(b)
  IN IF Len(x) # Len(y) THEN (IF Len(x) < Len(y) THEN -1 ELSE 1)
     ELSE LET D == {k \in 1..Len(x) : x[k] # y[k]}
          IN IF D = {} THEN 0
             ELSE LET k == SetMax(D) IN IF x[k] < y[k] THEN -1 ELSE 1
Less(a, b) == Cmp(a, b) < 0
LessEq(a, b) == Cmp(a, b) <= 0
EqNum(a, b) == Cmp(a, b) = 0

RECURSIVE AddC(_, _, _)
AddC(a, b, c) ==
  IF a = <<>> /\ b = <<>> THEN (IF c = 0 THEN <<>> ELSE <<c>>)
  ELSE LET x == Lo(a) + Lo(b) + c
       IN <<x % Base>> \o AddC(Rest(a), Rest(b), x \div Base)
Add(a, b) == Trim(AddC(a, b, 0))

\* a - b for a >= b
RECURSIVE SubB(_, _, _)
SubB(a, b, c) ==
  IF a = <<>> THEN <<>>
  ELSE LET x == a[1] - Lo(b) - c
       IN IF x >= 0 THEN <<x>> \o SubB(Tail(a), Rest(b), 0)
          ELSE <<x + Base>> \o SubB(Tail(a), Rest(b), 1)
Sub(a, b) == Trim(SubB(a, b, 0))

\* a * d for a small integer d >= 0
RECURSIVE MulC(_, _, _)
MulC(a, d, c) ==
  IF a = <<>> THEN FromInt(c)
  ELSE LET x == a[1] * d + c
       IN <<x % Base>> \o MulC(Tail(a), d, x \div Base)
MulSmall(a, d) == Trim(MulC(a, d, 0))

RECURSIVE MulR(_, _)
MulR(a, b) == IF b = <<>> THEN <<>>
              ELSE LET hi == MulR(a, Tail(b))
                   IN Add(MulSmall(a, b[1]), IF hi = <<>> THEN <<>> ELSE <<0>> \o hi)
Mul(a, b) == Trim(MulR(Trim(a), Trim(b)))

\* a mod m for a small integer m >= 1 (Horner from the most significant digit)
RECURSIVE ModH(_, _, _, _)
ModH(a, m, k, r) == IF k = 0 THEN r ELSE ModH(a, m, k - 1, (r * Base + a[k]) % m)
ModSmall(a, m) == ModH(a, m, Len(a), 0)

\* a div m for a small integer m >= 1 (short division)
RECURSIVE DivH(_, _, _, _)
DivH(a, m, k, r) == IF k = 0 THEN <<>>
                    ELSE LET x == r * Base + a[k]
                         IN DivH(a, m, k - 1, x % m) \o <<x \div m>>
DivSmall(a, m) == Trim(DivH(a, m, Len(a), 0))

\* general division: the quotient digit of one schoolbook step is the unique d in Digit with
\* d*b <= r < (d+1)*b (r < Base*b holds by construction); found by bisection
RECURSIVE Bisect(_, _, _, _)
Bisect(b, r, lo, hi) ==      \* invariant: lo*b <= r < hi*b
  IF hi - lo = 1 THEN lo
  ELSE LET mid == (lo + hi) \div 2
       IN IF LessEq(MulSmall(b, mid), r) THEN Bisect(b, r, mid, hi) ELSE Bisect(b, r, lo, mid)
QDigit(b, r) == Bisect(b, r, 0, Base)

RECURSIVE DivModH(_, _, _, _)
DivModH(a, b, k, r) ==       \* digits k..1 of a still to be brought down, r = running remainder
  IF k = 0 THEN [q |-> <<>>, r |-> r]
  ELSE LET r1 == Trim(<<a[k]>> \o r)
           d == QDigit(b, r1)
           r2 == Sub(r1, MulSmall(b, d))
           t == DivModH(a, b, k - 1, r2)
       IN [q |-> t.q \o <<d>>, r |-> t.r]
DivMod(a, b) == LET t == DivModH(a, Trim(b), Len(a), <<>>) IN [q |-> Trim(t.q), r |-> t.r]

\* Base^k
Pow(k) == [j \in 1..(k + 1) |-> IF j = k + 1 THEN 1 ELSE 0]

\* number of binary digits (Base must be a power of two)
RECURSIVE BitsOfInt(_)
BitsOfInt(x) == IF x = 0 THEN 0 ELSE 1 + BitsOfInt(x \div 2)
BitLen(a) == LET x == Trim(a) IN IF x = <<>> THEN 0
             ELSE (Len(x) - 1) * (BitsOfInt(Base) - 1) + BitsOfInt(x[Len(x)])

\* fixed-length representation (zero padded on the high side); x must fit
Pad(a, n) == [k \in 1..n |-> IF k <= Len(a) THEN a[k] ELSE 0]
Rev(a) == [k \in 1..Len(a) |-> a[Len(a) + 1 - k]]
=============================================================================
