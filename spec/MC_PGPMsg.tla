----------------------------- MODULE MC_PGPMsg -----------------------------
(* Case generator and small-domain theorem checker for PGPMsg.tla (C20).    *)
(* One state per case (pattern of MC_PGPFrame): for every family of         *)
(* Families, i runs through Lo..Hi in W interleaved chains; in every state  *)
(* TLC checks the theorems of the family (invariant Theorems) and prints    *)
(* the case with the verdicts PGPMsg.tla prescribes (invariant Emit).       *)
(* harness/drv_msg.cc concretises a case with real keys / real ciphertext,  *)
(* alters every octet of every region the grammar denotes, runs the real    *)
(* verification / decryption and reports what happened; checks/c20.py       *)
(* compares with "exp".                                                     *)
EXTENDS PGPMsg, Json, TLCExt, SequencesExt

CONSTANTS Families, Lo, Hi, W, Seed
VARIABLES fi, i
Family == Families[fi]

Pat(n, s) == Tup([k \in 1..n |-> (k * 37 + n * 11 + s * 101 + ((k * k) \div 7)) % 256])
PatA(n, s) == Tup([k \in 1..n |-> 97 + ((k * 7 + s) % 26)])
At(seq, k) == seq[(k % Len(seq)) + 1]
(* text with every line-ending form: LF, CR LF, bare CR, LF LF, trailing blank *)
TextAlphabet == <<97, 98, 32, 10, 13, 10, 99, 13, 10, 10, 100, 9>>
TextPat(n, s) == Tup([k \in 1..n |-> TextAlphabet[((k * 5 + s + (k \div 3)) % Len(TextAlphabet)) + 1]])

-----------------------------------------------------------------------------
(* valid: the validity rules on a grid around every boundary *)
Base == 300000
Es == <<0, 1, 360, 100000>>
NowOffs(e) == <<0 - FutureSlack - 1, 0 - FutureSlack, 1 - FutureSlack, 0 - 1, 0, 1, e - 1, e, e + 1, 200000>>
KOffs == <<0 - 100000, 0 - 1, 0, 1, 100000>>
Hs == <<0, 1, 2, 3, 4, 8, 9, 10, 11, 12, 13, 14, 100>>
\* u: what an attacker put into the unhashed subpacket area (it is not covered by the signature, so nothing in it may
\* take part in the decision): 0 nothing, 1 a creation time equal to "now", 2 an expiration time of 0 (never), 3 both
Us == <<0, 1, 2, 3>>
NValid0 == Len(Es) * 10 * Len(KOffs) * Len(Hs)
NValid == NValid0 * Len(Us)
ValidIn(jj) ==
  LET j == jj % NValid0
      hi == j % Len(Hs)  ki == (j \div Len(Hs)) % Len(KOffs)  ni == (j \div (Len(Hs) * Len(KOffs))) % 10
      ei == j \div (Len(Hs) * Len(KOffs) * 10)
      e == Es[ei + 1]
  IN [c |-> Base, e |-> e, k |-> Base + KOffs[ki + 1], now |-> Base + NowOffs(e)[ni + 1], h |-> Hs[hi + 1],
      u |-> Us[(jj \div NValid0) + 1]]
CaseValid(j) ==
  LET x == ValidIn(j) IN
  [op |-> "valid", i |-> j, in |-> x,
   exp |-> [valid |-> Validity(x.c, x.e, x.k, x.now, x.h), expired |-> ExpiredFlag(x.c, x.e, x.now)]]
ThmValid(j) ==
  LET x == ValidIn(j)  v == Validity(x.c, x.e, x.k, x.now, x.h) IN
  /\ \A d \in {0 - 1000, 7, 100000} : Validity(x.c + d, x.e, x.k + d, x.now + d, x.h) = v     \* only differences matter
  /\ (v = "valid" => x.c >= x.k /\ x.c <= x.now + FutureSlack /\ x.h \in StrongHashes /\ (x.e = 0 \/ x.now < x.c + x.e))
  /\ (v # "invalid" => Validity(x.c, x.e, x.k - 1, x.now, x.h) # "invalid")                    \* an older key never hurts
  /\ (x.h \in WeakHashes => v = "invalid")
  /\ (x.e # 0 /\ x.now > x.c + x.e => v = "invalid" /\ ExpiredFlag(x.c, x.e, x.now) = "yes")
  /\ (x.e = 0 => ExpiredFlag(x.c, x.e, x.now) = "no")

-----------------------------------------------------------------------------
(* sig: signature configurations (kind x version x algorithm x hash) with the verdict of every tamper class *)
KindSeq == <<"binary", "text", "alone", "key", "subkey", "certuid", "certuat">>
VerSeq == <<4, 5>>
PkSeq == <<PkRSA, PkDSA, PkECDSA, PkEDDSA>>
HashSeq == <<8, 9, 10, 11, 12, 14, 2, 3, 1>>
QBits == 160
DocLens == <<0, 1, 55, 64, 200>>
(* the library has PacketSigPrepare... functions for v4 of every kind and for v5 document / standalone signatures *)
LibraryEmits(kind, v) == v = 4 \/ kind \in {"binary", "text", "alone"}
SigCfg(j, ki, vi, pki, hi) ==
  LET kind == KindSeq[ki + 1]  v == VerSeq[vi + 1]  pk == PkSeq[pki + 1]  h == HashSeq[hi + 1]
      ty == At(KindTypes(kind), j)
      n == At(DocLens, j + hi)
  IN [kind |-> kind, v |-> v, type |-> ty, pk |-> pk, hash |-> h, qbits |-> QBits, emits |-> LibraryEmits(kind, v),
      doc |-> IF kind = "binary" THEN Pat(n, Seed + j) ELSE IF kind = "text" THEN TextPat(n, Seed + j) ELSE <<>>,
      uid |-> IF kind = "certuid" THEN PatA(1 + (j % 40), Seed) ELSE <<>>,
      uat |-> IF kind = "certuat" THEN Pat(2 + (j % 60), Seed) ELSE <<>>,
      policy |-> IF j % 4 = 1 THEN PatA(300, j) ELSE IF j % 4 = 2 THEN <<>> ELSE PatA(26, j),   \* policy URI: hashed areas below and above 255 octets
      scope |-> "all", created |-> Base, expires |-> IF j % 3 = 0 THEN 0 ELSE 100000, keycreated |-> Base - 5000, now |-> Base + 77,
      siggrammar |-> SigGrammar(pk), keygrammar |-> KeyGrammar(pk)]
SigFull(j) == SigCfg(j, j \div 72, (j \div 36) % 2, (j \div 9) % 4, j % 9)
(* sigx: every (kind, signature type) pair x version x algorithm x hash *)
KindTypePairs == Flat([k \in 1..Len(KindSeq) |-> Tup([t \in 1..Len(KindTypes(KindSeq[k])) |-> <<k - 1, KindTypes(KindSeq[k])[t]>>])])
SigX(j) == LET kt == KindTypePairs[(j \div 72) + 1] IN [SigCfg(j, kt[1], (j \div 36) % 2, (j \div 9) % 4, j % 9) EXCEPT !.type = kt[2]]
SigQuick(j) == IF j < 56 THEN SigCfg(j, j \div 8, (j \div 4) % 2, j % 4, (j * 5 + (j \div 8)) % 9)
               ELSE LET r == j - 56 IN SigCfg(j, (r * 3) % 7, r % 2, r \div 9, r % 9)
CaseSigOf(j, x) ==
  LET ok == Emittable(x.pk, x.hash, x.qbits)
      val == Validity(x.created, x.expires, x.keycreated, x.now, x.hash)
  IN [op |-> "sig", i |-> j, in |-> x,
      exp |-> [sign |-> IF ok THEN "ok" ELSE "fail",
               untouched |-> [verify |-> "accept", match |-> "accept", valid |-> val],
               table |-> SigTable(x.kind, x.pk)]]
ThmSigOf(x) == /\ ThmSig(x.kind, x.pk)
               /\ x.type \in {At(KindTypes(x.kind), t) : t \in 0..5}
               /\ ClassesOf(x.siggrammar) = SigClasses
               /\ (Emittable(x.pk, x.hash, x.qbits) <=> (x.pk # PkDSA \/ x.hash # 1))     \* only DSA/160 with MD5 is out
(* doclen: documents of every length, binary and text, signature verifies and every octet of the document is bound *)
CaseDocLen(j) ==
  LET n == j \div 2  text == j % 2 = 1
      x == [SigCfg(j, IF text THEN 1 ELSE 0, (j \div 2) % 2, (j \div 4) % 4, 0) EXCEPT
              !.doc = IF text THEN TextPat(n, Seed + j) ELSE Pat(n, Seed + j), !.scope = "obj"]
  IN CaseSigOf(j, x)

(* textcanon: all texts over {a, CR, LF, blank} up to length L as originals, the same set as variants *)
Abc == <<97, 13, 10, 32>>
RECURSIVE StrOf(_, _)
StrOf(len, k) == IF len = 0 THEN <<>> ELSE <<Abc[(k % 4) + 1]>> \o StrOf(len - 1, k \div 4)
Pow4(l) == 4 ^ l
StrIdx(k) == LET l == CHOOSE l \in 0..8 : (Pow4(l) - 1) \div 3 <= k /\ k < (Pow4(l + 1) - 1) \div 3
             IN StrOf(l, k - (Pow4(l) - 1) \div 3)
NStr(L) == (Pow4(L + 1) - 1) \div 3
CaseTextCanon(j, L) ==
  LET o == StrIdx(j) IN
  [op |-> "textcanon", i |-> j, in |-> [orig |-> o, variants |-> Tup([k \in 1..NStr(L) |-> StrIdx(k - 1)]), pk |-> At(PkSeq, j), v |-> At(VerSeq, j)],
   exp |-> [accept |-> Tup([k \in 1..NStr(L) |-> SameText(o, StrIdx(k - 1))])]]
NotCR(b) == b # 13
ThmTextCanon(j) ==
  LET o == StrIdx(j)  c == CanonText(o) IN
  /\ CanonText(c) = c                                                            \* canonical form is a fixed point
  /\ \A k \in 1..Len(c) : c[k] = 10 => k > 1 /\ c[k - 1] = 13                    \* every LF is preceded by CR
  /\ SelectSeq(c, NotCR) = SelectSeq(o, NotCR)                                  \* only CRs are added
  /\ SameText(o, o)

-----------------------------------------------------------------------------
(* seipd: cipher x plaintext length; library encryptor (AES-256 only) and ciphertext made with the plain cipher *)
(* (as another implementation would emit it)                                                                     *)
SeipdCiphers == <<9, 7, 8, 10, 11, 12, 13, 2, 3, 4>>
SeipdLens == <<1, 2, 7, 8, 9, 15, 16, 17, 31, 32, 33, 100>>
NSeipd == (Len(SeipdCiphers) + 1) * Len(SeipdLens)
SeipdStructs == <<<<"sed">>, <<"sedhonest">>, <<"trunc", 1>>, <<"trunc", 20>>, <<"trunc", 22>>, <<"append", 1>>, <<"nomdc">>>>
CaseSeipd(j) ==
  LET ni == j % Len(SeipdLens)  ci == j \div Len(SeipdLens)
      lib == ci = 0
      sk == IF lib THEN 9 ELSE SeipdCiphers[ci]
      n == SeipdLens[ni + 1]
  IN [op |-> "seipd", i |-> j,
      in |-> [sk |-> sk, lib |-> lib, n |-> n, data |-> Pat(n, Seed + j), key |-> Pat(KeyOctets(sk), Seed + 3 * j + 1),
              grammar |-> SeipdGrammar(sk, n), structs |-> SeipdStructs],
      exp |-> [untouched |-> "accept", table |-> SeipdTable,
               structs |-> Tup([k \in 1..Len(SeipdStructs) |-> "refuse"])]]
ThmSeipdCase(j) == /\ ThmSeipd
                   /\ \A sk \in CipherIds : KeyOctets(sk) > 0 /\ BlockOctets(sk) \in {8, 16}

(* sesskey: the session key material handed to the message decryption (5.1) *)
SessFaults == <<"none", "sumlo", "sumhi", "algo", "keyswap", "short", "nosum", "bare">>
CaseSessKey(j) ==
  LET key == Pat(32, Seed + j)
      m == SessionKey(9, key)
      f == SessFaults[(j % Len(SessFaults)) + 1]
      t == CASE f = "none" -> m
             [] f = "sumlo" -> [m EXCEPT ![35] = (m[35] + 1) % 256]
             [] f = "sumhi" -> [m EXCEPT ![34] = (m[34] + 1) % 256]
             [] f = "algo" -> [m EXCEPT ![1] = 7]
             [] f = "keyswap" -> [m EXCEPT ![5] = m[6], ![6] = m[5]]      \* another key with the same sum
             [] f = "short" -> SubSeq(m, 1, 34)
             [] f = "nosum" -> SubSeq(m, 1, 33)                 \* algorithm || key (what ECDH unwrapping yields)
             [] f = "bare" -> key
  IN [op |-> "sesskey", i |-> j, in |-> [key |-> key, given |-> t, fault |-> f, n |-> 40, data |-> Pat(40, j)],
      exp |-> [verdict |-> CASE f \in {"none", "nosum"} -> "accept"
                               [] f = "bare" -> "any"        \* a key without algorithm octet is no session key material of 5.1
                               [] OTHER -> "refuse"]]
ThmSessKey(j) ==
  LET key == Pat(32, Seed + j)  m == SessionKey(9, key) IN
  /\ SessionKeyOk(m) /\ Len(m) = 35
  /\ ~SessionKeyOk([m EXCEPT ![35] = (m[35] + 1) % 256]) /\ ~SessionKeyOk([m EXCEPT ![34] = (m[34] + 1) % 256])
  /\ ~SessionKeyOk([m EXCEPT ![1] = 7])
  /\ m[5] # m[6] /\ SessionKeyOk([m EXCEPT ![5] = m[6], ![6] = m[5]])   \* the sum does not protect the key: the MDC must

-----------------------------------------------------------------------------
(* aead: cipher x mode x chunk size x plaintext length around the chunk boundaries *)
AeadCipherSeq == <<9, 7, 8, 10, 11, 12, 13>>
AeadModes == <<AeadEAX, AeadOCB>>
ChunkOctets == <<0, 1, 2>>
LenAround(c) == LET S == ChunkSize(c) IN
  <<1, 15, 16, 17, S - 1, S, S + 1, 2 * S - 1, 2 * S, 2 * S + 1, 3 * S, 3 * S + 1, 4 * S, 4 * S + 33, 5 * S + 3, 8 * S>>
NLenAround == 16
NAeadFull == Len(AeadCipherSeq) * Len(AeadModes) * Len(ChunkOctets) * NLenAround
NAeadQuick == Len(AeadModes) * Len(ChunkOctets) * NLenAround
(* plaintext: octet o of chunk k is f(o) xor k, so that corresponding blocks of two chunks differ by a constant *)
AeadPlain(c, n) == Tup([p \in 1..n |-> LET o == (p - 1) % ChunkSize(c)  k == (p - 1) \div ChunkSize(c)
                                        IN (((o * 7 + 13) % 251) ^^ k) % 256])
(* structural tampering, chunk numbers from 0: swap two chunks (with their tags), drop / duplicate a chunk, drop the *)
(* final tag, cut octets off the end, move two 16-octet blocks from chunk b into chunk a at the same offsets        *)
Pairs(N) == {<<a, b>> : a \in 0..(N - 1), b \in 0..(N - 1)}
AeadStructs(c, n) ==
  LET N == NChunks(c, n)
      ps == {p \in Pairs(N) : p[1] < p[2]}
      spl == {p \in ps : ChunkLen(c, n, p[1]) >= 32 /\ ChunkLen(c, n, p[2]) >= 32}
  IN SetToSeq({<<"swap", p[1], p[2]>> : p \in ps}) \o SetToSeq({<<"splice", p[1], p[2]>> : p \in spl})
     \o SetToSeq({<<"splice", p[2], p[1]>> : p \in spl})
     \o Tup([k \in 1..N |-> <<"drop", k - 1, 0>>]) \o Tup([k \in 1..N |-> <<"dup", k - 1, 0>>])
     \o <<<<"dropfinal", 0, 0>>, <<"trunc", 1, 0>>, <<"trunc", 16, 0>>, <<"trunc", 17, 0>>, <<"append", 1, 0>>, <<"append", 16, 0>>>>
(* the verdict of a structural tamper from the symbolic model: chunks of 4 blocks (the last one as many as it has), *)
(* block value = chunk number + 1                                                                                    *)
SymPts(c, n) == Tup([k \in 1..NChunks(c, n) |-> Rep(k, Max(1, Min(4, (ChunkLen(c, n, k - 1) + 15) \div 16)))])
CutAt(s, k) == SubSeq(s, 1, k - 1) \o SubSeq(s, k + 1, Len(s))
PutAt(s, k, x) == SubSeq(s, 1, k) \o <<x>> \o SubSeq(s, k + 1, Len(s))
SymStruct(m, st) ==
  LET a == st[2] + 1  b == st[3] + 1 IN
  CASE st[1] = "swap" -> [m EXCEPT !.chunks = [m.chunks EXCEPT ![a] = m.chunks[b], ![b] = m.chunks[a]]]
    [] st[1] = "drop" -> [m EXCEPT !.chunks = CutAt(m.chunks, a)]
    [] st[1] = "dup" -> [m EXCEPT !.chunks = PutAt(m.chunks, a, m.chunks[a])]
    [] st[1] = "splice" -> [m EXCEPT !.chunks[a].blocks = [m.chunks[a].blocks EXCEPT ![1] = m.chunks[b].blocks[1],
                                                                                      ![2] = m.chunks[b].blocks[2]]]
    [] st[1] = "dropfinal" -> [m EXCEPT !.final.ad = <<"absent">>]      \* the octets read as final tag are not the final tag
    [] st[1] = "trunc" -> [m EXCEPT !.final.ad = <<"cut">>]
    [] st[1] = "append" -> [m EXCEPT !.final.ad = <<"shifted">>]
AeadIn(j, si, mi, ci, ni) ==
  LET sk == AeadCipherSeq[si + 1]  aead == AeadModes[mi + 1]  c == ChunkOctets[ci + 1]  n == LenAround(c)[ni + 1]
  IN [sk |-> sk, aead |-> aead, c |-> c, n |-> n, data |-> AeadPlain(c, n), key |-> Pat(KeyOctets(sk), Seed + 5 * j + 2),
      grammar |-> AeadGrammar(sk, aead, c, n), structs |-> AeadStructs(c, n)]
AeadFullIn(j) == AeadIn(j, j \div (2 * 3 * NLenAround), (j \div (3 * NLenAround)) % 2, (j \div NLenAround) % 3, j % NLenAround)
ChunkOctetsX == <<0, 1, 2, 3>>
NAeadX == Len(AeadCipherSeq) * Len(AeadModes) * Len(ChunkOctetsX) * NLenAround
AeadXIn(j) == LET si == j \div (2 * 4 * NLenAround)  mi == (j \div (4 * NLenAround)) % 2  ci == (j \div NLenAround) % 4  ni == j % NLenAround
                  sk == AeadCipherSeq[si + 1]  aead == AeadModes[mi + 1]  c == ChunkOctetsX[ci + 1]  n == LenAround(c)[ni + 1]
              IN [sk |-> sk, aead |-> aead, c |-> c, n |-> n, data |-> AeadPlain(c, n), key |-> Pat(KeyOctets(sk), Seed + 5 * j + 2),
                  grammar |-> AeadGrammar(sk, aead, c, n), structs |-> AeadStructs(c, n)]
AeadQuickIn(j) == AeadIn(j, (j + (j \div NLenAround)) % Len(AeadCipherSeq), j \div (3 * NLenAround), (j \div NLenAround) % 3, j % NLenAround)
CaseAeadOf(j, x) ==
  LET m == SealMessage("rfc", SymPts(x.c, x.n)) IN
  [op |-> "aead", i |-> j, in |-> x,
   exp |-> [untouched |-> "accept", ctlen |-> AeadCiphertextOctets(x.c, x.n), nchunks |-> NChunks(x.c, x.n),
            table |-> [f \in ClassesOf(x.grammar) |-> "refuse"],
            structs |-> Tup([k \in 1..Len(x.structs) |-> Verdict(OpenMessageOk("rfc", 4, SymStruct(m, x.structs[k])))])]]
RECURSIVE GrammarOctets(_)
GrammarOctets(g) == IF g = <<>> THEN 0 ELSE Head(g).n + GrammarOctets(Tail(g))
ThmAeadOf(x) ==
  LET N == NChunks(x.c, x.n)  iv == Pat(IVOctets(x.aead), 7)  m == SealMessage("rfc", SymPts(x.c, x.n)) IN
  /\ N >= 1 /\ \A k \in 0..(N - 1) : ChunkLen(x.c, x.n, k) \in 1..ChunkSize(x.c)
  /\ GrammarOctets(x.grammar) = 4 + IVOctets(x.aead) + AeadCiphertextOctets(x.c, x.n)
  /\ NoncesDistinct(x.c, x.n, iv)
  /\ Nonce(iv, 0) = iv
  /\ \A k \in 0..N : Len(Nonce(iv, k)) = Len(iv) /\ SubSeq(Nonce(iv, k), 1, Len(iv) - 8) = SubSeq(iv, 1, Len(iv) - 8)
  /\ Len(AD(x.sk, x.aead, x.c, 0)) = 13 /\ Len(ADFinal(x.sk, x.aead, x.c, x.n)) = 21
  /\ OpenMessageOk("rfc", 4, m) /\ OpenMessage("rfc", m) = SymPts(x.c, x.n)
  /\ \A k \in 1..Len(x.structs) : ~OpenMessageOk("rfc", 4, SymStruct(m, x.structs[k]))      \* every structural tamper is refused

-----------------------------------------------------------------------------
(* pkesk: public-key encrypted session key packets (5.1, RFC 6637 section 10) in front of a SEIPD packet *)
PkeskGrammar(algo) ==
  <<Hdr, Fix("pversion", 1), Fix("pkeyid", 8), Fix("palgo", 1)>>
  \o (CASE algo = PkRSA -> <<Mpi("pmpihdr", "pmpival")>>
        [] algo = PkELG -> <<Mpi("pmpihdr", "pmpival"), Mpi("pmpihdr", "pmpival")>>
        [] algo = PkECDH -> <<Mpi("pmpihdr", "pmpival"), Len1("pwraplen", "W"), Var("pwrap", "W")>>)
PkeskAlgos == <<PkRSA, PkELG, PkECDH, PkECDH>>
PkeskCurves == <<"", "", "NIST P-256", "NIST P-384">>
KdfParams == <<<<8, 7>>, <<9, 8>>, <<10, 9>>>>
NPkesk == 4 * 3 * 2
CasePkesk(j) ==
  LET ai == j % 4  ki == (j \div 4) % 3  wild == j \div 12 = 1
      algo == PkeskAlgos[ai + 1]
  IN [op |-> "pkesk", i |-> j,
      in |-> [algo |-> algo, curve |-> PkeskCurves[ai + 1], kdfhash |-> KdfParams[ki + 1][1], kdfsym |-> KdfParams[ki + 1][2],
              wildcard |-> wild, n |-> 20 + j, data |-> Pat(20 + j, Seed + j), grammar |-> PkeskGrammar(algo)],
      exp |-> [untouched |-> "accept",
               table |-> [f \in ClassesOf(PkeskGrammar(algo)) |-> IF f = "pmpihdr" THEN "any" ELSE "refuse"]]]

-----------------------------------------------------------------------------
Case == CASE Family = "valid" -> CaseValid(i)
          [] Family = "sig" -> CaseSigOf(i, SigFull(i))
          [] Family = "sigq" -> CaseSigOf(i, SigQuick(i))
          [] Family = "sigx" -> CaseSigOf(i, SigX(i))
          [] Family \in {"doclen", "doclenq"} -> CaseDocLen(i)
          [] Family = "textcanon3" -> CaseTextCanon(i, 3)
          [] Family = "textcanon4" -> CaseTextCanon(i, 4)
          [] Family = "seipd" -> CaseSeipd(i)
          [] Family = "sesskey" -> CaseSessKey(i)
          [] Family = "aead" -> CaseAeadOf(i, AeadFullIn(i))
          [] Family = "aeadq" -> CaseAeadOf(i, AeadQuickIn(i))
          [] Family = "aeadx" -> CaseAeadOf(i, AeadXIn(i))
          [] Family = "textcanon5" -> CaseTextCanon(i, 5)
          [] Family = "pkesk" -> CasePkesk(i)
Thm == CASE Family = "valid" -> ThmValid(i)
         [] Family = "sig" -> ThmSigOf(SigFull(i))
         [] Family = "sigq" -> ThmSigOf(SigQuick(i))
         [] Family = "sigx" -> ThmSigOf(SigX(i))
         [] Family \in {"doclen", "doclenq"} -> TRUE
         [] Family \in {"textcanon3", "textcanon4", "textcanon5"} -> ThmTextCanon(i)
         [] Family = "seipd" -> ThmSeipdCase(i)
         [] Family = "sesskey" -> ThmSessKey(i)
         [] Family = "aead" -> ThmAeadOf(AeadFullIn(i))
         [] Family = "aeadq" -> ThmAeadOf(AeadQuickIn(i))
         [] Family = "aeadx" -> ThmAeadOf(AeadXIn(i))
         [] Family = "pkesk" -> TRUE
FamilySize == [valid |-> NValid, sig |-> 504, sigq |-> 92, sigx |-> 72 * Len(KindTypePairs), aeadx |-> NAeadX, textcanon5 |-> NStr(5), doclen |-> 602, doclenq |-> 142, textcanon3 |-> NStr(3), textcanon4 |-> NStr(4),
               seipd |-> NSeipd, sesskey |-> 4 * Len(SessFaults), aead |-> NAeadFull, aeadq |-> NAeadQuick, pkesk |-> NPkesk]
LastOf(fam) == Min(Hi, FamilySize[fam] - 1)
GrpQ1 == <<"valid", "sesskey", "pkesk", "textcanon3", "doclenq">>
GrpQ2 == <<"sigq", "seipd", "aeadq">>
GrpT1 == <<"valid", "sesskey", "pkesk", "textcanon4", "seipd">>
GrpT2 == <<"sigx">>
GrpT3 == <<"aeadx">>
GrpT4 == <<"doclen">>
One_sigx == <<"sigx">>  One_aeadx == <<"aeadx">>  One_textcanon5 == <<"textcanon5">>  One_doclenq == <<"doclenq">>  One_valid == <<"valid">>  One_sig == <<"sig">>  One_sigq == <<"sigq">>  One_doclen == <<"doclen">>
One_textcanon3 == <<"textcanon3">>  One_textcanon4 == <<"textcanon4">>  One_seipd == <<"seipd">>
One_sesskey == <<"sesskey">>  One_aead == <<"aead">>  One_aeadq == <<"aeadq">>  One_pkesk == <<"pkesk">>

(* the oracle itself: worked examples *)
ASSUME ChunkSize(0) = 64 /\ ChunkSize(10) = 65536
ASSUME NChunks(0, 64) = 1 /\ NChunks(0, 65) = 2 /\ ChunkLen(0, 65, 1) = 1 /\ ChunkLen(0, 128, 1) = 64
(* rfc4880bis 5.16: "the additional data of the first chunk using EAX and AES-128 with a chunk size of 64 kiByte *)
(* consists of the octets 0xD4, 0x01, 0x07, 0x01, 0x10, 0x00, 0x00, 0x00, 0x00, 0x00, 0x00, 0x00, and 0x00"     *)
ASSUME AD(7, 1, 16, 0) = <<212, 1, 7, 1, 16, 0, 0, 0, 0, 0, 0, 0, 0>>
ASSUME Nonce(<<1, 2, 3, 4, 5, 6, 7, 8, 9, 10, 11, 12, 13, 14, 15, 16>>, 258) = <<1, 2, 3, 4, 5, 6, 7, 8, 9, 10, 11, 12, 13, 14, 14, 18>>
ASSUME Nonce(<<1, 2, 3, 4, 5, 6, 7, 8, 9, 10, 11, 12, 13, 14, 15>>, 3) = <<1, 2, 3, 4, 5, 6, 7, 8, 9, 10, 11, 12, 13, 14, 12>>
ASSUME SessionKey(7, <<1, 2, 255, 255>> \o Rep(0, 12)) = <<7, 1, 2, 255, 255>> \o Rep(0, 12) \o <<2, 1>>
ASSUME Validity(1000, 10, 1000, 1009, 8) = "valid" /\ Validity(1000, 10, 1000, 1011, 8) = "invalid"
ASSUME Validity(1000, 0, 1001, 1000, 8) = "invalid" /\ Validity(1000 + 90001, 0, 0, 1000, 8) = "invalid"
ASSUME Validity(1000, 0, 0, 5000, 2) = "invalid" /\ Validity(1000 + 90000, 0, 0, 1000, 10) = "valid"
ASSUME CanonText(<<97, 10, 98, 13, 10, 13>>) = <<97, 13, 10, 98, 13, 10, 13>>

Init == fi \in 1..Len(Families) /\ i \in Lo..(Lo + W - 1) /\ i <= LastOf(Families[fi])
Next == i + W <= LastOf(Family) /\ i' = i + W /\ fi' = fi
Spec == Init /\ [][Next]_<<fi, i>>
Theorems == Thm
Emit == PrintT(ToJson([fam |-> Family, c |-> Case]))
=============================================================================
