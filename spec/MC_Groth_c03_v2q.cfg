SPECIFICATION Spec
CONSTANTS
 P = 23
 Q = 11
 N = 2
 LE = 1
 Kind = "c03_v"
 CoinSet = {1, 7}
 RSet = {5}
 PowM <- TabPowM
INVARIANT Theorem
CHECK_DEADLOCK FALSE
