------------------------------- MODULE Arith -------------------------------
(***************************************************************************)
(* Arithmetic primitives of libTMCG, written from their mathematical       *)
(* definitions (property C09).  This module is the oracle: every expected  *)
(* result, accepted set and verdict of checks/c09.py is computed by TLC    *)
(* from the operators below; nothing here is transcribed from the C++.     *)
(*                                                                         *)
(*   1. residues, units, inverses, powers          (mpz_spowm.cc)          *)
(*   2. squares, square roots, CRT                 (mpz_sqrtm.cc)          *)
(*   3. polynomials and interpolation              (mpz_helper.cc)         *)
(*   4. primes and the defining relations of safe, Schnorr-type and Blum   *)
(*      primes                                     (mpz_sprime.cc)         *)
(*   5. the integers as seen through the big-integer wrapper: every        *)
(*      wrapper operation as a function on Z        (TMCG_Bigint.cc)       *)
(*                                                                         *)
(* All numbers stay below 2^31 (TLC integers).                             *)
(***************************************************************************)
EXTENDS Integers, Sequences, FiniteSets, TLC

Abs(x) == IF x < 0 THEN -x ELSE x
Min2(a, b) == IF a < b THEN a ELSE b
Max2(a, b) == IF a < b THEN b ELSE a

RECURSIVE GcdN(_, _)
GcdN(a, b) == IF b = 0 THEN a ELSE GcdN(b, a % b)      \* a, b >= 0
Gcd(a, b) == GcdN(Abs(a), Abs(b))

\* number of binary digits (the convention of mpz_sizeinbase: 0 has one digit)
RECURSIVE Bits(_)
Bits(n) == IF n < 2 THEN 1 ELSE 1 + Bits(n \div 2)

RECURSIVE Pow2(_)
Pow2(k) == IF k = 0 THEN 1 ELSE 2 * Pow2(k - 1)

--------------------------------------------------------------------------
(* 1. powers                                                               *)

Coprime(a, m) == Gcd(a % m, m) = 1
Units(m) == {x \in 0..(m - 1) : Gcd(x, m) = 1}
\* the inverse by its definition (a x = 1), not by an algorithm
HasInv(a, m) == \E x \in 0..(m - 1) : ((a % m) * x) % m = 1 % m
InvM(a, m) == CHOOSE x \in 0..(m - 1) : ((a % m) * x) % m = 1 % m

\* b^e for e >= 0 by the defining recursion b^0 = 1, b^e = b^(e-1) b
RECURSIVE PowNat(_, _, _)
PowNat(b, e, m) == IF e = 0 THEN 1 % m ELSE (PowNat(b, e - 1, m) * (b % m)) % m
\* the row <<b^0, ..., b^E>> of the same recursion (one multiplication per entry)
RECURSIVE PowRow(_, _, _)
PowRow(b, m, E) == IF E = 0 THEN <<1 % m>>
                   ELSE LET s == PowRow(b, m, E - 1) IN Append(s, (s[E] * (b % m)) % m)
\* b^e for any integer e; for e < 0 it is (b^-1)^|e| and exists iff b is a unit
PowDefined(b, e, m) == e >= 0 \/ HasInv(b, m)
PowDef(b, e, m) == IF e >= 0 THEN PowNat(b, e, m) ELSE PowNat(InvM(b, m), -e, m)

\* derived: b^e by halving the exponent ((b^(e div 2))^2 [b]); equal to PowNat (theorem ThPowSq),
\* used where the exponent is large
RECURSIVE PowSq(_, _, _)
PowSq(b, e, m) == IF e = 0 THEN 1 % m
                  ELSE LET h == PowSq(b, e \div 2, m)
                           hh == (h * h) % m
                       IN IF e % 2 = 0 THEN hh ELSE (hh * (b % m)) % m
Pow(b, e, m) == IF e >= 0 THEN PowSq(b, e, m) ELSE PowSq(InvM(b, m), -e, m)

\* b^(2^k): k squarings, organised as (b^(2^i))^(2^j) with i + j = k
RECURSIVE Pow2k(_, _, _)
Pow2k(b, k, m) == IF k = 0 THEN b % m
                  ELSE IF k = 1 THEN ((b % m) * (b % m)) % m
                  ELSE Pow2k(Pow2k(b, k \div 2, m), k - (k \div 2), m)
\* b^(s (2^k + r)) with s = +1/-1, r >= 0: exponents far beyond 2^31 in a form TLC can compute with
PowTerm(b, s, k, r, m) ==
  LET bb == IF s >= 0 THEN b % m ELSE InvM(b, m)
  IN (Pow2k(bb, k, m) * PowSq(bb, r, m)) % m
TermBits(k) == k + 1     \* bit length of 2^k + r for 0 <= r < 2^k

(* What a power routine may answer.  The property speaks about bases       *)
(* coprime to the modulus: there the routine must return the residue.      *)
(* For other bases a non-negative power still has a value (the routine may *)
(* return it or refuse), a negative power does not exist (it must refuse). *)
(* In no case may a wrong residue be returned.                             *)
MUST == 0      \* must return the value
MAY == 1       \* value or refusal
REFUSE == 2    \* must refuse (throw)
PowClassC(cop, e) == IF cop THEN MUST ELSE IF e < 0 THEN REFUSE ELSE MAY
PowClass(b, e, m) == PowClassC(Coprime(b, m), e)
\* the constant-time routine is only defined for odd moduli
PowClassOdd(b, e, m) == IF m % 2 = 1 THEN PowClass(b, e, m)
                        ELSE IF PowClass(b, e, m) = REFUSE THEN REFUSE ELSE MAY
\* table-based routines: the table belongs to base tb and admits |e| < 2^T
TabClassC(tb, b, cls, ebits, T) ==         \* cls: the class of the power itself
  IF ebits > T THEN REFUSE
  ELSE IF tb # b THEN (IF cls = REFUSE THEN REFUSE ELSE MAY)   \* wrong base: refuse, or the right value
  ELSE cls
TabClass(tb, b, e, ebits, m, T) == TabClassC(tb, b, PowClass(b, e, m), ebits, T)
\* an observed outcome (value >= 0, or -1 for a refusal) against value v and class c
OutcomeOK(out, v, c) == CASE c = MUST -> out = v
                          [] c = MAY -> out = v \/ out = -1
                          [] OTHER -> out = -1

--------------------------------------------------------------------------
(* 2. squares and roots                                                    *)

Sq(r, n) == ((r % n) * (r % n)) % n
IsRoot(r, a, n) == r \in 0..(n - 1) /\ Sq(r, n) = a % n
Roots(a, n) == {r \in 0..(n - 1) : Sq(r, n) = a % n}
IsQR(a, n) == Coprime(a, n) /\ \E r \in 1..(n - 1) : Sq(r, n) = a % n     \* quadratic residue: a unit that is a square
QRs(n) == {Sq(r, n) : r \in Units(n)}
\* root modulo n = p q (coprime) stated through the Chinese remainder theorem, for n up to 2^31
IsRootCRT(r, a, p, q) == r >= 0 /\ r \div p < q /\ Sq(r % p, p) = a % p /\ Sq(r % q, q) = a % q
\* the idempotents of Z/pq: E == 0 (p), E == 1 (q)
Idem(p, q) == CHOOSE x \in 0..(p * q - 1) : x % p = 0 /\ x % q = 1

--------------------------------------------------------------------------
(* 3. polynomials: f = <<f_0, ..., f_(m-1)>>, value at x is sum f_k x^k     *)
RECURSIVE EvalFrom(_, _, _, _)
EvalFrom(f, x, q, k) == IF k > Len(f) THEN 0
                        ELSE ((f[k] % q) * PowNat(x, k - 1, q) + EvalFrom(f, x, q, k + 1)) % q
Eval(f, x, q) == EvalFrom(f, x, q, 1)
DistinctMod(a, q) == \A i, j \in 1..Len(a) : i # j => a[i] % q # a[j] % q
\* f interpolates the points (a_j, b_j) modulo q
Interpolates(f, a, b, q) == /\ Len(f) = Len(a)
                            /\ \A j \in 1..Len(a) : Eval(f, a[j], q) = b[j] % q
Reduced(f, q) == \A k \in 1..Len(f) : f[k] \in 0..(q - 1)

--------------------------------------------------------------------------
(* 4. primes                                                               *)
RECURSIVE IsqrtR(_, _, _)
IsqrtR(n, lo, hi) == IF lo >= hi THEN lo          \* invariant lo^2 <= n < (hi+1)^2
                     ELSE LET mid == (lo + hi + 1) \div 2
                          IN IF mid * mid <= n THEN IsqrtR(n, mid, hi) ELSE IsqrtR(n, lo, mid - 1)
Isqrt(n) == IsqrtR(n, 0, Min2(n, 46340))
IsPrime(n) == n >= 2 /\ \A d \in 2..Isqrt(n) : n % d # 0     \* trial division
PrimesIn(lo, hi) == {p \in lo..hi : IsPrime(p)}

SafePrimePair(p, q) == IsPrime(p) /\ IsPrime(q) /\ p = 2 * q + 1
SchnorrTriple(p, q, k) == IsPrime(p) /\ IsPrime(q) /\ k >= 1 /\ q <= (2147483646 \div k) /\ p = q * k + 1 /\ Gcd(k, q) = 1
BlumPrime(p) == IsPrime(p) /\ p % 4 = 3
IsBlum(p, q) == BlumPrime(p) /\ BlumPrime(q) /\ p # q

--------------------------------------------------------------------------
(* 5. the wrapper's operations as functions on the integers.  Division and *)
(* remainder are the ones of non-negative operands (quotient rounded down, *)
(* remainder in 0..d-1); the property does not speak about other signs.    *)
BigDefined(op, x, y, z) ==
  CASE op \in {"div", "mod"} -> x >= 0 /\ y > 0
    [] op \in {"mul2exp", "div2exp"} -> x >= 0 /\ y >= 0 /\ y <= 30
    [] op = "powm" -> x >= 0 /\ y >= 0 /\ z >= 1
    [] op = "uipow" -> x >= 0 /\ y >= 0
    [] OTHER -> TRUE
RECURSIVE IntPow(_, _)
IntPow(b, e) == IF e = 0 THEN 1 ELSE b * IntPow(b, e - 1)
BigVal(op, x, y, z) ==
  CASE op = "set" -> y
    [] op = "add" -> x + y
    [] op = "sub" -> x - y
    [] op = "mul" -> x * y
    [] op = "div" -> x \div y
    [] op = "mod" -> x % y
    [] op = "neg" -> -x
    [] op = "abs" -> Abs(x)
    [] op = "mul2exp" -> x * Pow2(y)
    [] op = "div2exp" -> x \div Pow2(y)
    [] op = "powm" -> PowSq(x, y, z)
    [] op = "uipow" -> IntPow(x, y)
Cmp(x, y) == IF x < y THEN -1 ELSE IF x = y THEN 0 ELSE 1
B01(x) == IF x THEN 1 ELSE 0

(* An operation instance o = [op, d, s, t, u, ...] on a register file r (a function from register numbers to   *)
(* integers): d destination, s / t operand registers, u a machine word.  powm: r[d] := r[s]^r[t] mod r[d].       *)
BaseOp(op) == CASE op \in {"set", "set_ui"} -> "set"
                [] op \in {"add", "add_ui"} -> "add"
                [] op \in {"sub", "sub_ui"} -> "sub"
                [] op \in {"mul", "mul_ui"} -> "mul"
                [] op \in {"div", "div_ui"} -> "div"
                [] op \in {"mod", "mod_ui"} -> "mod"
                [] op \in {"powm", "powm_ui"} -> "powm"
                [] OTHER -> op
RegOperandOps == {"set", "add", "sub", "mul", "div", "mod"}
UpdatingOps == {"set", "set_ui", "add", "add_ui", "sub", "sub_ui", "mul", "mul_ui", "div", "div_ui", "mod", "mod_ui",
                "neg", "abs", "mul2exp", "div2exp", "powm", "powm_ui"}
PlainOnlyOps == {"div_ui", "div2exp"}     \* documented as unsupported on the secure back end: it may refuse
OpX(o, r) == IF o.op \in {"powm", "powm_ui"} THEN r[o.s] ELSE r[o.d]
OpY(o, r) == IF o.op \in RegOperandOps THEN r[o.s] ELSE IF o.op = "powm" THEN r[o.t] ELSE o.u
OpZ(o, r) == r[o.d]
\* the register values an operation reads
OpReads(o, r) == CASE o.op = "set_ui" -> {}
                   [] o.op = "set" -> {r[o.s]}
                   [] o.op \in (RegOperandOps \ {"set"}) \cup {"cmp"} -> {r[o.d], r[o.s]}
                   [] o.op = "powm" -> {r[o.s], r[o.t], r[o.d]}
                   [] o.op = "powm_ui" -> {r[o.s], r[o.d]}
                   [] OTHER -> {r[o.d]}
\* the property speaks about non-negative operands only
InProperty(o, r) == \A v \in OpReads(o, r) : v >= 0
OpDefined(o, r) == o.op \in UpdatingOps => BigDefined(BaseOp(o.op), OpX(o, r), OpY(o, r), OpZ(o, r))
OpValue(o, r) == BigVal(BaseOp(o.op), OpX(o, r), OpY(o, r), OpZ(o, r))
OpAfter(o, r) == IF o.op \in UpdatingOps THEN [r EXCEPT ![o.d] = OpValue(o, r)] ELSE r
\* the six comparisons ==, !=, >, <, >=, <= of two registers; the five >, <, >=, <=, == of a register and a word
CmpWant(x, y) == LET c == Cmp(x, y) IN <<B01(c = 0), B01(c # 0), B01(c > 0), B01(c < 0), B01(c >= 0), B01(c <= 0)>>
ObsWant(x, u) == LET c == Cmp(x, u) IN <<B01(c > 0), B01(c < 0), B01(c >= 0), B01(c <= 0), B01(c = 0)>>
=============================================================================
