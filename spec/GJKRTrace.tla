----------------------------- MODULE GJKRTrace -----------------------------
(***************************************************************************)
(* Message-level validation of real runs of GennaroJareckiKrawczykRabinDKG  *)
(* ::Generate (harness/drv_gjkr.cc: n real objects on real reliable-        *)
(* broadcast objects in the deterministic simulator) against GJKR.tla.      *)
(* Per execution the log holds                                              *)
(*   Reset  n, t, group, who deviates (role 0: runs the code as written)    *)
(*   Coins  i, a, b      the polynomials party i drew                        *)
(*   B      i, ch, v     party i broadcasts v on channel ch                  *)
(*   S      i, to, v, w  party i sends v privately; w went onto the link     *)
(*   R      i, from, ch, ok, v    result of a DeliverFrom                    *)
(*   P      i, from, ok, v        result of a private Receive                *)
(*   Done   i, ret, QUAL, x_i, x'_i, y, v_j, y_j, z_j, C_jk, (s_ji, s'_ji)   *)
(*   End                                                                      *)
(* For every party that runs the code as written:                            *)
(*  - each message it sends must be the next message the phase operators of  *)
(*    GJKR.tla produce from its coins and from what it has read so far;      *)
(*  - the reads it performs must be exactly the reads those operators        *)
(*    perform on the same input (how many integers from whom, in what order, *)
(*    on which channel);                                                     *)
(*  - what it ends with must equal the state the operators end with.         *)
(* What a deviating party sends is taken from the log as it is.  The two     *)
(* channels are checked against their assumptions on the way (a value read   *)
(* is the next unread value the sender put there; a time-out happens only    *)
(* when nothing is pending).  At End the property of GJKR.tla is evaluated   *)
(* on the final states of the parties that followed the code.                *)
(* A mismatch stops the run with a reason in `err' (invariant NoErr).        *)
(***************************************************************************)
EXTENDS GJKR, Json, IOUtils, TLCExt

TraceFile == IF "TRACE" \in DOMAIN IOEnv THEN IOEnv.TRACE ELSE "trace.ndjson"
TraceLog == ndJsonDeserialize(TraceFile)

VARIABLES l, W, ps, out, inbuf, bc, ln, nrd, lrd, fin, err
tvars == <<l, W, ps, out, inbuf, bc, ln, nrd, lrd, fin, err>>
Ev == TraceLog[l]
IsEv(name) == l <= Len(TraceLog) /\ err = "" /\ Ev.e = name
P == Parties(W)
Honest == P \ W.bad

FOf(buf) == [j1 \in 1..W.n |-> LET sel == SelectSeq(buf, LAMBDA e : e.from = j1 - 1)
                               IN [k \in 1..Len(sel) |-> [ok |-> sel[k].ok, v |-> sel[k].v]]]
IsPrefix(a, b) == Len(a) <= Len(b) /\ SubSeq(b, 1, Len(a)) = a
\* the party has stopped reading: run its phases over what it read until a phase has something to send (or it is done)
RECURSIVE Advance(_, _)
Advance(st, buf) ==
  IF st.pc \in {"done", "init"} THEN [ok |-> TRUE, st |-> st, out |-> <<>>, buf |-> buf, at |-> st.pc]
  ELSE LET r == Phase(W, st, FOf(buf)) IN
       IF ~IsPrefix(r.reads, buf) THEN [ok |-> FALSE, st |-> st, out |-> <<>>, buf |-> buf, at |-> st.pc]
       ELSE LET rest == SubSeq(buf, Len(r.reads) + 1, Len(buf)) IN
            IF r.out # <<>> THEN [ok |-> TRUE, st |-> r.st, out |-> r.out, buf |-> rest, at |-> r.st.pc]
            ELSE Advance(r.st, rest)
Adv(i) == IF out[i] # <<>> THEN [ok |-> TRUE, st |-> ps[i], out |-> out[i], buf |-> inbuf[i], at |-> ps[i].pc]
          ELSE Advance(ps[i], inbuf[i])

GoodGroup(G) ==
  /\ G.p <= 46337 /\ IsPrime(G.p) /\ IsPrime(G.q) /\ (G.p - 1) % G.q = 0
  /\ G.g > 1 /\ G.g < G.p /\ PowM(G.g, G.q, G.p) = 1
  /\ G.h > 1 /\ G.h < G.p /\ PowM(G.h, G.q, G.p) = 1 /\ G.h # G.g

Stay == UNCHANGED <<W, ps, out, inbuf, bc, ln, nrd, lrd, fin>>
Fail(why) == err' = why /\ Stay /\ l' = l

TInit == /\ l = 1 /\ err = "" /\ W = [n |-> 0, t |-> 0, G |-> [p |-> 23, q |-> 11, g |-> 2, h |-> 3], bad |-> {}]
         /\ ps = <<>> /\ out = <<>> /\ inbuf = <<>> /\ bc = <<>> /\ ln = <<>> /\ nrd = <<>> /\ lrd = <<>> /\ fin = {}

TReset ==
  /\ IsEv("Reset")
  /\ LET w == [n |-> Ev.n, t |-> Ev.t, G |-> [p |-> Ev.grp[1], q |-> Ev.grp[2], g |-> Ev.grp[3], h |-> Ev.grp[4]],
               bad |-> {i \in 0..(Ev.n - 1) : Ev.role[i + 1] # 0}]
         Q == 0..(w.n - 1)
     IN IF ~(GoodGroup(w.G) /\ w.n < w.G.q /\ 2 * w.t < w.n /\ Cardinality(w.bad) <= w.t) THEN Fail("reset:parameters-outside-the-quantifier")
        ELSE /\ W' = w
             /\ ps' = [i \in Q |-> Fresh(w, i)]
             /\ out' = [i \in Q |-> <<>>] /\ inbuf' = [i \in Q |-> <<>>]
             /\ bc' = (ChG :> [j \in Q |-> <<>>])
             /\ ln' = [j \in Q |-> [i \in Q |-> <<>>]]
             /\ nrd' = [i \in Q |-> <<>>]
             /\ lrd' = [i \in Q |-> [j \in Q |-> 0]]
             /\ fin' = {} /\ err' = "" /\ l' = l + 1

TCoins ==
  /\ IsEv("Coins")
  /\ LET i == Ev.i IN
     IF i \notin Honest THEN UNCHANGED <<ps, out>> /\ err' = ""
     ELSE IF ps[i].pc # "init" \/ Len(Ev.a) # W.t + 1 \/ Len(Ev.b) # W.t + 1 THEN UNCHANGED <<ps, out>> /\ err' = "coins:unexpected"
     ELSE LET r == Deal(W, i, Ev.a, Ev.b) IN ps' = [ps EXCEPT ![i] = r.st] /\ out' = [out EXCEPT ![i] = r.out] /\ err' = ""
  /\ UNCHANGED <<W, inbuf, bc, ln, nrd, lrd, fin>> /\ l' = IF err' = "" THEN l + 1 ELSE l

\* a message leaves party i: for a party that follows the code it must be the next message the specification has pending
SendStep(i, msg) ==
  IF i \notin Honest THEN UNCHANGED <<ps, out, inbuf>> /\ err' = ""
  ELSE LET a == Adv(i) IN
       IF ~a.ok THEN UNCHANGED <<ps, out, inbuf>> /\ err' = "reads:" \o a.at
       ELSE IF a.buf # <<>> THEN UNCHANGED <<ps, out, inbuf>> /\ err' = "reads-surplus:" \o a.at
       ELSE IF a.out = <<>> \/ Head(a.out) # msg THEN UNCHANGED <<ps, out, inbuf>> /\ err' = "msg:" \o a.at
       ELSE /\ ps' = [ps EXCEPT ![i] = a.st] /\ out' = [out EXCEPT ![i] = Tail(a.out)] /\ inbuf' = [inbuf EXCEPT ![i] = <<>>] /\ err' = ""

TB ==
  /\ IsEv("B")
  /\ LET i == Ev.i  ch == Ev.ch IN
     /\ SendStep(i, MsgB(ch, Ev.v))
     /\ bc' = IF err' # "" THEN bc
              ELSE LET b1 == IF ch \in DOMAIN bc THEN bc ELSE bc @@ (ch :> [j \in P |-> <<>>]) IN [b1 EXCEPT ![ch][i] = Append(@, Ev.v)]
  /\ UNCHANGED <<W, ln, nrd, lrd, fin>> /\ l' = IF err' = "" THEN l + 1 ELSE l

TS ==
  /\ IsEv("S")
  /\ LET i == Ev.i IN
     IF i \in Honest /\ (Ev.drop \/ Ev.w # Ev.v) THEN UNCHANGED <<ps, out, inbuf, ln>> /\ err' = "harness:rewrote-an-honest-message"
     ELSE /\ SendStep(i, MsgS(Ev.to, Ev.v))
          /\ ln' = IF err' # "" \/ Ev.drop THEN ln ELSE [ln EXCEPT ![i][Ev.to] = Append(@, Ev.w)]
  /\ UNCHANGED <<W, bc, nrd, lrd, fin>> /\ l' = IF err' = "" THEN l + 1 ELSE l

Got(i, ch, j) == IF ch \in DOMAIN nrd[i] THEN nrd[i][ch][j] ELSE 0
Sent(ch, j) == IF ch \in DOMAIN bc THEN bc[ch][j] ELSE <<>>
TR ==
  /\ IsEv("R")
  /\ LET i == Ev.i  j == Ev.from  ch == Ev.ch  c == Got(i, ch, j)  s == Sent(ch, j) IN
     IF i \notin Honest THEN UNCHANGED <<inbuf, nrd>> /\ err' = ""
     ELSE IF out[i] # <<>> THEN UNCHANGED <<inbuf, nrd>> /\ err' = "order:read-before-send:" \o ps[i].pc
     ELSE IF Ev.ok /\ (c >= Len(s) \/ s[c + 1] # Ev.v) THEN UNCHANGED <<inbuf, nrd>> /\ err' = "net:rbc-value"          \* C14's business
     ELSE IF ~Ev.ok /\ c < Len(s) THEN UNCHANGED <<inbuf, nrd>> /\ err' = "net:rbc-timeout-despite-broadcast"
     ELSE /\ inbuf' = [inbuf EXCEPT ![i] = Append(@, [from |-> j, ok |-> Ev.ok, v |-> IF Ev.ok THEN Ev.v ELSE 0, ch |-> ch])]
          /\ nrd' = IF ~Ev.ok THEN nrd
                    ELSE LET n1 == IF ch \in DOMAIN nrd[i] THEN nrd[i] ELSE nrd[i] @@ (ch :> [k \in P |-> 0])
                         IN [nrd EXCEPT ![i] = [n1 EXCEPT ![ch][j] = @ + 1]]
          /\ err' = ""
  /\ UNCHANGED <<W, ps, out, bc, ln, lrd, fin>> /\ l' = IF err' = "" THEN l + 1 ELSE l

TP ==
  /\ IsEv("P")
  /\ LET i == Ev.i  j == Ev.from  c == lrd[i][j]  s == ln[j][i] IN
     IF i \notin Honest THEN UNCHANGED <<inbuf, lrd>> /\ err' = ""
     ELSE IF out[i] # <<>> THEN UNCHANGED <<inbuf, lrd>> /\ err' = "order:read-before-send:" \o ps[i].pc
     ELSE IF Ev.ok /\ (c >= Len(s) \/ s[c + 1] # Ev.v) THEN UNCHANGED <<inbuf, lrd>> /\ err' = "net:link-value"
     ELSE IF ~Ev.ok /\ c < Len(s) THEN UNCHANGED <<inbuf, lrd>> /\ err' = "net:link-timeout-despite-send"
     ELSE /\ inbuf' = [inbuf EXCEPT ![i] = Append(@, [from |-> j, ok |-> Ev.ok, v |-> IF Ev.ok THEN Ev.v ELSE 0, ch |-> ChP])]
          /\ lrd' = IF Ev.ok THEN [lrd EXCEPT ![i][j] = @ + 1] ELSE lrd
          /\ err' = ""
  /\ UNCHANGED <<W, ps, out, bc, ln, nrd, fin>> /\ l' = IF err' = "" THEN l + 1 ELSE l

\* first field in which the logged result differs from the specification's final state ("" if none)
DoneDiff(st) ==
  IF Ev.ret # st.ret THEN "ret"
  ELSE IF Ev.qual # AscSeq(st.qual) THEN "qual"
  ELSE IF Ev.C # st.C THEN "C"
  ELSE IF Ev.s # st.s \/ Ev.sp # st.sp THEN "shares"
  ELSE IF Ev.x # st.x \/ Ev.xp # st.xp THEN "x"
  ELSE IF ~st.ret THEN ""
  ELSE IF Ev.y # st.y THEN "y"
  ELSE IF Ev.yi # st.yi THEN "yi"
  ELSE IF Ev.v # st.v THEN "v"
  ELSE IF Ev.z # st.z THEN "z"
  ELSE IF ~Ev.ck THEN "checkkey"
  ELSE ""
TDone ==
  /\ IsEv("Done")
  /\ LET i == Ev.i IN
     IF i \notin Honest THEN UNCHANGED <<ps, out, inbuf, fin>> /\ err' = ""
     ELSE IF "exc" \in DOMAIN Ev THEN UNCHANGED <<ps, out, inbuf, fin>> /\ err' = "done:exception"
     ELSE IF out[i] # <<>> THEN UNCHANGED <<ps, out, inbuf, fin>> /\ err' = "done:messages-not-sent:" \o ps[i].pc
     ELSE LET a == Adv(i) IN
          IF ~a.ok THEN UNCHANGED <<ps, out, inbuf, fin>> /\ err' = "reads:" \o a.at
          ELSE IF a.buf # <<>> THEN UNCHANGED <<ps, out, inbuf, fin>> /\ err' = "reads-surplus:" \o a.at
          ELSE IF a.st.pc # "done" \/ a.out # <<>> THEN UNCHANGED <<ps, out, inbuf, fin>> /\ err' = "done:early:" \o a.at
          ELSE IF DoneDiff(a.st) # "" THEN UNCHANGED <<ps, out, inbuf, fin>> /\ err' = "done:" \o DoneDiff(a.st)
          ELSE /\ ps' = [ps EXCEPT ![i] = a.st] /\ inbuf' = [inbuf EXCEPT ![i] = <<>>] /\ fin' = fin \cup {i}
               /\ UNCHANGED out /\ err' = ""
  /\ UNCHANGED <<W, bc, ln, nrd, lrd>> /\ l' = IF err' = "" THEN l + 1 ELSE l

\* the property on the final states of the parties that followed the code
PropDiff ==
  IF ~(Honest \subseteq fin) THEN "missing-result"
  ELSE IF ~PComplete(W, Honest, ps) THEN "complete"
  ELSE IF ~PAgree(W, Honest, ps) THEN "agreement"
  ELSE IF ~PHonestQualified(W, Honest, ps) THEN "honest-disqualified"
  ELSE IF ~PDealerConsistent(W, Honest, ps) THEN "dealer-inconsistent-share-kept"
  ELSE IF ~PShareV(W, Honest, ps) THEN "share-vs-verification-value"
  ELSE IF ~PSharePedersen(W, Honest, ps) THEN "share-vs-commitments"
  ELSE IF ~POneSecret(W, Honest, ps) THEN "one-secret"
  ELSE IF ~PHonestContribute(W, Honest, ps) THEN "honest-contribution"
  ELSE IF ~PHonestNotReconstructed(W, Honest, ps) THEN "honest-party-reconstructed"
  ELSE ""
TEnd ==
  /\ IsEv("End")
  /\ err' = IF PropDiff = "" THEN "" ELSE "property:" \o PropDiff
  /\ Stay /\ l' = IF err' = "" THEN l + 1 ELSE l

TNext == TReset \/ TCoins \/ TB \/ TS \/ TR \/ TP \/ TDone \/ TEnd
TSpec == TInit /\ [][TNext]_tvars
NoErr == err = ""
Accepted == TLCGet("stats").diameter = Len(TraceLog) + 1
=============================================================================
