SPECIFICATION Spec
CONSTANTS
 Fam = "sqp"
 P <- PQuick
INVARIANTS Theorems Emit
CHECK_DEADLOCK FALSE
