---------------------------- MODULE PGPMsgTrace ----------------------------
(* Trace validation for property C20 (direction B).  harness/drv_msg.cc runs *)
(* the real AEAD encryption / decryption and the real signature verification *)
(* with libgcrypt's cipher and digest entry points interposed and logs, per   *)
(* call of the library, what the library handed to the primitive:            *)
(*   AeadEnc / AeadDec : the sequence of (nonce set, additional data          *)
(*                       authenticated, octets en/deciphered, tag taken /     *)
(*                       checked) on the AEAD cipher handle                   *)
(*   VerifyHash        : the octets hashed while a signature is verified     *)
(* Every event must be what PGPMsg.tla / PGPFrame.tla prescribe: nonce of    *)
(* chunk i = IV xor i, additional data = header || index (|| total octets in *)
(* the final step), chunk boundaries at multiples of 2^(c+6), the final tag  *)
(* over the empty string; hash input = the framing of RFC 4880 5.2.4 built   *)
(* from the fields of the signature packet.  The log is never cut short: a   *)
(* rejected event is remembered with the aspects that failed.                *)
EXTENDS PGPMsg, Json, IOUtils, TLCExt, SequencesExt

TraceFile == IF "TRACE" \in DOMAIN IOEnv THEN IOEnv.TRACE ELSE "trace.ndjson"
Log == ndJsonDeserialize(TraceFile)
VARIABLES l, bad

GcryAlgo(h) == CASE h = 12 -> 313 [] h = 14 -> 315 [] OTHER -> h

(* calls: sequence of [op, b, n]; op "iv" (b = nonce), "ad" (b = additional data), "crypt" (n = octets), "tag" *)
Sched(ev) == AeadSchedule(ev.sk, ev.aead, ev.c, ev.n, ev.iv)
NSteps(ev) == NChunks(ev.c, ev.n) + 1
CallAt(ev, s, k) == ev.calls[4 * (s - 1) + k]
AspectShape(ev) == /\ ev.ret = 0 /\ ev.n >= 1
                   /\ Len(ev.iv) = IVOctets(ev.aead)
                   /\ Len(ev.calls) = 4 * NSteps(ev)
                   /\ \A s \in 1..NSteps(ev) : /\ CallAt(ev, s, 1).op = "iv" /\ CallAt(ev, s, 2).op = "ad"
                                               /\ CallAt(ev, s, 3).op = "crypt" /\ CallAt(ev, s, 4).op = "tag"
AspectNonce(ev) == \A s \in 1..NSteps(ev) : CallAt(ev, s, 1).b = Sched(ev)[s].nonce
AspectNonceFresh(ev) == \A s, t \in 1..NSteps(ev) : s # t => CallAt(ev, s, 1).b # CallAt(ev, t, 1).b
AspectAD(ev) == \A s \in 1..NSteps(ev) : CallAt(ev, s, 2).b = Sched(ev)[s].ad
AspectLens(ev) == \A s \in 1..NSteps(ev) : CallAt(ev, s, 3).n = Sched(ev)[s].n
AspectOut(ev) == IF ev.e = "AeadEnc" THEN ev.outlen = AeadCiphertextOctets(ev.c, ev.n) ELSE ev.outlen = ev.n
AeadWhy(ev) ==
  IF ~AspectShape(ev) THEN <<"shape">>
  ELSE (IF AspectNonce(ev) THEN <<>> ELSE <<"nonce">>) \o (IF AspectNonceFresh(ev) THEN <<>> ELSE <<"noncereuse">>)
       \o (IF AspectAD(ev) THEN <<>> ELSE <<"ad">>) \o (IF AspectLens(ev) THEN <<>> ELSE <<"lens">>)
       \o (IF AspectOut(ev) THEN <<>> ELSE <<"outlen">>)

(* signature verification: one hash context, algorithm of the signature packet, input = prescribed framing of the *)
(* object and of the hashed part of the packet (ev.hashed = version .. hashed subpackets as found in the packet)   *)
HashWhy(ev) ==
  IF Len(ev.md) # 1 THEN <<"contexts">>
  ELSE (IF ev.md[1].a = GcryAlgo(ev.algo) THEN <<>> ELSE <<"algo">>)
       \o (IF ev.md[1].full /\ ev.md[1].in = SigHashInput(ev.kind, ev.v, ev.a, ev.b, ev.hashed) THEN <<>> ELSE <<"input">>)
       \o (IF ev.verdict THEN <<>> ELSE <<"verdict">>)

Why(ev) == CASE ev.e \in {"AeadEnc", "AeadDec"} -> AeadWhy(ev)
             [] ev.e = "VerifyHash" -> HashWhy(ev)
             [] OTHER -> <<"unknown-event">>

Init == l = 1 /\ bad = <<>>
Next == /\ l <= Len(Log)
        /\ l' = l + 1
        /\ bad' = IF Why(Log[l]) = <<>> THEN bad ELSE Append(bad, [l |-> l, e |-> Log[l].e, why |-> Why(Log[l])])
TSpec == Init /\ [][Next]_<<l, bad>>
(* the whole log has been consumed; the rejected events are printed for checks/c20.py *)
Consumed == TLCGet("stats").diameter = Len(Log) + 1
Report == l = Len(Log) + 1 => PrintT(ToJson([rejected |-> bad, events |-> Len(Log)]))
=============================================================================
