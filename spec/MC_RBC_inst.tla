--------------------------- MODULE MC_RBC_inst ---------------------------
(* concrete constants for the RBC configs (cfg files substitute them)      *)
EXTENDS MC_RBC

H4 == {0, 1, 2, 3}
H3 == {0, 1, 2}            \* party 3 is faulty
NoProg(S) == [i \in S |-> <<>>]
B(v) == [op |-> "bcast", v |-> v]
SetC(c, f) == [op |-> "set", c |-> c, f |-> f]
Unset(f) == [op |-> "unset", f |-> f]
Recover(c, f) == [op |-> "recover", c |-> c, f |-> f]

\* one honest broadcast, everybody honest
P_one4 == [i \in H4 |-> IF i = 0 THEN <<B(1)>> ELSE <<>>]
\* two broadcasts of one sender, everybody honest
P_two4 == [i \in H4 |-> IF i = 0 THEN <<B(1), B(2)>> ELSE <<>>]
\* one honest broadcast, party 3 faulty
P_one3 == [i \in H3 |-> IF i = 0 THEN <<B(1)>> ELSE <<>>]
\* two broadcasts of one sender
P_two3 == [i \in H3 |-> IF i = 0 THEN <<B(1), B(2)>> ELSE <<>>]
P_none3 == NoProg(H3)
\* channel switch: everybody broadcasts nothing but party 0; all move to channel B, 0 broadcasts there
P_switch3 == [i \in H3 |-> IF i = 0 THEN <<B(1), SetC("B", TRUE), B(2)>> ELSE <<SetC("B", TRUE)>>]
P_switch3n == [i \in H3 |-> IF i = 0 THEN <<SetC("B", TRUE), B(2), Unset(TRUE), B(1)>> ELSE <<SetC("B", TRUE), Unset(TRUE)>>]

\* leave and re-enter a channel twice (recoverID restores the counters saved by the last unsetID)
P_rec3 == [i \in H3 |-> IF i = 0 THEN <<SetC("B", TRUE), B(1), Unset(TRUE), Recover("B", TRUE), B(2), Unset(TRUE), Recover("B", TRUE), B(3)>>
                        ELSE <<SetC("B", TRUE), Unset(TRUE), Recover("B", TRUE), Unset(TRUE), Recover("B", TRUE)>>]
None == {}
Empty == <<>>
ChanA == <<"A">>

\* what a faulty party 3 may inject: equivocating r-send in its own name, forged echoes/readys/answers for the
\* honest sender's slot and its own, for payloads 1 and 2
AlphaEquiv == {Msg(Root, j, 1, a, b) : j \in {0, 3}, a \in {RSEND, RECHO, RREADY}, b \in {1, 2, H(1), H(2)}}
AlphaSmall == {Msg(Root, 3, 1, RSEND, b) : b \in {1, 2}} \cup
              {Msg(Root, 3, 1, a, b) : a \in {RECHO, RREADY}, b \in {H(1), H(2)}}
AlphaA(S, J) == {Msg(ChanA, j, s, a, b) : j \in J, s \in S, a \in {RSEND, RECHO, RREADY, RANSWER}, b \in {1, 2, H(1), H(2)}}
AlphaNF == {Msg(ChanA, 3, 5, RSEND, b) : b \in {1, 2}} \cup
           {Msg(ChanA, 3, 5, a, b) : a \in {RECHO, RREADY}, b \in {H(1), H(2)}} \cup
           {Msg(ChanA, 3, 5, RANSWER, b) : b \in {1, 2}}
D1 == {1}
W0 == {0}
AllParties == Party
H2 == {0, 1}
\* sender 0 broadcasts on the root channel, then both move to channel B and 0 broadcasts again;
\* party 1 consumes with DeliverFrom only
P_df2 == [i \in H2 |-> IF i = 0 THEN <<B(1), SetC("B", TRUE), B(2)>> ELSE <<SetC("B", TRUE)>>]
AlphaForge == {Msg(Root, 0, 1, a, b) : a \in {RECHO, RREADY}, b \in {H(1), H(2)}} \cup
              {Msg(Root, 0, 1, RANSWER, b) : b \in {1, 2}} \cup {Msg(Root, 0, 1, RSEND, 2)}
\* a faulty helper that pushes the sender's non-FIFO slot (token 11) forward: echo / ready / answer
AlphaNFHelp == {Msg(ChanA, 0, 11, a, b) : a \in {RECHO, RREADY}, b \in {H(1)}} \cup {Msg(ChanA, 0, 11, RANSWER, 1)}
=============================================================================
