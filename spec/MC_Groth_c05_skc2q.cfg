SPECIFICATION Spec
CONSTANTS
 P = 23
 Q = 11
 N = 2
 LE = 2
 Kind = "c05_skc"
 CoinSet = {0}
 RSet = {0}
 PowM <- TabPowM
INVARIANT Theorem
CHECK_DEADLOCK FALSE
