SPECIFICATION Spec
CONSTANTS
 NPl = 2
 Wd = 2
INVARIANTS KeysOK OpenDecodes MaskTheorem MaskTwice
CHECK_DEADLOCK FALSE
