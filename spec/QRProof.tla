------------------------------- MODULE QRProof -------------------------------
(***************************************************************************)
(* The zero-knowledge proofs of the quadratic-residue card encoding         *)
(* (Schindelhauer's toolbox [Sc98], built on the QR / non-QR proofs of       *)
(* Goldwasser-Micali-Rackoff [GMR]), for Blum integers m = p q that fit      *)
(* TLC's integers (m <= 46337).                                              *)
(*                                                                           *)
(* Section 1: the protocols as they are DEFINED: what is committed, what is  *)
(*   revealed for either challenge bit, what the verifier tests.             *)
(* Section 2: the two roles as stream programs (what each party writes given *)
(*   the lines it has read and the coins it has drawn), so that the very     *)
(*   same operators are model-checked (MC_QRProof) and used to recompute     *)
(*   every line and verdict of a recorded execution (QRProofTrace).  The     *)
(*   order of draws / reads / writes is the round structure of              *)
(*   SchindelhauerTMCG.cc; the values are those of section 1.                *)
(* Section 3: the cheating provers of the soundness statements.              *)
(*                                                                           *)
(* Deviations of the implementation from the definition, all modelled        *)
(* explicitly and named where they occur:                                    *)
(*  D1  a revealed root equal to 1 is refused by every verifier; the provers *)
(*      redraw r = 1, and the QR prover stops on an assertion when a round's *)
(*      second root s = sqrt(t)/r is 1 (the coin r equals the root).         *)
(*  D2  commitments are compared as integers, so only the canonical          *)
(*      representative 0..m-1 of a commitment can pass the reveal test (the   *)
(*      product test R S = t is a congruence).                                *)
(*  D3  TMCG_ProveMaskValue stops on an assertion when z = zz (a masking     *)
(*      with r^2 y^b = 1).                                                    *)
(*  D4  the card-level mask proof is one independent value proof per entry:  *)
(*      nothing relates the bits of a column, so it does not show that the    *)
(*      type is preserved (GapD4 in MC_QRProof; Strict in QRProofTrace).      *)
(*  D5  TMCG_VerifyMaskOne (private, reachable only from the private         *)
(*      TMCG_VerifyPrivateCard and the _PerfectZeroKnowledge pair) overwrites *)
(*      the received bit with r^2 mod m before it takes its parity:           *)
(*      MaskOneAsCoded = TRUE models that, FALSE is the definition.           *)
(* NOT a modelled deviation: a revealed r must be a unit of Z_m (the         *)
(* definition says r in Z*_m).  The pinned TMCG_VerifyMaskValue /             *)
(* TMCG_VerifyMaskOne did not test that, so t_i = 0 with the answer (0, 0)    *)
(* passed for any statement; the specification refuses it.                    *)
(***************************************************************************)
EXTENDS QRCard
CONSTANT MaskOneAsCoded

MaxRounds == 80                                   \* TMCG_MAX_ZNP_ITERATIONS: the provers never run more rounds
Min2(a, b) == IF a <= b THEN a ELSE b
Mul(a, b, m) == ((a % m) * (b % m)) % m           \* products stay below 2^31 for m <= 46337
Sq(a, m) == Mul(a, a, m)
Odd(b) == b % 2 = 1
IsUnit(a, m) == GCD(a % m, m) = 1
Leg(a, p) == LET x == PowM(a % p, (p - 1) \div 2, p) IN IF x = 1 THEN 1 ELSE IF x = 0 THEN 0 ELSE -1
Jac(a, key) == Leg(a, key.p) * Leg(a, key.q)      \* Jacobi symbol modulo m = p q
YB(key, b) == IF Odd(b) THEN key.y % key.m ELSE 1
Mask(key, z, r, b) == Mul(Mul(z, Sq(r, key.m), key.m), YB(key, b), key.m)       \* z r^2 y^b  [Sc98]
Roots(t, key) == {x \in 1..(key.m - 1) : Sq(x, key.m) = t % key.m}
QRset(key) == {a \in Units(key.m) : IsQR(a, key)}
J1set(key) == {a \in Units(key.m) : Jac(a, key) = 1}
KeyOK(key) == /\ key.m = key.p * key.q /\ key.p # key.q /\ IsPrime(key.p) /\ IsPrime(key.q)
              /\ key.p % 4 = 3 /\ key.q % 4 = 3 /\ key.m <= 46337
YisNQR(key) == Leg(key.y, key.p) = -1 /\ Leg(key.y, key.q) = -1     \* the y of a well-formed key

(***************************************************************************)
(* 1. The protocols as defined                                              *)
(***************************************************************************)
\* --- QR(t): "t is a square".  Per round: r random, s = sqrt(t)/r; commit R = r^2, S = s^2 (R S = t);
\*     challenge 1 -> reveal r, challenge 0 -> reveal s.
QRCom(key, root, r) == <<Sq(r, key.m), Sq(Mul(root, InvM(r, key.m), key.m), key.m)>>
QRAns(key, root, r, c) == IF Odd(c) THEN r ELSE Mul(root, InvM(r, key.m), key.m)
QRComOK(key, t, R, S) == Mul(R, S, key.m) = t % key.m
QRAnsOK(key, R, S, c, a) == a # 1 /\ Sq(a, key.m) = (IF Odd(c) THEN R ELSE S)                      \* D1, D2
\* --- NQR(t): "t is no square (Jacobi symbol +1)": send t / y and prove that it is a square
NQRBar(key, t) == Mul(t, InvM(key.y, key.m), key.m)
NQRBarOK(key, t, bar) == Mul(bar, key.y, key.m) = t % key.m
\* --- MaskValue(z, zz): "I know (r, b) with zz = z r^2 y^b".  Per round: (r_i, b_i) random, commit
\*     t_i = zz r_i^2 y^b_i; challenge 1 -> reveal the masking zz -> t_i, challenge 0 -> the composed masking z -> t_i.
MVCom(key, zz, ri, bi) == Mask(key, zz, ri, bi)
MVAns(key, r, b, ri, bi, c) ==
  IF Odd(c) THEN <<ri, bi>>
  ELSE <<Mul(Mul(r, ri, key.m), IF Odd(b) /\ Odd(bi) THEN key.y ELSE 1, key.m), (b + bi) % 2>>
MVAnsOK(key, z, zz, T, c, v, bit) == IsUnit(v, key.m) /\ v # 1 /\ Mask(key, IF Odd(c) THEN zz ELSE z, v, bit) = T   \* D1, D2
\* --- MaskOne(t): "I know (r, b) with t = r^2 y^b" (the creator of a private card knows its content).  Per round:
\*     (r_i, b_i) random, c_i = b xor b_i, s_i = r / r_i (/ y when b = 0, b_i = 1); commit R = r_i^2 y^b_i,
\*     S = s_i^2 y^c_i (R S = t); challenge 1 -> (r_i, b_i), challenge 0 -> (s_i, c_i).
MOCom(key, r, b, ri, bi) ==
  LET m == key.m
      ci == (b + bi) % 2
      si == Mul(Mul(r, InvM(ri, m), m), IF ~Odd(b) /\ Odd(bi) THEN InvM(key.y, m) ELSE 1, m)
  IN [R |-> Mask(key, 1, ri, bi), S |-> Mask(key, 1, si, ci), s |-> si, c |-> ci]
MOAns(key, r, b, ri, bi, c) == IF Odd(c) THEN <<ri, bi>> ELSE LET k == MOCom(key, r, b, ri, bi) IN <<k.s, k.c>>
MOComOK(key, t, R, S) == Mul(R, S, key.m) = t % key.m
MOAnsOKDef(key, R, S, c, v, bit) == IsUnit(v, key.m) /\ v # 1 /\ Mask(key, 1, v, bit) = (IF Odd(c) THEN R ELSE S)
MOAnsOKCoded(key, R, S, c, v, bit) == MOAnsOKDef(key, R, S, c, v, Sq(v, key.m))                    \* D5
MOAnsOK(key, R, S, c, v, bit) == IF MaskOneAsCoded THEN MOAnsOKCoded(key, R, S, c, v, bit) ELSE MOAnsOKDef(key, R, S, c, v, bit)
\* --- perfect zero-knowledge proof that y is no square [GMR]: the verifier sends x = r^2 y^b together with a
\*     MaskOne proof that it knows (r, b); the prover answers whether x is a square; the answer must differ from b
PZKAnswer(key, x) == IF IsQR(x, key) THEN 1 ELSE 0
PZKAnsOK(b, a) == Odd(a) # Odd(b)

(***************************************************************************)
(* 2. The roles as stream programs                                          *)
(* L: the lines a party reads (integers), C: the draws it makes,            *)
(* [k |-> "b", v |-> byte] (one octet, the low bit is used) or               *)
(* [k |-> "m", v |-> residue, mod |-> modulus] (one draw of the residue      *)
(* sampler).  S = [li, ci, out, st, one]: next line / draw to consume, lines *)
(* written so far, status, and "a revealed value was 1" (D1).                *)
(* status: ok | rej (verifier returned false) | exc (a read past the end)    *)
(*         | abort (assertion) | bad (the log of draws does not fit)         *)
(***************************************************************************)
S0 == [li |-> 1, ci |-> 1, out |-> <<>>, st |-> "ok", one |-> FALSE]
Ok(S) == S.st = "ok"
St(S, x) == [S EXCEPT !.st = x]
Put(S, xs) == [S EXCEPT !.out = @ \o xs]
Pairs(f, n) == [j \in 1..(2 * n) |-> f[(j + 1) \div 2][IF j % 2 = 1 THEN 1 ELSE 2]]
Bits(C, from, n) == [i \in 1..n |-> C[from + i - 1].v % 2]
AreBits(C, from, n) == from + n - 1 <= Len(C) /\ \A i \in from..(from + n - 1) : C[i].k = "b"

RECURSIVE SkipBad(_, _, _, _)
\* index of the first draw at or after pos that the residue sampler keeps (a unit, and not 1 when no1);
\* 0: the log ends first, -1: a draw of another kind
SkipBad(C, pos, m, no1) ==
  IF pos > Len(C) THEN 0
  ELSE IF C[pos].k # "m" \/ C[pos].mod # m THEN -1
  ELSE IF GCD(C[pos].v, m) = 1 /\ (~no1 \/ C[pos].v # 1) THEN pos
  ELSE SkipBad(C, pos + 1, m, no1)

RECURSIVE Draws(_, _, _, _, _, _, _)
\* n rounds of: [one bit,] residues modulo m until one is kept.  Ends early where the log ends between two rounds.
Draws(C, pos, m, n, bit, no1, acc) ==
  IF n = 0 \/ pos > Len(C) THEN [rs |-> acc[1], bs |-> acc[2], ci |-> pos, ok |-> TRUE]
  ELSE IF bit /\ C[pos].k # "b" THEN [rs |-> acc[1], bs |-> acc[2], ci |-> pos, ok |-> FALSE]
  ELSE LET p2 == SkipBad(C, IF bit THEN pos + 1 ELSE pos, m, no1) IN
       IF p2 <= 0 THEN [rs |-> acc[1], bs |-> acc[2], ci |-> pos, ok |-> FALSE]
       ELSE Draws(C, p2 + 1, m, n - 1, bit, no1,
                  <<Append(acc[1], C[p2].v), Append(acc[2], IF bit THEN C[pos].v % 2 ELSE 0)>>)
Rounds(L, S) == Min2(IF L[S.li] < 0 THEN MaxRounds ELSE L[S.li], MaxRounds)

\* ------------------------------------------------------------------ QR
\* TMCG_ProveQuadraticResidue: read kappa; (P2) per round draw r (unit, # 1), stop on the assertion when r = root (D1),
\* write R, S; (P4) per round read the challenge, write r or s.
PQR(key, t, root, L, C, S) ==
  IF ~Ok(S) \/ S.li > Len(L) THEN S                       \* no security parameter to read: zero rounds, nothing written
  ELSE LET m == key.m
           n == Rounds(L, S)
           d == Draws(C, S.ci, m, n, FALSE, TRUE, <<<<>>, <<>>>>)
           ab == {i \in 1..Len(d.rs) : d.rs[i] = root % m}
           na == IF ab = {} THEN n ELSE Min(ab) - 1
       IN IF ~d.ok \/ Len(d.rs) # (IF ab = {} THEN n ELSE Min(ab)) THEN St(S, "bad")
          ELSE LET coms == Pairs([i \in 1..na |-> QRCom(key, root, d.rs[i])], na) IN
               IF ab # {} THEN [li |-> S.li + 1, ci |-> d.ci, out |-> S.out \o coms, st |-> "abort", one |-> TRUE]
               ELSE LET have == Min2(n, Len(L) - S.li)
                        ans == [i \in 1..have |-> QRAns(key, root, d.rs[i], L[S.li + i])]
                    IN [li |-> S.li + 1 + have, ci |-> d.ci, out |-> S.out \o coms \o ans,
                        st |-> IF have < n THEN "exc" ELSE "ok", one |-> S.one \/ \E i \in 1..have : ans[i] = 1]

\* TMCG_VerifyQuadraticResidue: write kappa; t must have Jacobi symbol +1; (V3) read all (R, S), each must satisfy
\* R S = t; (V4) per round draw the challenge, write it, read the answer, test it.
VQR(key, t, kap, L, C, S) ==
  IF ~Ok(S) THEN S
  ELSE LET S1 == Put(S, <<kap>>)
           have(i) == S.li + 2 * i - 1 <= Len(L)
           R(i) == L[S.li + 2 * i - 2]
           Sv(i) == L[S.li + 2 * i - 1]
           badc == {i \in 1..kap : ~have(i) \/ ~QRComOK(key, t, R(i), Sv(i))}
           la == S.li + 2 * kap
           rOK(i) == la + i - 1 <= Len(L) /\ QRAnsOK(key, R(i), Sv(i), C[S.ci + i - 1].v, L[la + i - 1])
       IN IF Jac(t, key) # 1 THEN St(S1, "rej")
          ELSE IF badc # {} THEN St(S1, IF have(Min(badc)) THEN "rej" ELSE "exc")
          ELSE LET RECURSIVE First(_)
                   First(i) == IF i > kap THEN kap + 1 ELSE IF ~AreBits(C, S.ci + i - 1, 1) THEN -i ELSE IF rOK(i) THEN First(i + 1) ELSE i
                   f == First(1)
                   nr == IF f < 0 THEN -f - 1 ELSE Min2(f, kap)                  \* challenges drawn and written
                   S2 == [li |-> la + nr, ci |-> S.ci + nr, out |-> S1.out \o Bits(C, S.ci, nr), st |-> "ok", one |-> S.one]
               IN IF f < 0 THEN St(S2, "bad")
                  ELSE IF f > kap THEN S2
                  ELSE St(S2, IF la + f - 1 <= Len(L) THEN "rej" ELSE "exc")

\* ------------------------------------------------------------------ NQR
PNQR(key, t, root, L, C, S) == IF ~Ok(S) THEN S ELSE PQR(key, NQRBar(key, t), root, L, C, Put(S, <<NQRBar(key, t)>>))
VNQR(key, t, kap, L, C, S) ==
  IF ~Ok(S) THEN S
  ELSE IF S.li > Len(L) THEN St(S, "exc")
  ELSE IF ~NQRBarOK(key, t, L[S.li]) THEN St(S, "rej")                 \* before the security parameter is written
  ELSE VQR(key, L[S.li], kap, L, C, [S EXCEPT !.li = @ + 1])

\* ------------------------------------------------------------------ MaskValue
\* TMCG_ProveMaskValue: read kappa; assertion z # zz (D3); (P2) per round draw b_i then r_i (unit, # 1), write t_i;
\* (P4) per round read the challenge, write (r_i, b_i) or the composed pair.
PMV(key, z, zz, r, b, L, C, S) ==
  IF ~Ok(S) THEN S
  ELSE IF z = zz THEN [S EXCEPT !.st = "abort", !.one = TRUE, !.li = Min2(@ + 1, Len(L) + 1)]
  ELSE IF S.li > Len(L) THEN S
  ELSE LET m == key.m
           n == Rounds(L, S)
           d == Draws(C, S.ci, m, n, TRUE, TRUE, <<<<>>, <<>>>>)
       IN IF ~d.ok \/ Len(d.rs) # n THEN St(S, "bad")
          ELSE LET coms == [i \in 1..n |-> MVCom(key, zz, d.rs[i], d.bs[i])]
                   have == Min2(n, Len(L) - S.li)
                   ans == [i \in 1..have |-> MVAns(key, r, b, d.rs[i], d.bs[i], L[S.li + i])]
               IN [li |-> S.li + 1 + have, ci |-> d.ci, out |-> S.out \o coms \o Pairs(ans, have),
                   st |-> IF have < n THEN "exc" ELSE "ok", one |-> S.one \/ \E i \in 1..have : ans[i][1] = 1]

\* TMCG_VerifyMaskValue: write kappa; (V3) read all t_i; (V4) per round draw the challenge, write it, read (v, bit),
\* mask zz (challenge 1) or z (challenge 0) with it and compare with t_i; v must be a unit other than 1.
VMV(key, z, zz, kap, L, C, S) ==
  IF ~Ok(S) THEN S
  ELSE LET S1 == Put(S, <<kap>>)
           la == S.li + kap
           T(i) == L[S.li + i - 1]
           rHave(i) == la + 2 * i - 1 <= Len(L)
           rOK(i) == rHave(i) /\ MVAnsOK(key, z, zz, T(i), C[S.ci + i - 1].v, L[la + 2 * i - 2], L[la + 2 * i - 1])
       IN IF la - 1 > Len(L) THEN St(S1, "exc")
          ELSE LET RECURSIVE First(_)
                   First(i) == IF i > kap THEN kap + 1 ELSE IF ~AreBits(C, S.ci + i - 1, 1) THEN -i ELSE IF rOK(i) THEN First(i + 1) ELSE i
                   f == First(1)
                   nr == IF f < 0 THEN -f - 1 ELSE Min2(f, kap)
                   S2 == [li |-> la + 2 * nr, ci |-> S.ci + nr, out |-> S1.out \o Bits(C, S.ci, nr), st |-> "ok", one |-> S.one]
               IN IF f < 0 THEN St(S2, "bad")
                  ELSE IF f > kap THEN S2
                  ELSE St(S2, IF rHave(f) THEN "rej" ELSE "exc")

\* ------------------------------------------------------------------ MaskOne
\* TMCG_ProveMaskOne: read kappa; (P2) per round draw b_i then r_i (unit, # 1), write R, S; (P4) answer.  No assertion.
PMO(key, r, b, L, C, S) ==
  IF ~Ok(S) \/ S.li > Len(L) THEN S
  ELSE LET m == key.m
           n == Rounds(L, S)
           d == Draws(C, S.ci, m, n, TRUE, TRUE, <<<<>>, <<>>>>)
       IN IF ~d.ok \/ Len(d.rs) # n THEN St(S, "bad")
          ELSE LET k(i) == MOCom(key, r, b, d.rs[i], d.bs[i])
                   coms == Pairs([i \in 1..n |-> <<k(i).R, k(i).S>>], n)
                   have == Min2(n, Len(L) - S.li)
                   ans == [i \in 1..have |-> MOAns(key, r, b, d.rs[i], d.bs[i], L[S.li + i])]
               IN [li |-> S.li + 1 + have, ci |-> d.ci, out |-> S.out \o coms \o Pairs(ans, have),
                   st |-> IF have < n THEN "exc" ELSE "ok", one |-> S.one \/ \E i \in 1..have : ans[i][1] = 1]

\* TMCG_VerifyMaskOne: write kappa; (V3) read all (R, S), each with R S = t; (V4) per round challenge, read (v, bit), test
VMO(key, t, kap, L, C, S) ==
  IF ~Ok(S) THEN S
  ELSE LET S1 == Put(S, <<kap>>)
           have(i) == S.li + 2 * i - 1 <= Len(L)
           R(i) == L[S.li + 2 * i - 2]
           Sv(i) == L[S.li + 2 * i - 1]
           badc == {i \in 1..kap : ~have(i) \/ ~MOComOK(key, t, R(i), Sv(i))}
           la == S.li + 2 * kap
           rHave(i) == la + 2 * i - 1 <= Len(L)
           rOK(i) == rHave(i) /\ MOAnsOK(key, R(i), Sv(i), C[S.ci + i - 1].v, L[la + 2 * i - 2], L[la + 2 * i - 1])
       IN IF badc # {} THEN St(S1, IF have(Min(badc)) THEN "rej" ELSE "exc")
          ELSE LET RECURSIVE First(_)
                   First(i) == IF i > kap THEN kap + 1 ELSE IF ~AreBits(C, S.ci + i - 1, 1) THEN -i ELSE IF rOK(i) THEN First(i + 1) ELSE i
                   f == First(1)
                   nr == IF f < 0 THEN -f - 1 ELSE Min2(f, kap)
                   S2 == [li |-> la + 2 * nr, ci |-> S.ci + nr, out |-> S1.out \o Bits(C, S.ci, nr), st |-> "ok", one |-> S.one]
               IN IF f < 0 THEN St(S2, "bad")
                  ELSE IF f > kap THEN S2
                  ELSE St(S2, IF rHave(f) THEN "rej" ELSE "exc")

\* ------------------------------------------------------------------ y is no square, perfect zero knowledge
\* TMCG_VerifyNonQuadraticResidue_PerfectZeroKnowledge: write kappa; per round draw b, then r (unit, 1 allowed),
\* write x = r^2 y^b, run the MaskOne PROVER for (r, b), read the answer (an exception of the inner prover or a missing
\* answer is an exception of this verifier), refuse when the answer's parity equals b.
RECURSIVE VPZKr(_, _, _, _, _, _)
VPZKr(key, i, kap, L, C, S) ==
  IF i > kap \/ ~Ok(S) THEN S
  ELSE LET d == Draws(C, S.ci, key.m, 1, TRUE, FALSE, <<<<>>, <<>>>>) IN
       IF ~d.ok \/ Len(d.rs) # 1 THEN St(S, "bad")
       ELSE LET r == d.rs[1]
                b == d.bs[1]
                S1 == PMO(key, r, b, L, C, [Put(S, <<Mask(key, 1, r, b)>>) EXCEPT !.ci = d.ci])
            IN IF ~Ok(S1) THEN S1
               ELSE IF S1.li > Len(L) THEN St(S1, "exc")
               ELSE IF ~PZKAnsOK(b, L[S1.li]) THEN St([S1 EXCEPT !.li = @ + 1], "rej")
               ELSE VPZKr(key, i + 1, kap, L, C, [S1 EXCEPT !.li = @ + 1])
VPZK(key, kap, L, C, S) == IF ~Ok(S) THEN S ELSE VPZKr(key, 1, kap, L, C, Put(S, <<kap>>))

\* TMCG_ProveNonQuadraticResidue_PerfectZeroKnowledge: read kappa; per round read x, run the MaskOne VERIFIER (with the
\* security parameter of the prover's own object), on success write 1 (x is a square) or 0, otherwise stop.
RECURSIVE PPZKr(_, _, _, _, _, _, _)
PPZKr(key, i, n, kapP, L, C, S) ==
  IF i > n \/ ~Ok(S) THEN S
  ELSE IF S.li > Len(L) THEN St(S, "exc")
  ELSE LET x == L[S.li]
           S1 == VMO(key, x, kapP, L, C, [S EXCEPT !.li = @ + 1])
       IN IF ~Ok(S1) THEN S1
          ELSE PPZKr(key, i + 1, n, kapP, L, C, Put(S1, <<PZKAnswer(key, x)>>))
PPZK(key, kapP, L, C, S) ==
  IF ~Ok(S) \/ S.li > Len(L) THEN S ELSE PPZKr(key, 1, Rounds(L, S), kapP, L, C, [S EXCEPT !.li = @ + 1])

\* ------------------------------------------------------------------ card level: one value proof per entry, row by row
Entries(NP, W) == [j \in 1..(NP * W) |-> <<((j - 1) \div W) + 1, ((j - 1) % W) + 1>>]
RECURSIVE FoldE(_, _, _, _)
FoldE(Op(_, _, _), E, j, S) == IF j > Len(E) \/ ~Ok(S) THEN S ELSE FoldE(Op, E, j + 1, Op(E[j][1], E[j][2], S))
PMaskCard(keys, c, cc, sec, L, C, S) ==
  LET Op(k, w, T) == PMV(keys[k], c[k][w], cc[k][w], sec.r[k][w], sec.b[k][w], L, C, T)
  IN FoldE(Op, Entries(Len(c), Len(c[1])), 1, S)
VMaskCard(keys, c, cc, kap, L, C, S) ==
  LET Op(k, w, T) == VMV(keys[k], c[k][w], cc[k][w], kap, L, C, T)
  IN FoldE(Op, Entries(Len(c), Len(c[1])), 1, S)
PPrivateCard(keys, sec, L, C, S) ==
  LET Op(k, w, T) == PMO(keys[k], sec.r[k][w], sec.b[k][w], L, C, T)
  IN FoldE(Op, Entries(Len(sec.r), Len(sec.r[1])), 1, S)
VPrivateCard(keys, c, kap, L, C, S) ==
  LET Op(k, w, T) == VMO(keys[k], c[k][w], kap, L, C, T)
  IN FoldE(Op, Entries(Len(c), Len(c[1])), 1, S)
\* opening of row idx: per type bit the claimed bit, then the QR proof (bit 0) or the NQR proof (bit 1)
PCardSecret(key, row, roots, L, C, S) ==
  LET Op(k, w, T) == IF IsQR(row[w], key) THEN PQR(key, row[w], roots[w], L, C, Put(T, <<0>>))
                     ELSE PNQR(key, row[w], roots[w], L, C, Put(T, <<1>>))
  IN FoldE(Op, Entries(1, Len(row)), 1, S)
VCardSecret(key, row, kap, L, C, S) ==
  LET Op(k, w, T) == IF T.li > Len(L) THEN St(T, "exc")
                     ELSE IF Odd(L[T.li]) THEN VNQR(key, row[w], kap, L, C, [T EXCEPT !.li = @ + 1])
                     ELSE VQR(key, row[w], kap, L, C, [T EXCEPT !.li = @ + 1])
  IN FoldE(Op, Entries(1, Len(row)), 1, S)
\* the bits the verifier has stored (cs.b[idx][w]) when it returns: the bit lines it has read, in order
RECURSIVE VCSBits(_, _, _, _, _, _, _)
VCSBits(key, row, kap, L, C, w, S) ==
  IF w > Len(row) \/ ~Ok(S) \/ S.li > Len(L) THEN <<>>
  ELSE LET bit == L[S.li]
           T == IF Odd(bit) THEN VNQR(key, row[w], kap, L, C, [S EXCEPT !.li = @ + 1])
                ELSE VQR(key, row[w], kap, L, C, [S EXCEPT !.li = @ + 1])
       IN <<bit>> \o VCSBits(key, row, kap, L, C, w + 1, T)

(***************************************************************************)
(* 3. Cheating provers (harness/drv_qrproof.cc plays them; the spec fixes    *)
(* what they send so that the soundness statements are about exactly them)  *)
(***************************************************************************)
\* prepared for the challenge string g: round i can answer challenge g[i] only.  u is drawn like an honest r.
Gi(g, i) == IF i <= Len(g) THEN g[i] ELSE 0        \* more rounds than guessed bits (a changed security parameter): guess 0
GQRCom(key, t, u, gi) == LET q == Sq(u, key.m) o == Mul(t, InvM(q, key.m), key.m) IN IF Odd(gi) THEN <<q, o>> ELSE <<o, q>>
PGuessQR(key, t, g, L, C, S) ==
  IF ~Ok(S) \/ S.li > Len(L) THEN S
  ELSE LET n == Rounds(L, S)
           d == Draws(C, S.ci, key.m, n, FALSE, TRUE, <<<<>>, <<>>>>)
       IN IF ~d.ok \/ Len(d.rs) # n THEN St(S, "bad")
          ELSE LET have == Min2(n, Len(L) - S.li) IN
               [li |-> S.li + 1 + have, ci |-> d.ci,
                out |-> S.out \o Pairs([i \in 1..n |-> GQRCom(key, t, d.rs[i], Gi(g, i))], n) \o [i \in 1..have |-> d.rs[i]],
                st |-> IF have < n THEN "exc" ELSE "ok", one |-> S.one]
PGuessNQR(key, t, g, L, C, S) == IF ~Ok(S) THEN S ELSE PGuessQR(key, NQRBar(key, t), g, L, C, Put(S, <<NQRBar(key, t)>>))
\* NQR claimed with a value that has nothing to do with t: sends a square bar and proves honestly that it is one
PUnrelNQR(key, bar, root, L, C, S) == IF ~Ok(S) THEN S ELSE PQR(key, bar, root, L, C, Put(S, <<bar>>))
\* MaskValue for a pair (z, zz) without a masking between them: round i committed as a masking of zz (guess 1) or of z (guess 0)
PGuessMV(key, z, zz, g, L, C, S) ==
  IF ~Ok(S) \/ S.li > Len(L) THEN S
  ELSE LET n == Rounds(L, S)
           d == Draws(C, S.ci, key.m, n, TRUE, TRUE, <<<<>>, <<>>>>)
       IN IF ~d.ok \/ Len(d.rs) # n THEN St(S, "bad")
          ELSE LET have == Min2(n, Len(L) - S.li) IN
               [li |-> S.li + 1 + have, ci |-> d.ci,
                out |-> S.out \o [i \in 1..n |-> Mask(key, IF Odd(Gi(g, i)) THEN zz ELSE z, d.rs[i], d.bs[i])]
                             \o Pairs([i \in 1..have |-> <<d.rs[i], d.bs[i]>>], have),
                st |-> IF have < n THEN "exc" ELSE "ok", one |-> S.one]
\* MaskOne for a value t outside {r^2 y^b}: the prepared side is a masking of 1, the other side is t divided by it
PGuessMO(key, t, g, L, C, S) ==
  IF ~Ok(S) \/ S.li > Len(L) THEN S
  ELSE LET n == Rounds(L, S)
           d == Draws(C, S.ci, key.m, n, TRUE, TRUE, <<<<>>, <<>>>>)
           com(i) == LET q == Mask(key, 1, d.rs[i], d.bs[i]) o == Mul(t, InvM(q, key.m), key.m) IN IF Odd(Gi(g, i)) THEN <<q, o>> ELSE <<o, q>>
       IN IF ~d.ok \/ Len(d.rs) # n THEN St(S, "bad")
          ELSE LET have == Min2(n, Len(L) - S.li) IN
               [li |-> S.li + 1 + have, ci |-> d.ci,
                out |-> S.out \o Pairs([i \in 1..n |-> com(i)], n) \o Pairs([i \in 1..have |-> <<d.rs[i], d.bs[i]>>], have),
                st |-> IF have < n THEN "exc" ELSE "ok", one |-> S.one]
\* the prover that sends nothing but zeros: kappa commitments 0, every answer (0, 0); must be refused
PZeroMV(L, S) ==
  IF ~Ok(S) \/ S.li > Len(L) THEN S
  ELSE LET n == Rounds(L, S)
           have == Min2(n, Len(L) - S.li)
       IN [li |-> S.li + 1 + have, ci |-> S.ci, out |-> S.out \o [i \in 1..(n + 2 * have) |-> 0],
           st |-> IF have < n THEN "exc" ELSE "ok", one |-> S.one]
\* an opening that lies about bit lw of the row: the other bits are opened honestly, bit lw is claimed flipped and
\* "proved" by the guessing prover
PCardSecretLie(key, row, roots, lw, g, L, C, S) ==
  LET Op(k, w, T) == IF w # lw THEN (IF IsQR(row[w], key) THEN PQR(key, row[w], roots[w], L, C, Put(T, <<0>>))
                                     ELSE PNQR(key, row[w], roots[w], L, C, Put(T, <<1>>)))
                     ELSE IF IsQR(row[w], key) THEN PGuessNQR(key, row[w], g, L, C, Put(T, <<1>>))
                     ELSE PGuessQR(key, row[w], g, L, C, Put(T, <<0>>))
  IN FoldE(Op, Entries(1, Len(row)), 1, S)

(***************************************************************************)
(* 4. The statements                                                        *)
(***************************************************************************)
QRTrue(key, t) == IsUnit(t, key.m) /\ IsQR(t, key)
NQRTrue(key, t) == IsUnit(t, key.m) /\ Jac(t, key) = 1 /\ ~IsQR(t, key)
\* zz is a masking of z: for a well-formed key every pair of units with equal Jacobi symbol is one (r^2 y^b runs through
\* all units of Jacobi symbol +1), so the only false statements are pairs with different symbols or non-units
MVTrue(key, z, zz) == \E r \in Units(key.m), b \in {0, 1} : Mask(key, z, r, b) = zz % key.m
MVTrueJ(key, z, zz) == IsUnit(z, key.m) /\ IsUnit(zz, key.m) /\ Jac(z, key) = Jac(zz, key)
MOTrue(key, t) == \E r \in Units(key.m), b \in {0, 1} : Mask(key, 1, r, b) = t % key.m
MOTrueJ(key, t) == IsUnit(t, key.m) /\ Jac(t, key) = 1
=============================================================================
