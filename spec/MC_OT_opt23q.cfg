SPECIFICATION Spec
CONSTANTS
 P = 23
 Q = 11
 Gg = 2
 Vars = {"opt"}
 Ns = {2, 3}
 MsgVecs <- MV23s
 CCoins <- C6
 SCoins <- C2d
 Tamper = FALSE
 PowM <- TabPowM
INVARIANTS Correct HonestAbort Refusal OneOnly Curious CuriousPairs
CHECK_DEADLOCK FALSE
