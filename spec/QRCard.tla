------------------------------- MODULE QRCard -------------------------------
(***************************************************************************)
(* The quadratic-residuosity card encoding of Schindelhauer's toolbox      *)
(* [Sc98]: player k holds a Blum modulus m_k = p_k q_k and a non-residue   *)
(* y_k with Jacobi symbol +1.  A card is a matrix z[k][w] over Z*_{m_k};   *)
(* bit w of the type is the XOR over the players k of "z[k][w] is a        *)
(* non-residue mod m_k".  Masking multiplies by r^2 y^b; a card secret     *)
(* whose bits XOR to zero in every column leaves the type unchanged.       *)
(***************************************************************************)
EXTENDS Prims

\* quadratic residuosity modulo a Blum integer, decided with the factors (Euler's criterion)
IsQRp(a, p) == PowM(a % p, (p - 1) \div 2, p) = 1
IsQR(a, key) == IsQRp(a, key.p) /\ IsQRp(a, key.q)
Bit(a, key) == IF IsQR(a, key) THEN 0 ELSE 1
Xor(a, b) == (a + b) % 2
XorAll(s) == SeqSum(s) % 2

MaskValue(key, z, r, b) == (((z * ((r * r) % key.m)) % key.m) * (IF b = 1 THEN key.y ELSE 1)) % key.m
OpenCard(keys, W, t) ==
  [k \in 1..Len(keys) |-> [w \in 1..W |-> IF k = 1 /\ (t \div (2 ^ (w - 1))) % 2 = 1 THEN keys[1].y ELSE 1]]
MaskCard(keys, c, sec) ==
  [k \in 1..Len(keys) |-> [w \in 1..Len(c[k]) |-> MaskValue(keys[k], c[k][w], sec.r[k][w], sec.b[k][w])]]
RowBits(key, row) == [w \in 1..Len(row) |-> Bit(row[w], key)]
TypeOfBits(bits) ==      \* bits[k][w]
  LET W == Len(bits[1])
      col(w) == XorAll([k \in 1..Len(bits) |-> bits[k][w]])
      RECURSIVE F(_) F(w) == IF w > W THEN 0 ELSE col(w) * (2 ^ (w - 1)) + F(w + 1)
  IN F(1)
TypeOfCard(keys, c) == TypeOfBits([k \in 1..Len(keys) |-> RowBits(keys[k], c[k])])
NeutralSecret(sec) == \A w \in 1..Len(sec.b[1]) : XorAll([k \in 1..Len(sec.b) |-> sec.b[k][w]]) = 0
Units(m) == {a \in 1..(m - 1) : GCD(a, m) = 1}
=============================================================================
