SPECIFICATION Spec
CONSTANTS
 Fam = "koch"
 P <- PThorough
INVARIANTS Theorems Emit
CHECK_DEADLOCK FALSE
