SPECIFICATION Spec
CONSTANTS
 Insts <- Insts_C03_q
 MaskOneAsCoded = TRUE
INVARIANT Thm
CHECK_DEADLOCK FALSE
