SPECIFICATION PSpec
CONSTANTS
 MaskOneAsCoded = TRUE
 Strict = FALSE
POSTCONDITION Accepted
CHECK_DEADLOCK FALSE
