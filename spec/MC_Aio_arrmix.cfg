SPECIFICATION MCSpec
CONSTANTS
 N = 2
 Auth = FALSE
 Enc = FALSE
 Chunked = TRUE
 Variant = "select"
 MACLEN = 2
 BLK = 2
 BUFSZ = 12
 Delim = 63
 NoVal <- NoValMC
 Rcv = 1
 Prog <- ProgMix
 MaxFault = 0
 Kinds <- AllKinds
 Scheds = {3}
 ArrSize = 2
 TagNL <- NoTagNL
 IvNL = {}
INVARIANTS InOrderI CompleteAlways AuthSafeI NothingForged FramesFit 
PROPERTIES StoppedStays
CHECK_DEADLOCK FALSE
