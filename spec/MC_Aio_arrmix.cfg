SPECIFICATION MCSpec
CONSTANTS
 CN = 2
 CAuth = FALSE
 CEnc = FALSE
 CChunked = TRUE
 CVariant = "select"
 CMACLEN = 2
 CBLK = 2
 CBUFSZ = 12
 Delim = 63
 NoVal <- NoValMC
 Rcv = 1
 Prog <- ProgMix
 MaxFault = 0
 Kinds <- AllKinds
 Scheds = {3}
 ArrSize = 2
 TagNL <- NoTagNL
 IvNL = {}
INVARIANTS InOrderI CompleteAlways AuthSafeI NothingForged FramesFit 
PROPERTIES StoppedStays
CHECK_DEADLOCK FALSE
