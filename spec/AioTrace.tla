----------------------------- MODULE AioTrace -----------------------------
(* Trace validation for the point-to-point links: a log recorded from N     *)
(* real aiounicast_select / aiounicast_nonblock objects connected through   *)
(* the harness-owned byte relay (harness/drv_aio.cc) must be a behaviour of *)
(* Aio.tla.  Events: Send (the octets the sender wrote), Move (octets the    *)
(* relay handed over), Fault (how the relay rewrote what it holds), Recv /   *)
(* RecvArr (one call with timeout 0: scheduler, result, sender index,       *)
(* value(s), and the projected reassembly state of every link).  Every     *)
(* result is recomputed with the operators of Aio.tla; the framing rules   *)
(* (what a sender may put on the wire) are checked on the real octets; the *)
(* invariants of Aio.tla are evaluated in every state on the way.          *)
EXTENDS Aio, Json, IOUtils, TLCExt

CONSTANTS ENCLEN,      \* length of the ciphertext line of a small integer, stream mode
          ENCLENCHK    \* ... chunked mode (without the counter suffix)
(* Derivation.  The plaintext is the base-62 text of v + 2^256: 43 digits for every v < 62^43 - 2^256    *)
(* (62^42 < 2^256 < 62^43).  Stream mode: the wire integer is the 44-octet string '+' || 43 ciphertext   *)
(* octets, i.e. a number in [43 * 256^43, 44 * 256^43), which has 59 base-62 digits (62^58 < 43 * 2^344  *)
(* and 44 * 2^344 < 62^59).  Chunked mode pads the text to the cipher block: 48 ciphertext octets, a     *)
(* number in [43 * 256^48, 44 * 256^48): 66 base-62 digits.  So the line length does not depend on v.    *)

TraceFile == IF "TRACE" \in DOMAIN IOEnv THEN IOEnv.TRACE ELSE "trace.ndjson"
TraceLog == ndJsonDeserialize(TraceFile)

VARIABLES l,     \* position in the log
          uni    \* this execution sends and receives arrays of one size only
tvars == <<w, l, uni>>

Ev == TraceLog[l]
IsEv(name) == l <= Len(TraceLog) /\ Ev.e = name

--------------------------------------------------------------------------
(* framing rules on the real octets                                         *)
CtOf(line) == LET S == {k \in 1..Len(line) : line[k] = BAR} IN IF S = {} THEN line ELSE Take(line, MinOf(S) - 1)
LineRule(W, a, b, sv, line) ==
  LET m == Len(W.tx[a][b]) + 1
      bars == {k \in 1..Len(line) : line[k] = BAR}
      ct == CtOf(line)
  IN IF ~Enc
     THEN /\ \A k \in 1..Len(line) : IsB62(line[k])
          /\ (sv >= 0 => line = B62(sv))                       \* the integer's digits, nothing else
     ELSE /\ (IF Chk THEN Cardinality(bars) = 1 /\ Drop(line, MinOf(bars)) = B62(m) ELSE bars = {})
          /\ Len(ct) >= 1 /\ \A k \in 1..Len(ct) : IsB62(ct[k])
          /\ \A k \in 1..(m - 1) : CtOf(W.tx[a][b][k].line) # ct   \* equal integers, different wire octets
          /\ (sv >= 0 => Len(ct) = (IF Chk THEN ENCLENCHK ELSE ENCLEN))   \* length hidden
          /\ (sv >= 14776336 => ~Contains(ct, B62(sv)))       \* digits not exposed (5 digits or more: no chance match)

\* cut the octets one Send call wrote into n frames
RECURSIVE Split(_, _, _)
Split(bs, first, n) ==
  IF n = 0 THEN [ok |-> bs = <<>>, fr |-> <<>>]
  ELSE LET ivl == IF Enc /\ first THEN BLK ELSE 0
           body == Drop(bs, ivl)
           p == FirstNL(body)
       IN IF Len(bs) < ivl \/ p = 0 \/ Len(body) < p + MacLen THEN [ok |-> FALSE, fr |-> <<>>]
          ELSE LET f == [iv |-> Take(bs, ivl), line |-> Take(body, p - 1), tag |-> SubSeq(body, p + 1, p + MacLen)]
                   r == Split(Drop(body, p + MacLen), FALSE, n - 1)
               IN [ok |-> r.ok, fr |-> <<f>> \o r.fr]

RECURSIVE FramesOK(_, _, _, _, _, _)
FramesOK(W, a, b, vals, svs, fr) ==
  IF vals = <<>> THEN TRUE
  ELSE LET f == Head(fr) IN
       /\ FrameOK(W, a, b, f.iv, f.line, f.tag)
       /\ LineRule(W, a, b, Head(svs), f.line)
       /\ FramesOK(PutMsg(W, a, b, Head(vals), f.iv, f.line, f.tag), a, b, Tail(vals), Tail(svs), Tail(fr))
RECURSIVE PutAll(_, _, _, _, _)
PutAll(W, a, b, vals, fr) ==
  IF vals = <<>> THEN W
  ELSE PutAll(PutMsg(W, a, b, Head(vals), Head(fr).iv, Head(fr).line, Head(fr).tag), a, b, Tail(vals), Tail(fr))

--------------------------------------------------------------------------
TInit == l = 1 /\ w = WInit(MkCfg(2, "select", FALSE, FALSE, FALSE, 32, 16, 4096)) /\ uni = FALSE

TReset ==
  /\ IsEv("Reset")
  /\ w' = WInit(MkCfg(Ev.n, Ev.variant, Ev.auth, Ev.enc, Ev.chunked, Ev.maclen, Ev.blk, Ev.bufsz))
  /\ uni' = Ev.uni /\ l' = l + 1

TSend ==
  /\ IsEv("Send")
  /\ LET a == Ev.a  b == Ev.b
         vals == IF Ev.arr THEN ArrayValues(Ev.vs) ELSE Ev.vs
         svs == IF Ev.arr /\ Chk THEN Append(Ev.sv, -1) ELSE Ev.sv
     IN IF Ev.ok
        THEN LET s == Split(Ev.bytes, w.tx[a][b] = <<>>, Len(vals))
                 W1 == PutAll(w, a, b, vals, s.fr)
             IN /\ s.ok
                /\ FramesOK(w, a, b, vals, svs, s.fr)
                /\ w' = IF Ev.arr THEN [W1 EXCEPT !.sarrs[a][b] = Append(@, Ev.vs)] ELSE W1
        ELSE \* refused: nothing written, and only a value whose text does not fit half the buffer
             /\ Ev.bytes = <<>> /\ ~Ev.arr
             /\ 2 * (Ev.nd[1] + 1) >= BUFSZ
             /\ UNCHANGED w
  /\ (~Ev.arr /\ 2 * (Ev.nd[1] + 1) < BUFSZ => Ev.ok)        \* what fits is accepted
  /\ l' = l + 1 /\ UNCHANGED uni

TMove ==
  /\ IsEv("Move")
  /\ Ev.k >= 0 /\ Ev.k <= Len(w.wire[Ev.a][Ev.b])
  /\ w' = DoMove(w, Ev.a, Ev.b, Ev.k)
  /\ l' = l + 1 /\ UNCHANGED uni

TFault ==
  /\ IsEv("Fault")
  /\ Auth                                   \* the catalogue is applied to authenticated links only
  /\ Ev.pos + Ev.del <= Len(w.wire[Ev.a][Ev.b])
  /\ w' = DoSplice(w, Ev.a, Ev.b, Ev.pos, Ev.del, Ev.ins)
  /\ l' = l + 1 /\ UNCHANGED uni

\* projected reassembly state of every link of receiver b after the call: fill level, flag, sequence number
Proj(W, b, st) == \A a \in Party :
  /\ st[a + 1][1] = Len(W.lk[b][a].buf)
  /\ st[a + 1][2] = W.lk[b][a].flag
  /\ (Auth => st[a + 1][3] = W.lk[b][a].sqn)

TRecv ==
  /\ IsEv("Recv")
  /\ LET r == DoRecv(w, Ev.b, Ev.sched, Ev.who, Ev.picks)
     IN /\ r.ok = Ev.ok
        /\ r.from = Ev.from
        /\ (r.ok => r.v = Ev.v)
        /\ Proj(r.W, Ev.b, Ev.st)
        /\ w' = r.W
  /\ l' = l + 1 /\ UNCHANGED uni

TRecvArr ==
  /\ IsEv("RecvArr")
  /\ LET r == DoRecvArr(w, Ev.b, Ev.size, Ev.sched, Ev.who, Ev.picks)
     IN /\ r.ok = Ev.ok
        /\ r.from = Ev.from
        /\ (r.ok => r.vs = Ev.vs)
        /\ Proj(r.W, Ev.b, Ev.st)
        /\ \A a \in Party : Ev.ql[a + 1] = Len(r.W.q[Ev.b][a])
        /\ w' = r.W
  /\ l' = l + 1 /\ UNCHANGED uni

\* end of an execution: the relay holds nothing (a stopped link may leave octets unread in its socket)
TQuiesce ==
  /\ IsEv("Quiesce")
  /\ \A a \in Party, b \in Party : w.wire[a][b] = <<>>
  /\ l' = l + 1 /\ UNCHANGED <<w, uni>>

TNext == TReset \/ TSend \/ TMove \/ TFault \/ TRecv \/ TRecvArr \/ TQuiesce
TSpec == TInit /\ [][TNext]_tvars

InOrderT == InOrder(w)
CompleteT == Complete(w)
AuthSafeT == AuthSafe(w)
ArraysWholeT == uni => ArraysWhole(w)

NotAccepted == l <= Len(TraceLog)
Accepted == TLCGet("stats").diameter = Len(TraceLog) + 1
=============================================================================
