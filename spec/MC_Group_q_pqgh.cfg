SPECIFICATION Spec
CONSTANTS
 MaxP = 47
 MaxQ = 23
 MaxK = 7
 Margin = 4
 Variants <- V_pqgh
 NaiveMaxP = 11
 Mode = "nbr"
 CheckArith = FALSE
INVARIANTS BlockIsDefinition Sound Complete Shape Elements Emit
CHECK_DEADLOCK FALSE
