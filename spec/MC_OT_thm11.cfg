SPECIFICATION ThmSpec
CONSTANTS
 P = 11
 Q = 5
 Gg = 3
 Vars = {"two"}
 Ns = {2}
 MsgVecs = {}
 CCoins = {}
 SCoins = {}
 Tamper = FALSE
 PowM <- TabPowM
INVARIANTS SlotTheorem
CHECK_DEADLOCK FALSE
