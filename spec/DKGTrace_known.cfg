SPECIFICATION TSpec
CONSTANT KnownErase = TRUE
POSTCONDITION Accepted
CHECK_DEADLOCK FALSE
