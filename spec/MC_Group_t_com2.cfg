SPECIFICATION Spec
CONSTANTS
 MaxP = 90
 MaxQ = 45
 MaxK = 10
 Margin = 4
 Variants <- A_com
 NaiveMaxP = 11
 NaiveVariants <- D_com
 NbrMaxP = 47
 NbrVariants <- N_comT
 Mode = "nbr"
 CheckArith = FALSE
 SortedBases = TRUE
INVARIANTS BlockIsDefinition BlockSound Sound Complete Shape Elements Emit
CHECK_DEADLOCK FALSE
