SPECIFICATION Spec
CONSTANTS
 MaxP = 47
 MaxQ = 23
 MaxK = 7
 Margin = 4
 Variants <- A_com
 NaiveMaxP = 0
 NaiveVariants <- None
 AccMaxP = 19
 NbrMaxP = 31
 NbrVariants <- N_com
 Mode = "nbr"
 CheckArith = FALSE
 SortedBases = TRUE
INVARIANTS BlockIsDefinition BlockSound Sound Complete Shape Elements Emit
CHECK_DEADLOCK FALSE
