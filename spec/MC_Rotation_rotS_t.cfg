INIT InitRotS
NEXT NextRotS
INVARIANTS InvRotS
CONSTANTS
 P = 23
 Q = 11
 Gg = 2
 Hh = 3
 Ns = {2}
 CoinSet = {0}
 ChSet <- AllQ
 Wide = TRUE
 PowM <- TabPowM
CHECK_DEADLOCK FALSE
