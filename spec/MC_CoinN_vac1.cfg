SPECIFICATION Spec
CONSTANTS
 P = 11
 Q = 5
 Gg = 4
 Hh = 3
 N = 3
 T = 1
 Strict = TRUE
 Mode = "byz"
 HonP <- PolysOne
 DevP <- PolysOne
INVARIANTS NeverRecon
CHECK_DEADLOCK FALSE
