SPECIFICATION Spec
CONSTANTS
 MaxP = 47
 MaxQ = 23
 MaxK = 7
 Margin = 4
 Variants <- A_one
 NaiveMaxP = 13
 Mode = "acc"
 CheckArith = TRUE
 SortedBases = TRUE
INVARIANTS BlockIsDefinition Sound Complete Shape Elements Emit
CHECK_DEADLOCK FALSE
