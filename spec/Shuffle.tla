------------------------------- MODULE Shuffle -------------------------------
(***************************************************************************)
(* Verdict oracle for the verifiable-shuffle arguments (Groth's shuffle of *)
(* known content [Gr05] as GrothVSSHE, the rotation argument of de Hoogh   *)
(* et al. [HSSV09] as HooghSchoenmakersSkoricVillegasVRHE), interactive    *)
(* public-coin and non-interactive, reached through the card-level entry   *)
(* points.  The algebra of these arguments is not transcribed (see         *)
(* DESIGN.md: too large for the time available); what the specification    *)
(* fixes is the *statement* and the verdict every run must have:           *)
(*   C03  true statement, honest prover, unchanged transcript  -> accept   *)
(*   C04  false statement (substituted / duplicated / re-typed card, a     *)
(*        non-cyclic permutation presented as a rotation), prover running  *)
(*        the protocol with its non-fitting witness            -> refuse   *)
(*   C05  any single transmitted value replaced by a non-equivalent one    *)
(*        (catalogue), or a public input changed (a card component of      *)
(*        either stack, the ElGamal key of the argument instance)          *)
(*                                                              -> refuse   *)
(* in a group large enough (|p|=1024, |q|=256, l_e=80) for the soundness   *)
(* error to be negligible, so the oracle is exact.  TLC enumerates the     *)
(* complete case table within the bounds and prints it; the driver runs    *)
(* each case on the real classes.                                          *)
(***************************************************************************)
EXTENDS Integers, Sequences, FiniteSets, TLC, Json, IOUtils

Tier == IF "TIER" \in DOMAIN IOEnv THEN IOEnv.TIER ELSE "quick"
\* _ni non-interactive, _i interactive public-coin (card-level entry points), _hv interactive honest-verifier (class level)
Variants == {"groth_ni", "groth_i", "groth_hv", "hoogh_ni", "hoogh_i", "hoogh_hv"}
IsHoogh(v) == v \in {"hoogh_ni", "hoogh_i", "hoogh_hv"}
IsInter(v) == v \in {"groth_i", "hoogh_i", "groth_hv", "hoogh_hv"}
IsHV(v) == v \in {"groth_hv", "hoogh_hv"}
Sizes == IF Tier = "quick" THEN {2, 3, 5} ELSE 2..8
\* c1only / c2only: one component of one output ciphertext multiplied by g (prover and verifier see the same stacks)
FalseStmts(v) == IF IsHoogh(v) THEN {"subst", "dup", "retype", "noncyclic", "c1only", "c2only"} ELSE {"subst", "dup", "retype", "c1only", "c2only"}
Muts == {"plus1", "otherres", "zero", "one", "plusq", "p", "pm1", "oversized", "trunc", "swap"}
\* "h": the verifier's argument instance has another ElGamal key than the cards; "hprover": prover and argument instance
\* consistently use another key than the verifier's card scheme (only the comparison of the two keys can refuse this)
Pubs == {"s_c1", "s_c2", "s2_c1", "s2_c2", "h", "hprover"}
\* admissible challenge lengths other than the default 80 (|q| = 256 >= 2 l_e + 64), prover built from parameters and
\* verifier from the published stream as in a game between a leader and the other players
ChallengeLens == {40, 64, 96}
\* transcript positions: non-interactive proofs by position class (first / middle / last) and by line number; interactive
\* ones by the number of the line the relaying man in the middle replaces
\* (negative: counted from the end, -1 = the last value the prover transmits)
Positions(v, n) == IF IsInter(v) THEN {[line |-> k] : k \in (IF Tier = "quick" THEN {0, 1, 2, 5, 9, 14, 20, 27, 35} ELSE 0..70) \cup {0 - 1, 0 - 2, 0 - 3, 0 - 4}}
                   ELSE {[pos |-> k] : k \in (IF Tier = "quick" THEN {0, 1, 2, 4, 8, 13} ELSE 0..60)}

Honest == {[variant |-> v, n |-> n, stmt |-> "true"] : v \in Variants, n \in Sizes} \cup
          {[variant |-> v, n |-> 3, stmt |-> "true", le |-> e] : v \in {"groth_ni", "groth_i", "groth_hv"}, e \in ChallengeLens}
Unsound == (UNION {{[variant |-> v, n |-> n, stmt |-> s] : n \in Sizes \ {2}, s \in FalseStmts(v)} : v \in Variants}) \cup
           {[variant |-> v, n |-> 2, stmt |-> "subst"] : v \in Variants}
Mutated == (UNION {{[variant |-> v, n |-> 3, stmt |-> "true", mut |-> m] @@ ps : m \in Muts, ps \in Positions(v, 3)} : v \in Variants}) \cup
           (UNION {{[variant |-> v, n |-> 3, stmt |-> "true", pub |-> pb] : pb \in (IF IsHV(v) THEN Pubs \ {"hprover"} ELSE Pubs)} : v \in Variants})
Cases == Honest \cup Unsound \cup Mutated

Expected(c) == IF c.stmt = "true" /\ "mut" \notin DOMAIN c /\ "pub" \notin DOMAIN c THEN "accept" ELSE "refuse"

VARIABLE done
Init == done = FALSE
Next == ~done /\ done' = TRUE /\ \A c \in Cases : PrintT(ToJson(c @@ [expect |-> Expected(c)]))
Spec == Init /\ [][Next]_done
\* the table asks for acceptance exactly on the honest runs, and every variant and size has its honest run
TableOK == /\ {c \in Cases : Expected(c) = "accept"} = Honest
           /\ \A v \in Variants, n \in Sizes : \E c \in Honest : c.variant = v /\ c.n = n /\ "le" \notin DOMAIN c
=============================================================================
