SPECIFICATION TSpec
CONSTANTS
 KnownErase = FALSE
 KnownGJKR = FALSE
 KnownWithheld = FALSE
POSTCONDITION Accepted
CHECK_DEADLOCK FALSE
