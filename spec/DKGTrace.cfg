SPECIFICATION TSpec
CONSTANTS
 KnownErase = FALSE
 KnownGJKR = FALSE
 KnownWithheld = FALSE
 KnownStop = FALSE
 KeygenStrict = TRUE
POSTCONDITION Accepted
CHECK_DEADLOCK FALSE
