SPECIFICATION TSpec
CONSTANT KnownErase = FALSE
POSTCONDITION Accepted
CHECK_DEADLOCK FALSE
