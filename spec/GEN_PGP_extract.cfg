\* quick-tier configuration of family extract (checks/c19.py writes the per-tier/per-seed variant to out/C19/cfg)
SPECIFICATION Spec
CONSTANTS
 Family = "extract"
 Lo = 0
 Hi = 1000000
 W = 2
 Seed = 1
INVARIANTS Theorems Emit
CHECK_DEADLOCK FALSE
