SPECIFICATION Spec
CONSTANTS
 Insts <- Insts_C04_gap
 MaskOneAsCoded = TRUE
INVARIANT Thm
CHECK_DEADLOCK FALSE
