----------------------------- MODULE SamplerGen -----------------------------
(***************************************************************************)
(* Direction A for C07: TLC turns requests (which stack sizes, coin vectors,*)
(* moduli, byte strings - chosen by checks/c07.py from the seed) into test  *)
(* cases for the real code: the raw 64-bit words / byte strings to dictate  *)
(* to the library's coin source, and the result Sampler.tla defines for     *)
(* them.  Base = 256, WordLen = 8: numbers are little-endian byte strings.  *)
(* Every case is one state; GenPrint prints it as JSON, GenOK cross-checks  *)
(* the word-level run (Part II) against the integer-level map (Part I).     *)
(***************************************************************************)
EXTENDS Sampler, Json, IOUtils

ReqFile == IF "REQ" \in DOMAIN IOEnv THEN IOEnv.REQ ELSE "req.ndjson"
Reqs == ndJsonDeserialize(ReqFile)

VARIABLE g
Req == Reqs[g.k]
AsSeq(f) == [k \in 1..Len(f) |-> f[k]]

One == <<1>>
WordOf(x) == Pad(x, WordLen)
QW(m) == DivSmall(WordSpace, m)            \* W div m
RW(m) == ModSmall(WordSpace, m)            \* W mod m
Top == Sub(WordSpace, One)                 \* W - 1
MinI(a, b) == IF a < b THEN a ELSE b

\* words for one bounded draw with small modulus m that must end with the value c; cls picks which of the
\* words reducing to c is used (K*m + c for K = 0, 1, about Q/2, Q-1) and whether rejected words come first
LastBlock(m, c) == WordOf(Add(MulSmall(Sub(QW(m), One), m), FromInt(c)))
DrawWords(m, c, cls) ==
  CASE cls = 0 -> <<WordOf(FromInt(c))>>
    [] cls = 1 -> <<WordOf(FromInt(c + m))>>
    [] cls = 2 -> <<LastBlock(m, c)>>
    [] cls = 3 -> IF RW(m) = 0 THEN <<LastBlock(m, c)>>
                  ELSE <<WordOf(Add(AcceptBoundS(m), FromInt(MinI(c, RW(m) - 1)))), LastBlock(m, c)>>
    [] cls = 4 -> <<WordOf(Add(MulSmall(DivSmall(WordSpace, 2 * m + 1), m), FromInt(c)))>>
    [] cls = 5 -> IF RW(m) = 0 THEN <<WordOf(FromInt(c))>>
                  ELSE <<WordOf(Top), WordOf(AcceptBoundS(m)), WordOf(FromInt(c))>>

RECURSIVE PermWords(_, _, _, _)
PermWords(n, c, pat, j) == IF j > n - 1 THEN <<>>
                           ELSE DrawWords(n - j + 1, c[j], (pat + j) % 6) \o PermWords(n, c, pat, j + 1)

PermCase(n, c, pat) ==
  LET ws == PermWords(n, c, pat, 1)
  IN [kind |-> "perm", n |-> n, c |-> c, pat |-> pat, words |-> ws,
      expect |-> [pi |-> AsSeq(FY(n, c)), ret |-> 0, used |-> Len(ws)]]
PermCaseOK(n, c, pat) ==
  LET ws == PermWords(n, c, pat, 1)
      r == PermRun(n, ws)
  IN IsChoiceVec(c, n) /\ r.ok /\ r.used = Len(ws) /\ r.pi = FY(n, c) /\ IsPerm(FY(n, c), n)
     /\ \A k \in 1..Len(ws) : IsWord(ws[k])

\* an empty stack needs no coin: the word on offer must stay untouched
RotCase(n, r, pat) ==
  LET ws == IF n = 0 THEN <<WordOf(<<>>)>> ELSE DrawWords(n, r, pat % 6)
  IN [kind |-> "rot", n |-> n, c |-> <<r>>, pat |-> pat, words |-> ws,
      expect |-> [pi |-> AsSeq(RotPerm(n, r)), ret |-> RotRet(n, r), used |-> IF n = 0 THEN 0 ELSE Len(ws)]]
RotCaseOK(n, r, pat) ==
  LET ws == IF n = 0 THEN <<WordOf(<<>>)>> ELSE DrawWords(n, r, pat % 6)
      t == RotRun(n, ws)
  IN t.ok /\ t.pi = RotPerm(n, r) /\ t.ret = RotRet(n, r) /\ t.used = (IF n = 0 THEN 0 ELSE Len(ws))
     /\ (n > 0 => r \in 0..(n - 1) /\ IsPerm(RotPerm(n, r), n))

\* bounded sampler with an arbitrary 64-bit modulus md: the words at the edges of the accepted range
ModClasses == {"zero", "one", "m-1", "m", "AB-1", "AB-m", "AB-m-1", "AB", "AB+1", "top", "mid", "three"}
ModWords(md, cl) ==
  LET t == DivMod(WordSpace, md)
      AB == Mul(t.q, md)
      has == CASE cl = "AB-m-1" -> Less(One, t.q)
               [] cl = "AB" -> t.r # <<>>
               [] cl = "AB+1" -> Less(One, t.r)
               [] cl = "three" -> t.r # <<>>
               [] cl = "m" -> Less(md, WordSpace)
               [] OTHER -> TRUE
      w == CASE cl = "zero" -> <<>>
             [] cl = "one" -> One
             [] cl = "m-1" -> Sub(md, One)
             [] cl = "m" -> md
             [] cl = "AB-1" -> Sub(AB, One)
             [] cl = "AB-m" -> Sub(AB, md)
             [] cl = "AB-m-1" -> Sub(Sub(AB, md), One)
             [] cl = "AB" -> AB
             [] cl = "AB+1" -> Add(AB, One)
             [] cl = "top" -> Top
             [] cl = "mid" -> Add(Mul(DivSmall(t.q, 2), md), DivSmall(md, 3))
             [] cl = "three" -> Top
  IN IF ~has THEN <<>>
     ELSE IF cl = "three" THEN <<WordOf(Top), WordOf(AB), WordOf(Sub(AB, One))>>
     ELSE <<WordOf(w), WordOf(One)>>
LvAllowed == [ss |-> <<2>>, s |-> <<1>>, w |-> <<0, -1>>]
ModCase(md, ws, tag) ==
  LET r == ModRun(md, ws)
  IN [kind |-> "mod", m |-> md, cl |-> tag, words |-> ws, lvls |-> <<"ss", "s", "w">>,
      expect |-> [val |-> r.val, used |-> r.used, lv |-> LvAllowed]]
ModCaseOK(md, ws) ==
  LET r == ModRun(md, ws)
  IN /\ md = Trim(md) /\ md # <<>> /\ LessEq(md, Top) /\ r.ok /\ Less(r.val, md)
     /\ \A k \in 1..Len(ws) : IsWord(ws[k])
     \* the definition once more, by multiplication instead of division: the word taken is K*m + val
     \* with K*m + m <= W, every word before it is not of that form
     /\ LET w == ws[r.used]
            K == DivMod(w, md).q
        IN /\ EqNum(Add(Mul(K, md), r.val), w)
           /\ LessEq(Add(Mul(K, md), md), WordSpace)
     /\ \A k \in 1..(r.used - 1) : ~LessEq(Add(Mul(DivMod(ws[k], md).q, md), md), WordSpace)

\* residue sampler: draw = the byte string found in the coin source (most significant byte first)
ResCase(md, draw, tag) ==
  [kind |-> "resid", m |-> md, cl |-> tag, draw |-> draw, lvls |-> <<"ss", "s", "w">>,
   expect |-> [val |-> ResidueVal(md, draw), lens |-> <<ResidueLen(md)>>, lv |-> [ss |-> <<2>>, s |-> <<1>>, w |-> <<0>>]]]
\* value given as a*m + r (r = lo, or m - hi): the residue is r by the definition of mod, no division needed
ResKValue(md, a, lo, hi) == Add(Mul(a, md), IF hi > 0 THEN Sub(md, FromInt(hi)) ELSE FromInt(lo))
ResKDraw(md, a, lo, hi) == Rev(Pad(ResKValue(md, a, lo, hi), ResidueLen(md)))
ResKCase(md, a, lo, hi) ==
  [kind |-> "resid", m |-> md, cl |-> "a*m+r", draw |-> ResKDraw(md, a, lo, hi), lvls |-> <<"ss", "s", "w">>,
   expect |-> [val |-> (IF hi > 0 THEN Sub(md, FromInt(hi)) ELSE FromInt(lo)), lens |-> <<ResidueLen(md)>>,
               lv |-> [ss |-> <<2>>, s |-> <<1>>, w |-> <<0>>]]]
ResKOK(md, a, lo, hi) ==
  /\ md = Trim(md) /\ md # <<>>
  /\ Less(IF hi > 0 THEN Sub(md, FromInt(hi)) ELSE FromInt(lo), md)
  /\ Len(Trim(ResKValue(md, a, lo, hi))) <= ResidueLen(md)               \* fits the draw
  /\ Less(a, Pow(ExtraBits \div 8))                                       \* a < 2^64
ResOK(md, draw) ==
  /\ md = Trim(md) /\ md # <<>> /\ Len(draw) = ResidueLen(md) /\ IsNum(draw)
  /\ Less(ResidueVal(md, draw), md)
  /\ LET t == DivMod(Rev(draw), md) IN EqNum(Add(Mul(t.q, md), t.r), Rev(draw))
  /\ (Len(md) <= 2 => ResidueValS(Val(md), draw) = Val(ResidueVal(md, draw)))

--------------------------------------------------------------------------
GInit == g = [t |-> "root"]
GNext ==
  \/ /\ g.t = "root"
     /\ \E k \in 1..Len(Reqs) : g' = [t |-> "req", k |-> k]
  \/ /\ g.t = "req"
     /\ \/ /\ Req.q = "fyall"
           /\ \E c \in ChoiceVecs(Req.n) : g' = [t |-> "case", k |-> g.k, x |-> c]
        \/ /\ Req.q = "rotall"
           /\ \E r \in 0..(IF Req.n = 0 THEN 0 ELSE Req.n - 1) : g' = [t |-> "case", k |-> g.k, x |-> r]
        \/ /\ Req.q = "mod"
           /\ \E cl \in ModClasses : ModWords(Req.m, cl) # <<>> /\ g' = [t |-> "case", k |-> g.k, x |-> cl]
        \/ /\ Req.q \in {"fy", "rot", "modw", "res", "resk"}
           /\ g' = [t |-> "case", k |-> g.k, x |-> 0]
GSpec == GInit /\ [][GNext]_g

CaseOf ==
  CASE Req.q = "fyall" -> PermCase(Req.n, g.x, Req.pat)
    [] Req.q = "fy" -> PermCase(Req.n, Req.c, Req.pat)
    [] Req.q = "rotall" -> RotCase(Req.n, g.x, Req.pat)
    [] Req.q = "rot" -> RotCase(Req.n, Req.r, Req.pat)
    [] Req.q = "mod" -> ModCase(Req.m, ModWords(Req.m, g.x), g.x)
    [] Req.q = "modw" -> ModCase(Req.m, Req.ws, "given")
    [] Req.q = "res" -> ResCase(Req.m, Req.draw, "given")
    [] Req.q = "resk" -> ResKCase(Req.m, Req.a, Req.lo, Req.hi)
CaseOK ==
  CASE Req.q = "fyall" -> PermCaseOK(Req.n, g.x, Req.pat)
    [] Req.q = "fy" -> PermCaseOK(Req.n, Req.c, Req.pat)
    [] Req.q = "rotall" -> RotCaseOK(Req.n, g.x, Req.pat)
    [] Req.q = "rot" -> RotCaseOK(Req.n, Req.r, Req.pat)
    [] Req.q = "mod" -> ModCaseOK(Req.m, ModWords(Req.m, g.x))
    [] Req.q = "modw" -> ModCaseOK(Req.m, Req.ws)
    [] Req.q = "res" -> ResOK(Req.m, Req.draw)
    [] Req.q = "resk" -> ResKOK(Req.m, Req.a, Req.lo, Req.hi)

GenOK == g.t = "case" => CaseOK
GenPrint == g.t = "case" => PrintT(ToJson([rq |-> g.k] @@ CaseOf))
=============================================================================
