----------------------------- MODULE SamplerGen -----------------------------
(***************************************************************************)
(* Direction A for C07: TLC turns requests (which stack sizes, coin vectors,*)
(* moduli, byte strings - chosen by checks/c07.py from the seed) into test  *)
(* cases for the real code: the raw 64-bit words / byte strings to dictate  *)
(* to the library's coin source, and the result Sampler.tla defines for     *)
(* them.  Base = 256, WordLen = 8: numbers are little-endian byte strings.  *)
(* Every case is one state; GenPrint prints it as JSON, GenOK cross-checks  *)
(* the word-level run (Part II) against the integer-level map (Part I).     *)
(***************************************************************************)
EXTENDS Sampler, Json, IOUtils

ReqFile == IF "REQ" \in DOMAIN IOEnv THEN IOEnv.REQ ELSE "req.ndjson"
Reqs == ndJsonDeserialize(ReqFile)

VARIABLE g
Req == Reqs[g.k]
AsSeq(f) == [k \in 1..Len(f) |-> f[k]]

One == <<1>>
WordOf(x) == Pad(x, WordLen)
QW0(m) == DivSmall(WordSpace, m)           \* W div m
RW0(m) == ModSmall(WordSpace, m)           \* W mod m
QWTable == [m \in 1..TableMax |-> QW0(m)]
RWTable == [m \in 1..TableMax |-> RW0(m)]
QW(m) == IF m <= TableMax THEN QWTable[m] ELSE QW0(m)
RW(m) == IF m <= TableMax THEN RWTable[m] ELSE RW0(m)
Top == Sub(WordSpace, One)                 \* W - 1
MinI(a, b) == IF a < b THEN a ELSE b

\* words for one bounded draw with small modulus m that must end with the value c; cls picks which of the
\* words reducing to c is used (K*m + c for K = 0, 1, about Q/2, Q-1) and whether rejected words come first
LastBlock(m, c) == WordOf(Add(MulSmall(Sub(QW(m), One), m), FromInt(c)))
DrawWords(m, c, cls) ==
  CASE cls = 0 -> <<WordOf(FromInt(c))>>
    [] cls = 1 -> <<WordOf(FromInt(c + m))>>
    [] cls = 2 -> <<LastBlock(m, c)>>
    [] cls = 3 -> IF RW(m) = 0 THEN <<LastBlock(m, c)>>
                  ELSE <<WordOf(Add(AcceptBoundS(m), FromInt(MinI(c, RW(m) - 1)))), LastBlock(m, c)>>
    [] cls = 4 -> <<WordOf(Add(MulSmall(DivSmall(WordSpace, 2 * m + 1), m), FromInt(c)))>>
    [] cls = 5 -> IF RW(m) = 0 THEN <<WordOf(FromInt(c))>>
                  ELSE <<WordOf(Top), WordOf(AcceptBoundS(m)), WordOf(FromInt(c))>>

RECURSIVE PermWords(_, _, _, _)
PermWords(n, c, pat, j) == IF j > n - 1 THEN <<>>
                           ELSE DrawWords(n - j + 1, c[j], (pat + j) % 6) \o PermWords(n, c, pat, j + 1)

PermCase(n, c, pat) ==
  LET ws == PermWords(n, c, pat, 1)
      p == FY(n, c)
      r == PermRun(n, ws)
  IN [ok |-> /\ IsChoiceVec(c, n) /\ r.ok /\ r.used = Len(ws) /\ r.pi = p /\ IsPerm(p, n)
             /\ \A k \in 1..Len(ws) : IsWord(ws[k]),
      out |-> [kind |-> "perm", n |-> n, c |-> c, pat |-> pat, words |-> ws,
               expect |-> [pi |-> AsSeq(p), ret |-> 0, used |-> Len(ws)]]]

\* an empty stack needs no coin: the word on offer must stay untouched
RotCase(n, r, pat) ==
  LET ws == IF n = 0 THEN <<WordOf(<<>>)>> ELSE DrawWords(n, r, pat % 6)
      t == RotRun(n, ws)
      used == IF n = 0 THEN 0 ELSE Len(ws)
  IN [ok |-> /\ t.ok /\ t.pi = RotPerm(n, r) /\ t.ret = RotRet(n, r) /\ t.used = used
             /\ (n > 0 => r \in 0..(n - 1) /\ IsPerm(RotPerm(n, r), n)),
      out |-> [kind |-> "rot", n |-> n, c |-> <<r>>, pat |-> pat, words |-> ws,
               expect |-> [pi |-> AsSeq(RotPerm(n, r)), ret |-> RotRet(n, r), used |-> used]]]

\* bounded sampler with an arbitrary 64-bit modulus md: the words at the edges of the accepted range
ModClasses == {"zero", "one", "m-1", "m", "AB-1", "AB-m", "AB-m-1", "AB", "AB+1", "top", "mid", "three"}
ModWords(md, t, cl) ==                \* t = DivMod(WordSpace, md)
  LET AB == Mul(t.q, md)
      has == CASE cl = "AB-m-1" -> Less(One, t.q)
               [] cl = "AB" -> t.r # <<>>
               [] cl = "AB+1" -> Less(One, t.r)
               [] cl = "three" -> t.r # <<>>
               [] cl = "m" -> Less(md, WordSpace)
               [] OTHER -> TRUE
      w == CASE cl = "zero" -> <<>>
             [] cl = "one" -> One
             [] cl = "m-1" -> Sub(md, One)
             [] cl = "m" -> md
             [] cl = "AB-1" -> Sub(AB, One)
             [] cl = "AB-m" -> Sub(AB, md)
             [] cl = "AB-m-1" -> Sub(Sub(AB, md), One)
             [] cl = "AB" -> AB
             [] cl = "AB+1" -> Add(AB, One)
             [] cl = "top" -> Top
             [] cl = "mid" -> Add(Mul(DivSmall(t.q, 2), md), DivSmall(md, 3))
             [] cl = "three" -> Top
  IN IF ~has THEN <<>>
     ELSE IF cl = "three" THEN <<WordOf(Top), WordOf(AB), WordOf(Sub(AB, One))>>
     ELSE <<WordOf(w), WordOf(One)>>
LvAllowed == [ss |-> <<2>>, s |-> <<1>>, w |-> <<0, -1>>]
ModCase(md, t, ws, tag) ==            \* t = DivMod(WordSpace, md): AcceptBound(md) = t.q * md
  LET r == ModRunB(md, Mul(t.q, md), ws)
      w == ws[r.used]
      K == DivMod(w, md).q
  IN [ok |-> /\ md = Trim(md) /\ md # <<>> /\ LessEq(md, Top) /\ r.ok /\ Less(r.val, md)
             /\ \A k \in 1..Len(ws) : IsWord(ws[k])
             \* the definition once more, by multiplication instead of division: the word taken is K*m + val
             \* with K*m + m <= W; no word before it is of that form
             /\ EqNum(Add(Mul(K, md), r.val), w)
             /\ LessEq(Add(Mul(K, md), md), WordSpace)
             /\ \A k \in 1..(r.used - 1) : ~LessEq(Add(Mul(DivMod(ws[k], md).q, md), md), WordSpace),
      out |-> [kind |-> "mod", m |-> md, cl |-> tag, words |-> ws, lvls |-> <<"ss", "s", "w">>,
               expect |-> [val |-> r.val, used |-> r.used, lv |-> LvAllowed]]]

\* residue sampler: draw = the byte string found in the coin source (most significant byte first)
ResLv == [ss |-> <<2>>, s |-> <<1>>, w |-> <<0>>]
ResCase(md, draw, tag) ==
  LET t == DivMod(Rev(draw), md)
  IN [ok |-> /\ md = Trim(md) /\ md # <<>> /\ Len(draw) = ResidueLen(md) /\ IsNum(draw)
             /\ Less(t.r, md)
             /\ EqNum(Add(Mul(t.q, md), t.r), Rev(draw))
             /\ (Len(md) <= 2 => ResidueValS(Val(md), draw) = Val(t.r)),
      out |-> [kind |-> "resid", m |-> md, cl |-> tag, draw |-> draw, lvls |-> <<"ss", "s", "w">>,
               expect |-> [val |-> t.r, lens |-> <<ResidueLen(md)>>, lv |-> ResLv]]]
\* value given as a*m + r (r = lo, or m - hi): the residue is r by the definition of mod, no division needed
ResKCase(md, a, lo, hi) ==
  LET r == IF hi > 0 THEN Sub(md, FromInt(hi)) ELSE FromInt(lo)
      v == Add(Mul(md, a), r)
  IN [ok |-> /\ md = Trim(md) /\ md # <<>>
             /\ (hi > 0 => LessEq(FromInt(hi), md)) /\ Less(r, md)
             /\ Len(v) <= ResidueLen(md)                                  \* fits the draw
             /\ Less(a, Pow(ExtraBits \div 8)),                           \* a < 2^64
      out |-> [kind |-> "resid", m |-> md, cl |-> "a*m+r", draw |-> Rev(Pad(v, ResidueLen(md))), lvls |-> <<"ss", "s", "w">>,
               expect |-> [val |-> r, lens |-> <<ResidueLen(md)>>, lv |-> ResLv]]]

--------------------------------------------------------------------------
GInit == g = [t |-> "root"]
GNext ==
  \/ /\ g.t = "root"
     /\ \E k \in 1..Len(Reqs) :
          g' = [t |-> "req", k |-> k,
                dm |-> IF Reqs[k].q \in {"mod", "modw"} THEN DivMod(WordSpace, Reqs[k].m) ELSE [q |-> <<>>, r |-> <<>>]]
  \/ /\ g.t = "req"
     /\ \/ /\ Req.q = "fyall"
           /\ \E c \in ChoiceVecs(Req.n) : g' = [t |-> "case", k |-> g.k, x |-> c, dm |-> g.dm]
        \/ /\ Req.q = "rotall"
           /\ \E r \in 0..(IF Req.n = 0 THEN 0 ELSE Req.n - 1) : g' = [t |-> "case", k |-> g.k, x |-> r, dm |-> g.dm]
        \/ /\ Req.q = "mod"
           /\ \E cl \in ModClasses : ModWords(Req.m, g.dm, cl) # <<>> /\ g' = [t |-> "case", k |-> g.k, x |-> cl, dm |-> g.dm]
        \/ /\ Req.q \in {"fy", "rot", "modw", "res", "resk"}
           /\ g' = [t |-> "case", k |-> g.k, x |-> 0, dm |-> g.dm]
GSpec == GInit /\ [][GNext]_g

CaseOf ==
  CASE Req.q = "fyall" -> PermCase(Req.n, g.x, Req.pat)
    [] Req.q = "fy" -> PermCase(Req.n, Req.c, Req.pat)
    [] Req.q = "rotall" -> RotCase(Req.n, g.x, Req.pat)
    [] Req.q = "rot" -> RotCase(Req.n, Req.r, Req.pat)
    [] Req.q = "mod" -> ModCase(Req.m, g.dm, ModWords(Req.m, g.dm, g.x), g.x)
    [] Req.q = "modw" -> ModCase(Req.m, g.dm, Req.ws, "given")
    [] Req.q = "res" -> ResCase(Req.m, Req.draw, "given")
    [] Req.q = "resk" -> ResKCase(Req.m, Req.a, Req.lo, Req.hi)
\* the case is printed only when the word-level run (Part II) agrees with the integer-level map (Part I) and the
\* request lies in the specification's domain
GenOK == g.t = "case" => LET cs == CaseOf IN cs.ok /\ PrintT(ToJson([rq |-> g.k] @@ cs.out))
=============================================================================
