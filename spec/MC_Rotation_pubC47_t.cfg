INIT InitPubC
NEXT NextPubC
INVARIANTS InvPubC
CONSTANTS
 P = 47
 Q = 23
 Gg = 2
 Hh = 3
 Ns = {2, 3}
 CoinSet = {0, 1, 22}
 ChSet <- CS4
 Wide = TRUE
 PowM <- TabPowM
CHECK_DEADLOCK FALSE
