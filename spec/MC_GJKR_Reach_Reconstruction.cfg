SPECIFICATION Spec
CONSTANTS
 UnansweredRule = TRUE
 FreshImage = TRUE
 N = 3
 T = 1
 GP = 11
 GQ = 5
 GG = 3
 GH = 9
 BadSet = {0}
 CoefA = {1, 2}
 Deltas = {1}
 MaxDev = 2
 Canonical = TRUE
INVARIANTS Reach_Reconstruction
CHECK_DEADLOCK FALSE
