----------------------------- MODULE CoinNTrace -----------------------------
(***************************************************************************)
(* Trace validation of the n-party coin flip.  harness/drv_coin.cc (mode    *)
(* np) runs the real JareckiLysyanskayaEDCF::Flip of every party on real    *)
(* CachinKursawePetzoldShoupRBC objects over an in-memory transport (one    *)
(* thread per party, one runnable at a time, virtual clock) next to parties *)
(* that deviate, and logs per execution: the polynomials every party drew   *)
(* and the deviations (Reset), for every party the moment its share goes on *)
(* the wire with the commitments it has stored by then (Open), and what it  *)
(* returns (Out).  Here the rounds of CoinN.tla are recomputed from the     *)
(* polynomials; stored commitments, Qual, verdict and coin of every party   *)
(* must be what the rounds yield, and the property is evaluated on the      *)
(* logged outputs.  Strict selects the protocol as designed (TRUE) or       *)
(* without the rule that an unanswered complaint disqualifies (FALSE).      *)
(***************************************************************************)
EXTENDS CoinN, Json, IOUtils, TLC, TLCExt

CONSTANT Strict

TraceFile == IF "TRACE" \in DOMAIN IOEnv THEN IOEnv.TRACE ELSE "trace.ndjson"
TraceLog == ndJsonDeserialize(TraceFile)

VARIABLES W, r1, r2, r3, r4, outs, l
tvars == <<W, r1, r2, r3, r4, outs, l>>

Ev == TraceLog[l]
IsEv(name) == l <= Len(TraceLog) /\ Ev.e = name
SetOf(s) == {s[k] : k \in 1..Len(s)}

TInit == l = 1 /\ W = 0 /\ r1 = 0 /\ r2 = 0 /\ r3 = 0 /\ r4 = 0 /\ outs = <<>>

TReset ==
  /\ IsEv("Reset")
  /\ W' = [n |-> Ev.n, t |-> Ev.t,
           G |-> [p |-> Ev.grp[1], q |-> Ev.grp[2], g |-> Ev.grp[3], h |-> Ev.grp[4]],
           poly |-> Ev.poly,
           dev |-> [k \in 1..Ev.n |-> [byz |-> Ev.dev[k].byz, commit |-> Ev.dev[k].commit, sd |-> Ev.dev[k].sd,
                                      complain |-> SetOf(Ev.dev[k].complain), answer |-> Ev.dev[k].answer,
                                      open |-> Ev.dev[k].open, recon |-> Ev.dev[k].recon, checked |-> Ev.dev[k].checked]]]
  /\ GoodGroup(W'.G) /\ W'.n < W'.G.q
  /\ r1' = Round1(W')
  /\ r2' = Round2(W', r1')
  /\ r3' = Round3(W', r1', r2', Strict)
  /\ r4' = Round4(W', r1', r3')
  /\ outs' = <<>>
  /\ l' = l + 1

\* party i puts its share on the wire: by then it has stored the commitment of every other qualified party
\* (and knows who is qualified); what it reveals is the share it committed to
TOpen ==
  /\ IsEv("Open")
  /\ LET i == Ev.i IN
     Dv(W, i).checked =>
        /\ SetOf(Ev.qual) = r3.qual
        /\ i \in r3.qual
        /\ Ev.a = Num(Pl(W, i).c[1])
        /\ \A j \in r3.qual : Ev.stored[j + 1] = Num(r1.ck[j][1])
  /\ UNCHANGED <<W, r1, r2, r3, r4, outs>> /\ l' = l + 1

TOut ==
  /\ IsEv("Out")
  /\ "exc" \notin DOMAIN Ev
  /\ LET i == Ev.i IN
     /\ Dv(W, i).checked =>
           /\ Ev.res = r4.res[i]
           /\ Ev.res => Ev.coin = r4.coin[i]
           /\ SetOf(Ev.qual) = r3.qual
     /\ outs' = IF Dv(W, i).checked THEN Append(outs, [i |-> i, res |-> Ev.res, coin |-> Ev.coin]) ELSE outs
  /\ UNCHANGED <<W, r1, r2, r3, r4>> /\ l' = l + 1

TNext == TReset \/ TOpen \/ TOut
TSpec == TInit /\ [][TNext]_tvars

\* C17 on the logged outputs: all honest participants output the same value, the sum of the committed shares of
\* the qualified participants (an opening that does not match having led to reconstruction of the committed share)
C17_Outputs == \A a, b \in 1..Len(outs) : outs[a].res =>
                  /\ outs[a].coin = r4.committed
                  /\ outs[b].res => outs[a].coin = outs[b].coin
\* with a tolerable number of deviating parties every fault-free party gets a coin
C17_Live == (l > 1 /\ Tolerable(W)) => \A a \in 1..Len(outs) : outs[a].i \in Clean(W) => outs[a].res

Accepted == TLCGet("stats").diameter = Len(TraceLog) + 1
=============================================================================
