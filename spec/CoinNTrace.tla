----------------------------- MODULE CoinNTrace -----------------------------
(***************************************************************************)
(* Trace validation of the n-party coin flip.  harness/drv_coin.cc (mode    *)
(* np) runs the real JareckiLysyanskayaEDCF::Flip of every party on real    *)
(* CachinKursawePetzoldShoupRBC objects over an in-memory transport (one    *)
(* thread per party, one runnable at a time, virtual clock) next to parties *)
(* that deviate, and logs per execution: the polynomials every party drew   *)
(* and the deviations (Reset), for every party the moment its share goes on *)
(* the wire with the commitments it has stored by then (Open), and what it  *)
(* returns (Out).  Here the rounds of CoinN.tla are recomputed from the     *)
(* polynomials; stored commitments, Qual, verdict and coin of every party   *)
(* must be what the rounds yield, and the property is evaluated on the      *)
(* logged outputs.  Rounds 3 and 4 are computed twice: for the protocol as   *)
(* designed and without the rule that an unanswered complaint disqualifies; *)
(* an execution has to match one of them, and which one is reported.        *)
(***************************************************************************)
EXTENDS CoinN, Json, IOUtils, TLC, TLCExt

TraceFile == IF "TRACE" \in DOMAIN IOEnv THEN IOEnv.TRACE ELSE "trace.ndjson"
TraceLog == ndJsonDeserialize(TraceFile)

VARIABLES W, r1, r2,
          ms,      \* [r3, r4]: rounds 3 and 4 of the protocol as designed
          mi,      \* ... and without the rule "an unanswered complaint disqualifies"
          okS, okI,\* the events of this execution so far match the one / the other
          outs,    \* logged outputs of the parties that run the protocol as written
          opened,  \* parties whose share has gone on the wire (Open event seen)
          notes,   \* executions that match only the protocol without the rule: [at, disagree]
          cur, l
tvars == <<W, r1, r2, ms, mi, okS, okI, outs, opened, notes, cur, l>>

Ev == TraceLog[l]
IsEv(name) == l <= Len(TraceLog) /\ Ev.e = name
SetOf(s) == {s[k] : k \in 1..Len(s)}

\* C17 on the logged outputs: all honest participants output the same value, the sum of the committed shares of
\* the qualified participants (an opening that does not match having led to reconstruction of the committed share)
OutputsOK(m) == \A a, b \in 1..Len(outs) : outs[a].res =>
                   /\ outs[a].coin = m.r4.committed
                   /\ outs[b].res => outs[a].coin = outs[b].coin
\* with a tolerable number of deviating parties every fault-free party gets a coin
LiveOK == Tolerable(W) => \A a \in 1..Len(outs) : outs[a].i \in Clean(W) => outs[a].res

TInit == /\ l = 1 /\ W = 0 /\ r1 = 0 /\ r2 = 0 /\ ms = 0 /\ mi = 0 /\ okS = TRUE /\ okI = TRUE
         /\ outs = <<>> /\ opened = {} /\ notes = <<>> /\ cur = 0

Flush == notes' = IF cur > 0 /\ ~okS THEN Append(notes, [at |-> cur, disagree |-> ~(OutputsOK(mi) /\ LiveOK)]) ELSE notes

TReset ==
  /\ IsEv("Reset")
  /\ Flush
  /\ W' = [n |-> Ev.n, t |-> Ev.t,
           G |-> [p |-> Ev.grp[1], q |-> Ev.grp[2], g |-> Ev.grp[3], h |-> Ev.grp[4]],
           poly |-> Ev.poly,
           dev |-> [k \in 1..Ev.n |-> [byz |-> Ev.dev[k].byz, commit |-> Ev.dev[k].commit, sd |-> Ev.dev[k].sd,
                                      complain |-> SetOf(Ev.dev[k].complain), answer |-> Ev.dev[k].answer,
                                      open |-> Ev.dev[k].open, recon |-> Ev.dev[k].recon, checked |-> Ev.dev[k].checked]]]
  /\ GoodGroup(W'.G) /\ W'.n < W'.G.q
  /\ r1' = Round1(W')
  /\ r2' = Round2(W', r1')
  /\ LET s3 == Round3(W', r1', r2', TRUE)  i3 == Round3(W', r1', r2', FALSE) IN
     /\ ms' = [r3 |-> s3, r4 |-> Round4(W', r1', s3)]
     /\ mi' = [r3 |-> i3, r4 |-> Round4(W', r1', i3)]
  /\ okS' = TRUE /\ okI' = TRUE /\ outs' = <<>> /\ opened' = {} /\ cur' = l
  /\ l' = l + 1

\* party i puts its share on the wire: by then it has stored the commitment of every other qualified party
\* (and knows who is qualified); what it reveals is the share it committed to
OpenMatches(m) ==
  LET i == Ev.i IN
  Dv(W, i).checked =>
     /\ SetOf(Ev.qual) = m.r3.qual
     /\ i \in m.r3.qual
     /\ Ev.a = Num(Pl(W, i).c[1])
     /\ \A j \in m.r3.qual : Ev.stored[j + 1] = Num(r1.ck[j][1])
TOpen ==
  /\ IsEv("Open")
  /\ okS' = (okS /\ OpenMatches(ms)) /\ okI' = (okI /\ OpenMatches(mi))
  /\ okS' \/ okI'
  /\ Ev.i \notin opened /\ opened' = opened \cup {Ev.i}
  /\ UNCHANGED <<W, r1, r2, ms, mi, outs, notes, cur>> /\ l' = l + 1

OutMatches(m) ==
  LET i == Ev.i IN
  Dv(W, i).checked =>
     /\ Ev.res = m.r4.res[i]
     /\ Ev.res => (Ev.coin = m.r4.coin[i] /\ i \in opened)      \* a coin only after the own share was revealed - on this channel, then
     /\ SetOf(Ev.qual) = m.r3.qual
TOut ==
  /\ IsEv("Out")
  /\ "exc" \notin DOMAIN Ev
  /\ okS' = (okS /\ OutMatches(ms)) /\ okI' = (okI /\ OutMatches(mi))
  /\ okS' \/ okI'
  /\ outs' = IF Dv(W, Ev.i).checked THEN Append(outs, [i |-> Ev.i, res |-> Ev.res, coin |-> Ev.coin]) ELSE outs
  /\ UNCHANGED <<W, r1, r2, ms, mi, opened, notes, cur>> /\ l' = l + 1

\* the check appends one End line to every log: the executions that needed the protocol without the rule are printed
TEnd ==
  /\ IsEv("End")
  /\ Flush
  /\ PrintT(ToJson([notes |-> notes']))
  /\ UNCHANGED <<W, r1, r2, ms, mi, okS, okI, outs, opened, cur>> /\ l' = l + 1

TNext == TReset \/ TOpen \/ TOut \/ TEnd
TSpec == TInit /\ [][TNext]_tvars

\* the property holds on every execution that follows the protocol as designed (for the others it is evaluated
\* on the way and reported through `notes')
C17_Outputs == (cur > 0 /\ okS) => OutputsOK(ms)
C17_Live == (cur > 0 /\ okS) => LiveOK

Accepted == TLCGet("stats").diameter = Len(TraceLog) + 1
=============================================================================
