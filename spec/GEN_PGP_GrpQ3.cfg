\* quick-tier run of family group GrpQ3 (checks/c19.py writes the per-tier/per-seed variants to out/C19/cfg)
SPECIFICATION Spec
CONSTANTS
 Families <- GrpQ3
 Lo = 0
 Hi = 1000000
 W = 1
 HiR64p = 0
 HiPkt = 0
 Seed = 1
INVARIANTS Theorems Emit
CHECK_DEADLOCK FALSE
