INIT InitPubS
NEXT NextPubS
INVARIANTS InvPubS
CONSTANTS
 P = 47
 Q = 23
 Gg = 2
 Hh = 3
 Ns = {2}
 CoinSet = {1}
 ChSet <- CS3
 Wide = FALSE
 PowM <- TabPowM
CHECK_DEADLOCK FALSE
