------------------------------- MODULE Sampler -------------------------------
(***************************************************************************)
(* Property C07: the coin -> output maps of libTMCG's samplers.             *)
(*                                                                          *)
(* A distribution cannot be observed.  What can be decided is               *)
(*   (i)  the map from coins to outputs is one whose uniformity is a        *)
(*        theorem (checked here by TLC, exhaustively in small domains), and *)
(*   (ii) the code implements exactly that map (conformance: SamplerGen /   *)
(*        SamplerTrace against harness/drv_sampler.cc).                     *)
(*                                                                          *)
(* Part I  : the maps over plain integers, word space 0..W-1, written from  *)
(*           the definitions (rejection sampling without modulo bias,       *)
(*           Fisher-Yates / Knuth shuffle, cyclic rotation, residue with    *)
(*           extra bits) together with the theorems about them.             *)
(* Part II : the same maps over digit sequences (Digits.tla), so that the   *)
(*           word space can be 2^64 (Base = 256, WordLen = 8: a word is the *)
(*           8 bytes the library draws).  MC_Sampler.tla checks that        *)
(*           Part II equals Part I for all small (Base, WordLen).           *)
(* Arrays are sequences 1..n holding card indices 0..n-1.                   *)
(***************************************************************************)
EXTENDS Digits, TLC

CONSTANT WordLen          \* a raw word has WordLen digits: word space W = Base^WordLen

--------------------------------------------------------------------------
(* Part I.1  bounded sampler: uniform value in 0..m-1 from uniform words   *)
(* Accept the longest prefix of the word space whose length is a multiple  *)
(* of m, reduce mod m; any other word is thrown away and a new one drawn.  *)
AcceptCountI(W, m) == (W \div m) * m
AcceptedI(W, m, w) == w < AcceptCountI(W, m)
PreimagesI(W, m, r) == {w \in 0..(W - 1) : AcceptedI(W, m, w) /\ w % m = r}

NoModBiasThm(W, m) ==      \* for 1 <= m <= W
  /\ \A r \in 0..(m - 1) : Cardinality(PreimagesI(W, m, r)) = W \div m       \* every residue equally often
  /\ \A w \in 0..(W - 1) : AcceptedI(W, m, w) => (w % m) \in 0..(m - 1)      \* nothing out of range
  /\ AcceptCountI(W, m) <= W /\ AcceptCountI(W, m) + m > W                   \* the longest such prefix
  /\ 2 * AcceptCountI(W, m) > W                                              \* a draw is accepted with probability > 1/2
\* what the rejection is for: without it the residues are equally likely iff m divides W
PlainCount(W, m, r) == Cardinality({w \in 0..(W - 1) : w % m = r})
RejectionNeededThm(W, m) ==
  (W % m = 0) <=> (\A r \in 0..(m - 1) : PlainCount(W, m, r) = PlainCount(W, m, 0))

--------------------------------------------------------------------------
(* Part I.2  Fisher-Yates (Knuth) shuffle: position j = 1..n-1 is swapped  *)
(* with position j + c, c uniform in 0..n-j (n-j+1 possibilities).         *)
Ident(n) == [k \in 1..n |-> k - 1]
Swap(a, x, y) == [a EXCEPT ![x] = a[y], ![y] = a[x]]
IsPerm(a, n) == /\ DOMAIN a = 1..n
                /\ \A k \in 1..n : a[k] \in 0..(n - 1)
                /\ \A k, l \in 1..n : a[k] = a[l] => k = l

RECURSIVE CVecs(_, _)
CVecs(n, j) == IF j > n - 1 THEN {<<>>}
               ELSE {<<c>> \o t : c \in 0..(n - j), t \in CVecs(n, j + 1)}
ChoiceVecs(n) == CVecs(n, 1)            \* all coin vectors of the shuffle of n cards
IsChoiceVec(c, n) == /\ Len(c) = (IF n = 0 THEN 0 ELSE n - 1)
                     /\ \A j \in 1..Len(c) : c[j] \in 0..(n - j)

RECURSIVE FYFrom(_, _, _, _)
FYFrom(n, c, j, a) == IF j > n - 1 THEN a ELSE FYFrom(n, c, j + 1, Swap(a, j, j + c[j]))
FY(n, c) == FYFrom(n, c, 1, Ident(n))

RECURSIVE Factorial(_)
Factorial(n) == IF n <= 1 THEN 1 ELSE n * Factorial(n - 1)
Perms(n) == {p \in [1..n -> 0..(n - 1)] : \A k, l \in 1..n : p[k] = p[l] => k = l}

\* the coin vectors are equally likely (bounded sampler) and there are n! of them; the map onto the
\* arrangements is injective, hence a bijection: every arrangement has probability 1/n!
FYBijectionThm(n) ==
  LET CV == ChoiceVecs(n)
      Img == {FY(n, c) : c \in CV}
  IN /\ Cardinality(CV) = Factorial(n)
     /\ \A c \in CV : IsPerm(FY(n, c), n)
     /\ Cardinality(Img) = Factorial(n)
FYOntoThm(n) == {FY(n, c) : c \in ChoiceVecs(n)} = Perms(n)          \* explicit, small n
\* marginals of the induced distribution (counts out of n!)
FYMarginalThm(n) ==
  LET CV == ChoiceVecs(n) IN
  /\ \A pos \in 1..n, v \in 0..(n - 1) :
        Cardinality({c \in CV : FY(n, c)[pos] = v}) = Factorial(n - 1)
FYPairThm(n) ==
  LET Img == {FY(n, c) : c \in ChoiceVecs(n)} IN
  \A p1, p2 \in 1..n, v1, v2 \in 0..(n - 1) : (p1 < p2 /\ v1 # v2) =>
        Cardinality({p \in Img : p[p1] = v1 /\ p[p2] = v2}) = Factorial(n - 2)
\* the classical wrong shuffle (swap index drawn from all n positions) is not uniform for n >= 3:
\* the specification tells the two apart
RECURSIVE NVecs(_, _)
NVecs(n, j) == IF j > n - 1 THEN {<<>>} ELSE {<<c>> \o t : c \in 0..(n - 1), t \in NVecs(n, j + 1)}
RECURSIVE NaiveFrom(_, _, _, _)
NaiveFrom(n, c, j, a) == IF j > n - 1 THEN a ELSE NaiveFrom(n, c, j + 1, Swap(a, j, c[j] + 1))
NaiveBiasedThm(n) ==
  LET NV == NVecs(n, 1)
      cnt(p) == Cardinality({c \in NV : NaiveFrom(n, c, 1, Ident(n)) = p})
  IN \E p, q \in Perms(n) : cnt(p) # cnt(q)

--------------------------------------------------------------------------
(* Part I.3  rotation: offset r uniform in 0..n-1, arrangement = cyclic    *)
(* shift by r; the value handed back is the inverse shift (n-r) mod n.     *)
RotPerm(n, r) == [k \in 1..n |-> (r + k - 1) % n]
RotRet(n, r) == IF n = 0 THEN 0 ELSE (n - r) % n
IsCyclicShift(p, n) == \E s \in 0..(n - 1) : \A k \in 1..n : p[k] = (s + k - 1) % n
RotationThm(n) ==      \* n >= 1
  /\ \A r \in 0..(n - 1) : IsPerm(RotPerm(n, r), n) /\ IsCyclicShift(RotPerm(n, r), n)
  /\ Cardinality({RotPerm(n, r) : r \in 0..(n - 1)}) = n                      \* each of the n shifts exactly once
  /\ {RotRet(n, r) : r \in 0..(n - 1)} = 0..(n - 1)                           \* the returned offsets too
  /\ \A r \in 0..(n - 1) : RotPerm(n, r)[RotRet(n, r) + 1] = 0                \* it is the place of card 0 ...
  /\ \A r \in 0..(n - 1), k \in 1..n :                                        \* ... i.e. the inverse shift
        RotPerm(n, RotRet(n, r))[RotPerm(n, r)[k] + 1] = k - 1

--------------------------------------------------------------------------
(* Part I.4  residue sampler: a value of |m| + e bits reduced mod m.       *)
RECURSIVE Pow2(_)
Pow2(k) == IF k = 0 THEN 1 ELSE 2 * Pow2(k - 1)
ResidueThm(m, e) ==    \* m >= 1
  LET V == Pow2(BitsOfInt(m) + e)
      cnt(r) == Cardinality({v \in 0..(V - 1) : v % m = r})
      lo == V \div m
  IN /\ \A r \in 0..(m - 1) : cnt(r) \in {lo, lo + 1}         \* counts differ by at most one ...
     /\ lo >= Pow2(e)                                         \* ... out of at least 2^e: relative bias <= 2^-e
     /\ \A v \in 0..(V - 1) : (v % m) \in 0..(m - 1)

--------------------------------------------------------------------------
(* Part II  the same maps on digit sequences                               *)
WordSpace == Pow(WordLen)                                     \* W = Base^WordLen
IsWord(w) == Len(w) = WordLen /\ IsNum(w)

\* modulus given as a number md (digits), md >= 1
AcceptBound(md) == Mul(DivMod(WordSpace, md).q, md)           \* (W div m) * m
AcceptedW(md, w) == Less(w, AcceptBound(md))
ReduceW(md, w) == DivMod(w, md).r
\* modulus given as a small integer m >= 1 (stack sizes: tabulated once)
AcceptBoundS0(m) == MulSmall(DivSmall(WordSpace, m), m)
TableMax == 520
AcceptTable == [m \in 1..TableMax |-> AcceptBoundS0(m)]
AcceptBoundS(m) == IF m <= TableMax THEN AcceptTable[m] ELSE AcceptBoundS0(m)
AcceptedS(m, w) == Less(w, AcceptBoundS(m))
ReduceS(m, w) == ModSmall(w, m)

RECURSIVE FirstBelow(_, _, _)
FirstBelow(bound, ws, k) ==           \* index of the first word from position k on that is accepted, 0 if none
  IF k > Len(ws) THEN 0 ELSE IF Less(ws[k], bound) THEN k ELSE FirstBelow(bound, ws, k + 1)

\* one call of the bounded sampler that finds the words ws (in this order) in the coin source
ModRunB(md, bound, ws) ==              \* bound = AcceptBound(md), handed in when it is known already
  LET x == FirstBelow(bound, ws, 1)
  IN IF x = 0 THEN [ok |-> FALSE, used |-> Len(ws), val |-> <<>>]
     ELSE [ok |-> TRUE, used |-> x, val |-> ReduceW(md, ws[x])]
ModRun(md, ws) == ModRunB(md, AcceptBound(md), ws)
ModRunS(m, ws) ==
  LET x == FirstBelow(AcceptBoundS(m), ws, 1)
  IN IF x = 0 THEN [ok |-> FALSE, used |-> Len(ws), val |-> 0]
     ELSE [ok |-> TRUE, used |-> x, val |-> ReduceS(m, ws[x])]

\* one shuffle of n cards that finds the words ws in the coin source
RECURSIVE PermFrom(_, _, _, _, _)
PermFrom(n, ws, j, k, a) ==
  IF j > n - 1 THEN [ok |-> TRUE, used |-> k - 1, pi |-> a]
  ELSE LET m == n - j + 1
           x == FirstBelow(AcceptBoundS(m), ws, k)
       IN IF x = 0 THEN [ok |-> FALSE, used |-> Len(ws), pi |-> a]
          ELSE PermFrom(n, ws, j + 1, x + 1, Swap(a, j, j + ReduceS(m, ws[x])))
PermRun(n, ws) == PermFrom(n, ws, 1, 1, Ident(n))

\* one rotation of n cards (an empty stack needs no coin; a single card has the single shift 0)
RotRun(n, ws) ==
  IF n = 0 THEN [ok |-> TRUE, used |-> 0, pi |-> <<>>, ret |-> 0]
  ELSE LET t == ModRunS(n, ws)
       IN IF ~t.ok THEN [ok |-> FALSE, used |-> t.used, pi |-> <<>>, ret |-> 0]
          ELSE [ok |-> TRUE, used |-> t.used, pi |-> RotPerm(n, t.val), ret |-> RotRet(n, t.val)]

\* residue sampler: the library draws |m| + 64 bits rounded up to whole bytes, most significant byte
\* first, and reduces (Base = 256)
ExtraBits == 64
ResidueLen(md) == (BitLen(md) + ExtraBits + 7) \div 8
ResidueVal(md, bytesBE) == DivMod(Rev(bytesBE), md).r
ResidueValS(m, bytesBE) == ModSmall(Rev(bytesBE), m)

\* quality levels: which libgcrypt level the three families must ask for
\* (2 very strong, 1 strong, 0 weak, -1 nonce generator)
LevelOK(lvl, observed) == CASE lvl = "ss" -> observed = 2
                            [] lvl = "s"  -> observed = 1
                            [] lvl = "w"  -> observed \in {0, -1}
=============================================================================
