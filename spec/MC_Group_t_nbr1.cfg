SPECIFICATION Spec
CONSTANTS
 MaxP = 90
 MaxQ = 45
 MaxK = 10
 Margin = 4
 Variants <- N_one
 NaiveMaxP = 0
 Mode = "nbr"
 CheckArith = FALSE
 SortedBases = TRUE
INVARIANTS BlockIsDefinition Sound Complete Shape Elements Emit
CHECK_DEADLOCK FALSE
