------------------------------ MODULE GrothTrace ------------------------------
(***************************************************************************)
(* Direction B for Groth's shuffle arguments (C03 C04 C05): validation of   *)
(* executions recorded from the real GrothSKC / GrothVSSHE classes          *)
(* (harness/drv_groth.cc) in small Schnorr groups, all six forms:           *)
(*    skc_i vsshe_i    interactive, honest verifier (challenges = verifier  *)
(*                     coins)                                               *)
(*    skc_pc vsshe_pc  interactive, public coin (challenges = results of    *)
(*                     the two-party coin flip, recomputed from the logged  *)
(*                     flip messages)                                       *)
(*    skc_ni vsshe_ni  non-interactive (challenges = answers of the hash    *)
(*                     oracle to the tuples prescribed in Groth.tla, taken  *)
(*                     from the log of hook H1)                             *)
(* Per execution three events (and End):                                    *)
(*   Reset   group, keys, form, n, l_e, statement and witness as the prover *)
(*           holds them, the public inputs as the verifier holds them, the  *)
(*           kind of the execution (honest / false / mut / pub)             *)
(*   Prove   the prover's coins, oracle calls and every line it sent        *)
(*   Verify  every line the verifier was given, its coins, oracle calls,    *)
(*           the lines it sent, its verdict                                 *)
(* TProve recomputes EVERY line of the prover from the logged coins with    *)
(* the prover operators of Groth.tla; TVerify recomputes the verifier's     *)
(* lines and its verdict with the verifier predicate (mode ImplM ) from the  *)
(* lines it was given.  Nothing is tolerated: in these groups honest        *)
(* proofs are refused by design (D4 D5 D6) and false statements / mutated   *)
(* transcripts are accepted by coincidence - the predicate computes each    *)
(* case.  The invariants state the properties on top.                       *)
(***************************************************************************)
EXTENDS Groth, Json, IOUtils, TLCExt

TraceFile == IF "TRACE" \in DOMAIN IOEnv THEN IOEnv.TRACE ELSE "trace.ndjson"
TraceLog == ndJsonDeserialize(TraceFile)

VARIABLE l
IsEv(k, name) == k >= 1 /\ k <= Len(TraceLog) /\ TraceLog[k].e = name

\* ------------------------------------------------------------ the execution
\* r: Reset event, pe: Prove event, ve: Verify event
IsV(r) == r.form \in {"vsshe_i", "vsshe_pc", "vsshe_ni"}
Var(r) == CASE r.form \in {"skc_i", "vsshe_i"} -> "i" [] r.form \in {"skc_pc", "vsshe_pc"} -> "pc" [] OTHER -> "ni"
GP(r) == [p |-> r.grp[1], q |-> r.grp[2], g |-> r.grp[3], h |-> r.grp[4]]
GV(r) == [p |-> r.grpV[1], q |-> r.grpV[2], g |-> r.grpV[3], h |-> r.grpV[4]]
GF(r) == [p |-> r.fg[1], q |-> r.fg[2], g |-> r.fg[3], h |-> r.fg[4]]
CkP(r) == [p |-> r.grp[1], q |-> r.grp[2], h |-> r.ck.h, g |-> r.ck.g]
CkV(r) == [p |-> r.grp[1], q |-> r.grp[2], h |-> r.ckV.h, g |-> r.ckV.g]
PP(r) == r.grp[1]
QQ(r) == r.grp[2]
LBits(r) == IF Var(r) = "ni" THEN 2 * r.le ELSE r.le                 \* D8
Two(k) == 2 ^ k
NCh(r) == IF IsV(r) THEN r.n + 3 ELSE 2                              \* number of challenges
NLines(r) == IF IsV(r) THEN VLen(r.n) ELSE SKCLen(r.n)               \* values of the argument itself
QCoins(ev) == LET s == SelectSeq(ev.coins, LAMBDA c : c.k = "q") IN [k \in 1..Len(s) |-> s[k].v]
BCoins(ev) == LET s == SelectSeq(ev.coins, LAMBDA c : c.k = "b") IN [k \in 1..Len(s) |-> s[k].v]
WCount(ev) == Len(SelectSeq(ev.coins, LAMBDA c : c.k = "w"))
OtherCoins(ev) == Len(SelectSeq(ev.coins, LAMBDA c : c.k \notin {"q", "b", "w"}))
Ws(r, s) == [k \in 1..Len(s) |-> W(PP(r), QQ(r), s[k])]

\* the oracle: the answer to a tuple (-1: never asked)
Asked(h, tup) == \E k \in 1..Len(h) : h[k]["in"] = tup
Ans(h, tup) == IF Asked(h, tup) THEN h[CHOOSE k \in 1..Len(h) : h[k]["in"] = tup].lo ELSE -1

\* ---- layout of the prover -> verifier lines.  Public coin: every challenge is a coin flip, in which the prover
\* sends three values (C, a, b).  Position of value k of the argument / first line of flip j on the wire:
PosVal(r, k) ==
  LET n == r.n IN
  IF Var(r) # "pc" THEN k
  ELSE IF IsV(r) THEN (IF k <= 4 THEN k ELSE IF k <= n + 5 THEN k + 3 * n ELSE IF k <= n + 8 THEN k + 3 * n + 6 ELSE k + 3 * n + 9)
  ELSE (IF k <= 3 THEN k + 3 ELSE k + 6)
PosFlip(r, j) ==
  LET n == r.n IN
  IF IsV(r) THEN (IF j <= n THEN 3 * j + 2 ELSE IF j = n + 1 THEN 4 * n + 6 ELSE IF j = n + 2 THEN 4 * n + 9 ELSE 4 * n + 15)
  ELSE (IF j = 1 THEN 1 ELSE 7)
NWire(r) == NLines(r) + (IF Var(r) = "pc" THEN 3 * NCh(r) ELSE 0)
\* the prover's coins: where the coins of flip j and of the two argument stages sit among its draws modulo q
PFlipAt(r, j) ==      \* index of the first of the two coins of flip j
  LET n == r.n IN
  IF IsV(r) THEN (IF j <= n + 2 THEN NV1(n) + 2 * (j - 1) + 1 ELSE NV1(n) + 2 * (n + 2) + NSKC(n) + 1)
  ELSE (IF j = 1 THEN 1 ELSE 2 + NSKC(n) + 1)
PSkcAt(r) == IF Var(r) # "pc" THEN (IF IsV(r) THEN NV1(r.n) ELSE 0)
             ELSE (IF IsV(r) THEN NV1(r.n) + 2 * (r.n + 2) ELSE 2)
PNQ(r) == (IF IsV(r) THEN NV1(r.n) ELSE 0) + NSKC(r.n) + (IF Var(r) = "pc" THEN 2 * NCh(r) ELSE 0)
Pad(s, k, dflt) == IF k >= 1 /\ k <= Len(s) THEN s[k] ELSE dflt

\* -------------------------------------------------------------- the prover
\* everything the honest algorithm sends, recomputed from the logged coins; challenges the prover has not
\* received count as 0 (the lines that depend on them do not exist then)
ProverLines(r, pe, ve) ==
  LET n == r.n  G == GP(r)  ck == CkP(r)  q == QQ(r)  p == PP(r)
      PQ == QCoins(pe)
      pq(k) == Pad(PQ, k, 0)
      TL == Two(LBits(r))
      sc == SKCCoins(n, [k \in 1..NSKC(n) |-> pq(PSkcAt(r) + k)])
      vc == VCoins(n, [k \in 1..NV1(n) |-> pq(k)])
      \* interactive: challenge j is the j-th line of the verifier, truncated by the prover (D8)
      chI(j) == Pad(ve.sent, j, 0) % TL
      \* public coin: the sum of the prover's a and the verifier's a (second line of its flip message)
      chPC(j) == ((pq(PFlipAt(r, j)) + Pad(ve.sent, 3 * j - 1, 0)) % GF(r).q) % TL
      \* non-interactive VSSHE: the chain of oracle answers
      first == VFirst(G, ck, n, r.pi, r.Es, vc)
      RECURSIVE tNI(_)
      tNI(i) == IF i = 0 THEN <<>>
                ELSE LET pv == tNI(i - 1) IN
                     Append(pv, Ans(pe.h, TupT(G, ck, r.es, r.Es, Ws(r, first), i, IF i = 1 THEN LBits(r) ELSE pv[i - 1])) % TL)
      tv == IF Var(r) = "i" THEN [i \in 1..n |-> chI(i)] ELSE IF Var(r) = "pc" THEN [i \in 1..n |-> chPC(i)] ELSE tNI(n)
      second == VSecond(G, ck, n, r.pi, r.R, vc, tv)
      lam == IF Var(r) = "i" THEN chI(n + 1) ELSE IF Var(r) = "pc" THEN chPC(n + 1)
             ELSE Ans(pe.h, TupLam(G, ck, n, r.es, r.Es, Ws(r, first \o second), tv)) % TL
      \* the SKC instance: inside VSSHE or the stand-alone one
      m == IF IsV(r) THEN VM(q, n, tv, lam) ELSE r.m
      rho == IF IsV(r) THEN VRho(q, vc, lam) ELSE r.r
      jx == IF IsV(r) THEN n + 2 ELSE 1
      x == IF Var(r) = "i" THEN chI(jx) ELSE IF Var(r) = "pc" THEN chPC(jx) ELSE Ans(pe.h, TupX(ck, m)) % TL
      sfirst == SKCFirst(ck, n, m, r.pi, sc, x)
      e == IF Var(r) = "i" THEN chI(jx + 1) ELSE IF Var(r) = "pc" THEN chPC(jx + 1)
           ELSE Ans(pe.h, TupE(ck, m, x, Ws(r, sfirst))) % TL
      skc == sfirst \o SKCAnswer(ck, n, m, r.pi, rho, sc, x, e)
      vals == IF IsV(r) THEN first \o second \o skc ELSE skc
      flip(j) == FlipSend(GF(r), pq(PFlipAt(r, j)), pq(PFlipAt(r, j) + 1))
      wire == [k \in 1..NWire(r) |->
                IF \E j \in 1..NCh(r) : Var(r) = "pc" /\ k \in PosFlip(r, j)..(PosFlip(r, j) + 2)
                THEN LET j == CHOOSE j \in 1..NCh(r) : k \in PosFlip(r, j)..(PosFlip(r, j) + 2) IN flip(j)[k - PosFlip(r, j) + 1]
                ELSE vals[CHOOSE v \in 1..NLines(r) : PosVal(r, v) = k]]
      \* non-interactive: the prover has asked the oracle for exactly the prescribed tuples
      asked == Var(r) # "ni" \/
               /\ IsV(r) => /\ \A i \in 1..n : Asked(pe.h, TupT(G, ck, r.es, r.Es, Ws(r, first), i, IF i = 1 THEN LBits(r) ELSE tv[i - 1]))
                            /\ Asked(pe.h, TupLam(G, ck, n, r.es, r.Es, Ws(r, first \o second), tv))
               /\ Asked(pe.h, TupX(ck, m)) /\ Asked(pe.h, TupE(ck, m, x, Ws(r, sfirst)))
  IN [wire |-> wire, asked |-> asked]

\* ------------------------------------------------------------- the verifier
ZeroW == [id |-> "missing", sg |-> 0, sm |-> 0, bits |-> 1, mq |-> 0, mp |-> 0]
\* the values of the argument / the three values of flip j as the verifier was given them
VT(r, ve) == [k \in 1..NLines(r) |-> Pad(ve.rcv, PosVal(r, k), ZeroW)]
VFlipW(r, ve, j) == [i \in 1..3 |-> Pad(ve.rcv, PosFlip(r, j) + i - 1, ZeroW)]
VFlipOK(r, ve, j) == LET f == VFlipW(r, ve, j) IN FlipAccepts(GF(r), f[1], f[2], f[3])
\* the verifier's challenges (its own view)
VChal(r, ve) ==
  LET n == r.n  G == GV(r)  ck == CkV(r)  q == QQ(r)
      TL == Two(LBits(r))
      VB == BCoins(ve)  VQ == QCoins(ve)
      T == VT(r, ve)
      chI(j) == Pad(VB, j, 0) % TL
      chPC(j) == FlipValue(GF(r), VFlipW(r, ve, j)[2], Pad(VQ, 2 * j - 1, 0)) % TL
      RECURSIVE tNI(_)
      tNI(i) == IF i = 0 THEN <<>>
                ELSE LET pv == tNI(i - 1) IN
                     Append(pv, Ans(ve.h, TupT(G, ck, r.esV, r.EsV, T, i, IF i = 1 THEN LBits(r) ELSE pv[i - 1])) % TL)
      tv == IF ~IsV(r) THEN <<>> ELSE IF Var(r) = "i" THEN [i \in 1..n |-> chI(i)] ELSE IF Var(r) = "pc" THEN [i \in 1..n |-> chPC(i)] ELSE tNI(n)
      lam == IF ~IsV(r) THEN 0 ELSE IF Var(r) = "i" THEN chI(n + 1) ELSE IF Var(r) = "pc" THEN chPC(n + 1)
             ELSE Ans(ve.h, TupLam(G, ck, n, r.esV, r.EsV, T, tv)) % TL
      m == IF IsV(r) THEN VM(q, n, tv, lam) ELSE r.mV
      jx == IF IsV(r) THEN n + 2 ELSE 1
      Ts == IF IsV(r) THEN SubSeq(T, n + 6, 3 * n + 9) ELSE T
      x == IF Var(r) = "i" THEN chI(jx) ELSE IF Var(r) = "pc" THEN chPC(jx) ELSE Ans(ve.h, TupX(ck, m)) % TL
      \* interactive: e is drawn again while it is 0 (D4); the first non-zero draw counts
      eIdx == IF \E k \in (jx + 1)..Len(VB) : VB[k] % TL # 0 THEN CHOOSE k \in (jx + 1)..Len(VB) : VB[k] % TL # 0 /\ \A k2 \in (jx + 1)..(k - 1) : VB[k2] % TL = 0
              ELSE Len(VB) + 1
      e == IF Var(r) = "i" THEN chI(eIdx) ELSE IF Var(r) = "pc" THEN chPC(jx + 1) ELSE Ans(ve.h, TupE(ck, m, x, Ts)) % TL
      alphaIdx == IF Var(r) = "i" THEN eIdx + 1 ELSE 1
  IN [t |-> tv, lam |-> lam, m |-> m, x |-> x, e |-> e, eIdx |-> eIdx, alphaIdx |-> alphaIdx, alpha |-> Pad(VB, alphaIdx, 0) % Two(r.le)]

\* the verdict the verifier predicate of Groth.tla gives on what the verifier was given (mode M)
Verdict(M0, r, ve) ==
  LET n == r.n  G == GV(r)  ck == CkV(r)
      M == IF IsV(r) THEN M0 ELSE [M0 EXCEPT !.batch = r.batch]
      T == VT(r, ve)
      ch == VChal(r, ve)
      flips == Var(r) # "pc" \/ \A j \in 1..NCh(r) : VFlipOK(r, ve, j)
      \* the oracle must have been asked for exactly the prescribed tuples (C05): an unasked tuple has answer -1
      asked == Var(r) # "ni" \/
               (IF IsV(r)
                THEN /\ \A i \in 1..n : Asked(ve.h, TupT(G, ck, r.esV, r.EsV, T, i, IF i = 1 THEN LBits(r) ELSE ch.t[i - 1]))
                     /\ Asked(ve.h, TupLam(G, ck, n, r.esV, r.EsV, T, ch.t))
                     /\ VGuards(M, G, ck, n, T, LBits(r)) =>
                          /\ Asked(ve.h, TupX(ck, ch.m))
                          /\ Asked(ve.h, TupE(ck, ch.m, ch.x, SubSeq(T, n + 6, 3 * n + 9)))
                ELSE Asked(ve.h, TupX(ck, ch.m)) /\ Asked(ve.h, TupE(ck, ch.m, ch.x, T)))
  IN IF ~asked THEN "unasked"
     ELSE IF ~flips THEN "reject"
     ELSE IF IsV(r) THEN VVerify(M, G, ck, n, r.esV, r.EsV, T, ch.t, ch.lam, ch.x, ch.e, ch.alpha, LBits(r))
     ELSE SKCVerify(M, ck, n, r.cV, [i \in 1..n |-> 0], r.mV, T, ch.x, ch.e, ch.alpha)

\* where the verifier stops drawing / sending: the number of coin flips it starts, whether it reaches the SKC part and
\* the batch coin
FlipsStarted(M, r, ve) ==
  LET n == r.n
      bad == {j \in 1..NCh(r) : ~VFlipOK(r, ve, j)}
      vg == VGuards(M, GV(r), CkV(r), n, VT(r, ve), LBits(r))
      lim == IF IsV(r) /\ ~vg THEN n + 1 ELSE NCh(r)
  IN IF \E j \in bad : j <= lim THEN Min({j \in bad : j <= lim}) ELSE lim
ReachesSKC(M, r, ve) ==
  /\ IsV(r) => VGuards(M, GV(r), CkV(r), r.n, VT(r, ve), LBits(r))
  /\ Var(r) = "pc" => \A j \in 1..NCh(r) : VFlipOK(r, ve, j)
DrawsAlpha(M, r, ve) ==
  /\ ReachesSKC(M, r, ve)
  /\ (IsV(r) \/ r.batch)
  /\ SKCGuards(M, CkV(r), r.n, IF IsV(r) THEN SubSeq(VT(r, ve), r.n + 6, 3 * r.n + 9) ELSE VT(r, ve))

\* ------------------------------------------------------------------ actions
Truncated(r) == r.kind = "mut" /\ r.mut = "trunc" /\ r.applied
WitnessFits(r) ==
  IF IsV(r) THEN IsPerm(r.pi, r.n) /\ r.Es = Shuffled(GP(r), r.es, r.pi, r.R)
  ELSE IsPerm(r.pi, r.n) /\ r.c = Com(CkP(r), [i \in 1..r.n |-> r.m[r.pi[i]]], r.r)
SameView(r) == /\ r.grpV = r.grp /\ r.ckV = r.ck
               /\ IF IsV(r) THEN r.esV = r.es /\ r.EsV = r.Es ELSE r.cV = r.c /\ r.mV = r.m

TInit == l = 1
TReset ==
  /\ IsEv(l, "Reset") /\ IsEv(l + 1, "Prove") /\ IsEv(l + 2, "Verify") /\ IsEv(l + 3, "End")
  /\ LET r == TraceLog[l] IN
     /\ r.form \in {"skc_i", "skc_pc", "skc_ni", "vsshe_i", "vsshe_pc", "vsshe_ni"}
     /\ r.n >= 2 /\ r.le >= 1 /\ 2 * r.le <= BitLen(QQ(r))                 \* what GrothVSSHE::CheckGroup admits
     /\ PP(r) <= 46337 /\ GoodCk(CkP(r), r.n) /\ GoodG(GP(r)) /\ GoodG(GF(r))
     /\ Len(r.pi) = r.n /\ \A i \in 1..r.n : r.pi[i] \in 1..r.n
     /\ IsV(r) => \A i \in 1..r.n : \A k \in 1..2 : Member(PP(r), QQ(r), r.es[i][k]) /\ Member(PP(r), QQ(r), r.Es[i][k])
     \* the kinds mean what they say
     /\ r.kind \in {"honest", "false", "mut", "pub"}
     /\ (r.kind \in {"honest", "mut", "pub"}) => WitnessFits(r)
     /\ (r.kind \in {"honest", "false", "mut"}) => SameView(r)
     /\ (r.kind = "pub") => ~SameView(r)
     /\ (r.kind # "mut") => r.mut = "none"
  /\ l' = l + 1

TProve ==
  /\ IsEv(l, "Prove") /\ IsEv(l - 1, "Reset")
  /\ LET r == TraceLog[l - 1]  pe == TraceLog[l]  ve == TraceLog[l + 1]
         pl == ProverLines(r, pe, ve)
         wire == pl.wire
     IN /\ OtherCoins(pe) = 0 /\ Len(BCoins(pe)) = 0
        /\ pl.asked
        /\ Len(pe.sent) <= NWire(r)
        \* every line the prover sent is the line of the honest algorithm for its coins and challenges
        /\ \A k \in 1..Len(pe.sent) : pe.sent[k] = wire[k]
        \* a prover that finished drew exactly the coins of the algorithm and sent everything
        /\ (pe.exc = 0) => /\ Len(pe.sent) = NWire(r)
                           /\ Len(QCoins(pe)) = PNQ(r)
                           /\ WCount(pe) = (IF Var(r) = "pc" THEN NCh(r) ELSE 0)
        /\ Len(pe.h) = (IF Var(r) = "ni" THEN NCh(r) ELSE 0)
  /\ l' = l + 1

TVerify ==
  /\ IsEv(l, "Verify") /\ IsEv(l - 2, "Reset")
  /\ LET r == TraceLog[l - 2]  pe == TraceLog[l - 1]  ve == TraceLog[l]
         ch == VChal(r, ve)
     IN /\ OtherCoins(ve) = 0
        \* the relay: the verifier was given what the prover sent, but for the one mutated position
        /\ \A k \in 1..Len(ve.rcv) :
              (r.mut = "none" \/ ~r.applied \/ (k # r.pos + 1 /\ ~(r.mut = "swap" /\ k = r.pos + 2)))
                 => (k <= Len(pe.sent) /\ ve.rcv[k].id = ToString(pe.sent[k]))
        /\ IF Truncated(r)
           THEN ve.res \in {"reject", "exception"}                      \* a missing line is a refusal, whatever else
           ELSE /\ Len(ve.rcv) = Len(pe.sent)
                \* the verdict: exactly that of the verifier predicate, and the verifier's own lines and coins as far as
                \* that predicate lets it go (M: the subgroup test of the commitments the property asks for, or the
                \* range test D1 of a tree without it - see C05_Member)
                /\ \E M \in {ImplM, RangeM} :
                   /\ ve.res = Verdict(M, r, ve)
                   /\ CASE Var(r) = "i" ->
                          /\ Len(QCoins(ve)) = 0 /\ WCount(ve) = 0
                          /\ IF ~ReachesSKC(M, r, ve)
                             THEN ve.sent = Append(ch.t, ch.lam) /\ Len(BCoins(ve)) = r.n + 1
                             ELSE /\ ve.sent = (IF IsV(r) THEN Append(ch.t, ch.lam) ELSE <<>>) \o <<ch.x, ch.e>>
                                  /\ ch.e # 0
                                  /\ Len(BCoins(ve)) = ch.eIdx + (IF DrawsAlpha(M, r, ve) THEN 1 ELSE 0)
                     [] Var(r) = "pc" ->
                          LET VQ == QCoins(ve)  fs == FlipsStarted(M, r, ve) IN
                          /\ Len(VQ) = 2 * fs /\ WCount(ve) = fs
                          /\ Len(ve.sent) <= 3 * fs /\ Len(ve.sent) >= 3 * fs - 2
                          /\ \A k \in 1..Len(ve.sent) :
                                ve.sent[k] = FlipSend(GF(r), VQ[2 * ((k + 2) \div 3) - 1], VQ[2 * ((k + 2) \div 3)])[((k - 1) % 3) + 1]
                          /\ Len(BCoins(ve)) = (IF DrawsAlpha(M, r, ve) THEN 1 ELSE 0)
                     [] OTHER ->
                          /\ Len(QCoins(ve)) = 0 /\ WCount(ve) = 0 /\ Len(ve.sent) = 0
                          /\ Len(BCoins(ve)) = (IF DrawsAlpha(M, r, ve) THEN 1 ELSE 0)
  /\ l' = l + 1

\* the invariants below are evaluated in the state that has End before it (so that a violation points into the execution)
TEnd == IsEv(l, "End") /\ IsEv(l - 1, "Verify") /\ l' = l + 1
TNext == TReset \/ TProve \/ TVerify \/ TEnd
TSpec == TInit /\ [][TNext]_l

\* --------------------------------------------------------------- properties
\* evaluated on the execution that has just been consumed
Done == l >= 4 /\ IsEv(l, "End") /\ IsEv(l - 1, "Verify")
RR == TraceLog[l - 3]
VE == TraceLog[l - 1]
\* C03: an honest proof of a true statement is accepted, except for the coins the implementation refuses by design:
\* some f_i shorter than the challenge length (D5), Z = 0 (D6), e = 0 modulo q (D4: assertion)
HonestBad(r, ve) ==
  LET T == VT(r, ve)  ch == VChal(r, ve) IN
  \/ IsV(r) /\ \E i \in 1..r.n : T[4 + i].bits < LBits(r)
  \/ IsV(r) /\ T[5 + r.n].sg = 0
  \/ ch.e % QQ(r) = 0
Honest(r) == WitnessFits(r) /\ SameView(r) /\ (r.mut = "none" \/ ~r.applied)
C03_Complete == (Done /\ Honest(RR)) => (VE.res = "accept" <=> ~HonestBad(RR, VE))
\* an honest run never ends in an exception, and the group of an unchanged instance passes CheckGroup
C03_NoExc == (Done /\ RR.kind \in {"honest", "false"}) => (VE.res # "exception" /\ VE.chk)
\* C05: a commitment outside the subgroup of order q is a value outside the group: the property asks for refusal.
\* A tree whose PedersenCommitmentScheme::TestMembership tests 0 < c < p only (D1: the pinned tree before the repair
\* 3d7851a) accepts e.g. p - c_a whenever e is even: TVerify can follow such a verifier (mode RangeM), this invariant
\* judges it.
C05_Member == (Done /\ ~Truncated(RR)) => (VE.res = "accept" => Verdict(ImplM, RR, VE) = "accept")

Accepted == TLCGet("stats").diameter = Len(TraceLog) + 1
=============================================================================
