SPECIFICATION MCSpec
CONSTANTS
 CN = 2
 CAuth = TRUE
 CEnc = FALSE
 CChunked = FALSE
 CVariant = "select"
 CMACLEN = 2
 CBLK = 2
 CBUFSZ = 12
 Delim = 63
 NoVal <- NoValMC
 Rcv = 1
 Prog <- Prog1_3
 MaxFault = 2
 Kinds <- ByteKinds
 Scheds = {3}
 ArrSize = 0
 TagNL <- TagNLa
 IvNL = {}
INVARIANTS InOrderI CompleteAlways AuthSafeI NothingForged FramesFit 
PROPERTIES StoppedStays
CHECK_DEADLOCK FALSE
