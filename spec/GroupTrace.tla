---------------------------- MODULE GroupTrace ----------------------------
(* Direction B for C06: a log recorded from the library's own generating    *)
(* constructors (harness/drv_group.cc, mode gen) is validated against        *)
(* Group.tla.  Every event carries a parameter set produced by the library, *)
(* the verdict of CheckGroup() on it and some CheckElement() results:       *)
(*   - the verdict must be WFv of the logged set (whatever the set is),     *)
(*   - a set a class generated for itself must be accepted, except for the  *)
(*     exactly characterised coincidences of small groups (two independently *)
(*     chosen generators coincide, h = g^0 or g^1),                         *)
(*   - generators set up from public coins must be the derived ones,        *)
(*   - element verdicts must be Member.                                     *)
(* For accepted sets the spec also emits the corruption catalogue with the  *)
(* expected verdicts (replayed through the public constructors afterwards). *)
EXTENDS Group, TLCExt

CONSTANTS NeedsOnly,      \* TRUE: only print the oracle strings that are missing, accept everything
          CatEvery        \* emit the catalogue for every CatEvery-th accepted event (0: never)

TraceFile == IF "TRACE" \in DOMAIN IOEnv THEN IOEnv.TRACE ELSE "trace.ndjson"
TraceLog == ndJsonDeserialize(TraceFile)

VARIABLE l
Ev == TraceLog[l]

Own(e) == "via" \notin DOMAIN e \/ e.via = "republished"
EV(e) == EffV(e.cls, e.v)
\* the shuffle argument compares the order of its encryption group ("eq") with the challenge length
Verdict(e) ==
  IF e.cls = "vsshe"
  THEN Bits(e.eq) >= e.v.le /\ Bits(e.eq) >= 2 * e.v.le /\ WFv([EV(e) EXCEPT !.le = 0], e.t)
  ELSE WFv(EV(e), e.t)

\* generators individually fine (in the subgroup, in range), structure fine, but two coincide or one is the identity
Coincidence(w, t) ==
  LET p == t[1]  q == t[2]  gens == GensOf(w, t) IN
  /\ w.fam \in {"com", "pqgh"}
  /\ (w.fam = "com" => Struct(w.F, w.G, p, q, t[3])) /\ (w.fam = "pqgh" => StructD(w.F, w.G, p, q))
  /\ \A i \in 1..Len(gens) : Member(p, q, gens[i])
  /\ (~Distinct(gens) \/ \E i \in 1..Len(gens) : gens[i] = 1)

ElemsOK(e) ==
  "el" \in DOMAIN e =>
     \A i \in 1..Len(e.el) :
        e.el[i][2] = (IF e.cls = "qr" THEN MemberQR(e.t[1], e.el[i][1]) ELSE Member(e.t[1], e.t[2], e.el[i][1]))

\* oracle strings the event needs and the table lacks
NeedOf(e) ==
  IF e.e = "Gen" /\ EV(e).canon /\ EV(e).fam \in {"dlog", "pqgh"} /\ StructD(1, 1, e.t[1], e.t[2])
  THEN LET c == Canon(e.t[1], e.t[2]) IN IF c.st = "need" THEN {c} ELSE {}
  ELSE IF e.e = "Setup"
  THEN LET c == HGDerive(e.t[1], e.t[2], e.t[3], e.a, e.v.n) IN IF c.st = "need" THEN {c} ELSE {}
  ELSE {}

GenOKEvent(e) ==
  /\ "cg" \in DOMAIN e => e.cg = Verdict(e)
  /\ ("cg" \in DOMAIN e /\ Own(e)) => (e.cg \/ Coincidence(EV(e), e.t))
  /\ ElemsOK(e)
SetupOKEvent(e) ==
  LET n == e.v.n
      d == IF e.noh THEN HGChain(HGPrefix(e.t[1], e.t[2], e.a), e.t[1], e.t[2], e.t[3], n, <<>>)
           ELSE HGDerive(e.t[1], e.t[2], e.t[3], e.a, n) IN
  /\ d.st = "ok"
  /\ (IF e.noh THEN d.gs = GsOf(e.t) ELSE d.gs = <<e.t[4]>> \o GsOf(e.t))
  /\ e.cg = Verdict(e)
  /\ (e.cg \/ Coincidence(EV(e), e.t))

---------------------------------------------------------------------------
(* corruption catalogue of a well-formed set: per field the values tried    *)
Divisors(n) == {d \in 1..n : n % d = 0}
SmallCat == {0, 1, 2, 3, 4}
CatP(w, t) == LET p == t[1]  q == t[2] IN
  SmallCat \cup {p - 2, p - 1, p + 1, p + 2, 0 - p, q, 2 * q + 1} \cup {p + j * q : j \in 1..6} \cup {p - j * q : j \in 1..3}
CatQ(w, t) == LET p == t[1]  q == t[2] IN
  SmallCat \cup {q - 2, q - 1, q + 1, q + 2, 2 * q, 0 - q, p, p - 1, (p - 1) \div 2} \cup
  (IF p < 40000 THEN {d \in Divisors(p - 1) : d # q} ELSE {})
CatK(w, t) == LET k == t[3] IN SmallCat \cup {k - 1, k + 1, 2 * k, 0 - k, t[2], k + t[2], k * t[2]}
NonMember(p, q) == CHOOSE a \in 2..(p - 2) : PowM(a, q, p) # 1
CatG(w, t, f) == LET p == t[1]  q == t[2]  x == t[f]  gens == GensOf(w, t) IN
  SmallCat \cup {0 - 1, 0 - 2, x - 1, x + 1, 0 - x, p - x, x + p, x - p, p - 2, p - 1, p, p + 1, p + 2, p + 4, q,
                 (x * x) % p, PowM(x, q - 1, p), NonMember(p, q), (NonMember(p, q) * x) % p} \cup
  {gens[i] : i \in 1..Len(gens)} \cup {(x * gens[i]) % p : i \in 1..Len(gens)}
CatField(w, t, f) ==
  IF f = 1 THEN CatP(w, t) ELSE IF f = 2 THEN CatQ(w, t)
  ELSE IF f = 3 /\ w.fam \in {"dlog", "com"} THEN CatK(w, t) ELSE CatG(w, t, f)
\* keep every modulus small enough for 32-bit products
CatVals(w, t, f) == {x \in CatField(w, t, f) : x # t[f] /\ x < 46000 /\ x > 0 - 46000}
CatAcc(w, t, f) == {x \in CatVals(w, t, f) : WFv(w, [t EXCEPT ![f] = x])}
CatLine(e) ==
  LET w == EV(e)  nf == NFields(w) IN
  PrintT(ToJson([kind |-> "cat", v |-> w, classes |-> {e.cls}, base |-> e.t, run |-> e.run,
                 vals |-> [f \in 1..nf |-> CatVals(w, e.t, f)],
                 acc |-> [f \in 1..nf |-> CatAcc(w, e.t, f)]]))
WantsCat(e) == /\ CatEvery > 0 /\ e.e = "Gen" /\ "cg" \in DOMAIN e /\ e.cg /\ e.cls # "vsshe" /\ e.cls # "pubrotzk"
               /\ e.run % CatEvery = 0

---------------------------------------------------------------------------
Init == l = 1
\* (one boolean, compared with TRUE: TLC then evaluates it as an expression instead of splitting every disjunction
\*  inside it into separate ways of taking the step)
EventOK(e) ==
  IF NeedsOnly
  THEN \A c \in NeedOf(e) : PrintT(ToJson([kind |-> "need", u |-> c.u, m |-> c.m, st |-> c.st]))
  ELSE /\ (e.e = "Gen" /\ "t" \in DOMAIN e) => GenOKEvent(e)
       /\ e.e = "Setup" => SetupOKEvent(e)
       /\ e.e # "Crash"
       /\ (e.e \in {"Gen", "Setup"} /\ "cg" \in DOMAIN e /\ ~e.cg /\ Own(e) /\ Coincidence(EV(e), e.t)) =>
             PrintT(ToJson([kind |-> "coincidence", cls |-> e.cls, e |-> e.e, t |-> e.t]))
       /\ WantsCat(e) => CatLine(e)
Step ==
  /\ l <= Len(TraceLog)
  /\ EventOK(Ev) = TRUE
  /\ l' = l + 1
Spec == Init /\ [][Step]_l
Accepted == TLCGet("stats").diameter = Len(TraceLog) + 1
=============================================================================
