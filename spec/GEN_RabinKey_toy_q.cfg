SPECIFICATION ToySpec
CONSTANTS
 Tier = "quick"
 Ops = {"verify", "decrypt", "check"}
 MaxPrime = 31
INVARIANT ToyEmit
CHECK_DEADLOCK FALSE
