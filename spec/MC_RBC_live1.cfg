SPECIFICATION FairSpec
CONSTANTS
 N = 4
 T = 1
 Honest <- H3
 FixF3 = TRUE
 FixF4 = TRUE
 FixF15 = TRUE
 Prog <- P_one3
 UseDFrom <- None
 DFromWho <- AllParties
 ByzBudget = 0
 ByzAlphabet <- None
 InitChan <- Empty
 InitFifo = TRUE
 GenDepth = 0
 LateParty = 99
INVARIANTS Agreement NoDuplicate Integrity QValidity QTotality KnownIsAccepted
PROPERTIES DeliveryStepP EventuallyDelivered
CHECK_DEADLOCK FALSE

