SPECIFICATION ThmSpec
CONSTANTS
 P = 23
 Q = 11
 Gg = 2
 Vars = {"two"}
 Ns = {2}
 MsgVecs = {}
 CCoins = {}
 SCoins = {}
 Tamper = FALSE
 PowM <- TabPowM
INVARIANTS SlotTheoremOne
CHECK_DEADLOCK FALSE
