-------------------------------- MODULE MC_OT --------------------------------
(***************************************************************************)
(* Exhaustive exploration of OTProto.tla in small Schnorr groups (C18):     *)
(*  Spec     every index, every message vector of MsgVecs, every chooser    *)
(*           coin of CCoins, every sender coin of SCoins; with Tamper also  *)
(*           every first move of the mutation catalogue at every position   *)
(*  ThmSpec  one state per (a, b, c) in Z_q^3; the invariant SlotTheorem     *)
(*           quantifies over all sender coins and all messages of the group *)
(***************************************************************************)
EXTENDS OTProto

CONSTANTS P, Q, Gg,      \* the group
          Vars,          \* variants explored
          Ns,            \* numbers of messages (variant "two": 2)
          MsgVecs,       \* message vectors (filtered by length)
          CCoins, SCoins,\* coin ranges of chooser and sender
          Tamper         \* explore malformed first moves
G == [p |-> P, q |-> Q, g |-> Gg]
ASSUME IsSchnorr(G)
ASSUME CCoins \subseteq Zq(G) /\ SCoins \subseteq Zq(G)

AllZq == 0..(Q - 1)
\* TLC evaluates PowM by recursion every time; the configurations replace it (PowM <- TabPowM) by a table that
\* is built once from the same defining recursion - the results are identical, the exploration is ~10x faster
RECURSIVE RecPowM(_, _, _)
RecPowM(b, e, m) == IF e = 0 THEN 1 % m
                    ELSE LET h == RecPowM((b * b) % m, e \div 2, m) IN IF e % 2 = 1 THEN (b * h) % m ELSE h
PowTab == [b \in 0..(P - 1) |-> [e \in 0..Q |-> RecPowM(b, e, P)]]
TabPowM(b, e, m) == IF m = P /\ b >= 0 /\ b < P /\ e >= 0 /\ e <= Q THEN PowTab[b][e] ELSE RecPowM(b, e, m)
\* message vectors used by the configurations (elements of the group incl. 1, repeats)
MV23 == {<<1, 1>>, <<2, 3>>, <<1, 1, 1>>, <<2, 3, 2>>, <<4, 1, 4, 18>>}
MV23b == {<<1, 1>>, <<2, 3>>, <<3, 3>>, <<13, 1>>, <<1, 1, 1>>, <<2, 3, 2>>, <<9, 9, 16>>, <<4, 1, 4, 18>>, <<2, 3, 4, 6>>}
MV11 == {<<1, 1>>, <<3, 4>>, <<9, 9>>, <<1, 1, 1>>, <<3, 4, 3>>, <<4, 5, 9, 1>>}
MV7 == {<<1, 1>>, <<2, 4>>, <<4, 4>>, <<1, 2>>, <<1, 1, 1>>, <<2, 4, 2>>, <<1, 2, 4>>}
C4a == {0, 1, 5, 10}
C3a == {0, 1, 7}
C2a == {0, 2}
C1a == {1}
C4c == {0, 1, 2, 5}
C2b == {0, 5}
C3b == {0, 1, 3}
C2c == {0, 1}
C2d == {0, 7}
C2e == {1, 2}
C6 == {0, 1, 2, 5, 7, 10}
C3c == {0, 1, 2}
C4d == {0, 1, 3, 4}
MV23s == {<<2, 3>>, <<2, 3, 2>>}
MV7s == {<<1, 2>>, <<2, 4, 2>>}
MV11s == {<<3, 4, 3>>}
MV11t == {<<3, 4>>, <<1, 1>>}

Pars == {pr \in [G : {G}, var : Vars, N : Ns, sigma : 0..7, M : MsgVecs] : ParOK(pr)}
Init == st \in {Fresh(pr) : pr \in Pars}
Next ==
  \/ st.pc = "choose" /\ \E coins \in [1..NCC(st.par.var, st.par.N) -> CCoins] : ChooserMove(coins)
  \/ st.pc = "relay" /\ Relay(st.q1)
  \/ st.pc = "relay" /\ Tamper /\ \E k \in 1..Len(st.q1), m \in MutNames :
         MutApplies(st.q1, k, m) /\ Relay(Mutate(G, st.q1, k, m))
  \/ st.pc = "send" /\ SenderGuards /\ \E coins \in [1..NSC(st.par.N) -> SCoins] : SenderAnswer(coins)
  \/ SenderAbort
  \/ st.pc = "finish" /\ ChooserFinish(st.a2)
Spec == Init /\ [][Next]_st

\* measure of the honest failures: exactly the coin vectors with a collision (1-of-2: q^2 of q^3, i.e. 1/q)
AbortMeasure ==
  (CCoins = AllZq) =>
    \A pr \in Pars : (pr.var # "opt" /\ pr.N <= 3) =>
       LET all == [1..NCC(pr.var, pr.N) -> AllZq]
           bad == {cc \in all : ~Guards(G, pr.var, pr.N, QueryOf(pr, cc))}
           \* the other N-1 exponents are pairwise distinct and differ from ab: q-1, q-2, ... choices
           RECURSIVE Falling(_, _)
           Falling(n, k) == IF k = 0 THEN 1 ELSE n * Falling(n - 1, k - 1)
           good == Q * Q * Falling(Q - 1, pr.N - 1) * (IF pr.var = "n" THEN Q ELSE 1)
       IN Cardinality(bad) = Cardinality(all) - good

ASSUME AbortMeasure

\* ---- slot theorem: a tree root -> a -> (a, b) -> (a, b, c), so that the workers share the leaves
ThmInit == st = [k |-> 0]
ThmNext == \/ st.k = 0 /\ \E a \in AllZq : st' = [k |-> 1, a |-> a]
           \/ st.k = 1 /\ \E b \in AllZq : st' = [k |-> 2, a |-> st.a, b |-> b]
           \/ st.k = 2 /\ \E c \in AllZq : st' = [k |-> 3, a |-> st.a, b |-> st.b, c |-> c]
ThmSpec == ThmInit /\ [][ThmNext]_st
ThmMsgs == IF Q <= 11 THEN Elems(G) ELSE {1, Gg, PowM(Gg, Q - 1, P)}
SlotTheorem == (st.k = 3) => ThSlot(G, st.a, st.b, st.c, ThmMsgs)
SlotTheoremFew == (st.k = 3) => ThSlot(G, st.a, st.b, st.c, {1, Gg, PowM(Gg, Q - 1, P)})
SlotTheoremOne == (st.k = 3) => ThSlot(G, st.a, st.b, st.c, {Gg})
=============================================================================
