SPECIFICATION Spec
CONSTANTS
 P = 11
 Q = 5
 Gg = 3
 Vars = {"two"}
 Ns = {2}
 MsgVecs <- MV11t
 CCoins <- AllZq
 SCoins <- C2a
 Tamper = FALSE
 PowM <- TabPowM
INVARIANTS Correct HonestAbort Refusal OneOnly Curious CuriousPairs
CHECK_DEADLOCK FALSE
