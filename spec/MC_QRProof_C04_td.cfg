SPECIFICATION Spec
CONSTANTS
 Insts <- Insts_C04_td
 MaskOneAsCoded = FALSE
INVARIANT Thm
CHECK_DEADLOCK FALSE
