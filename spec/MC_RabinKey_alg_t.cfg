SPECIFICATION AlgSpec
CONSTANTS
 Tier = "thorough"
 Ops = {"verify", "decrypt", "check"}
 MaxPrime = 47
INVARIANT AlgInv
CHECK_DEADLOCK FALSE
