SPECIFICATION MCSpec
CONSTANTS
 CN = 2
 CAuth = FALSE
 CEnc = TRUE
 CChunked = TRUE
 CVariant = "select"
 CMACLEN = 2
 CBLK = 2
 CBUFSZ = 12
 Delim = 63
 NoVal <- NoValMC
 Rcv = 1
 Prog <- ProgArr
 MaxFault = 0
 Kinds <- AllKinds
 Scheds = {1,3}
 ArrSize = 2
 TagNL <- NoTagNL
 IvNL = {}
INVARIANTS InOrderI CompleteAlways AuthSafeI NothingForged FramesFit ArraysWholeI
PROPERTIES StoppedStays
CHECK_DEADLOCK FALSE
