SPECIFICATION Spec
CONSTANTS
 P = 23
 Q = 11
 Gg = 2
 Hh = 3
 N = 5
 T = 2
 Strict = TRUE
 Mode = "tamper"
 HonP <- PolysConst
 DevP <- PolysConst
INVARIANTS Holds Interp
CHECK_DEADLOCK FALSE
