SPECIFICATION MCSpec
CONSTANTS
 CN = 3
 CAuth = TRUE
 CEnc = TRUE
 CChunked = FALSE
 CVariant = "select"
 CMACLEN = 2
 CBLK = 2
 CBUFSZ = 12
 Delim = 63
 NoVal <- NoValMC
 Rcv = 1
 Prog <- Prog3_1
 MaxFault = 0
 Kinds <- AllKinds
 Scheds = {1,2,3}
 ArrSize = 0
 TagNL <- NoTagNL
 IvNL = {}
INVARIANTS InOrderI CompleteAlways AuthSafeI NothingForged FramesFit 
PROPERTIES StoppedStays
CHECK_DEADLOCK FALSE
