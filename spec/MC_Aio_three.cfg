SPECIFICATION MCSpec
CONSTANTS
 N = 3
 Auth = TRUE
 Enc = TRUE
 Chunked = FALSE
 Variant = "select"
 MACLEN = 2
 BLK = 2
 BUFSZ = 12
 Delim = 63
 NoVal <- NoValMC
 Rcv = 1
 Prog <- Prog3_1
 MaxFault = 0
 Kinds <- AllKinds
 Scheds = {1,2,3}
 ArrSize = 0
 TagNL <- NoTagNL
 IvNL = {}
INVARIANTS InOrderI CompleteAlways AuthSafeI NothingForged FramesFit 
PROPERTIES StoppedStays
CHECK_DEADLOCK FALSE
