SPECIFICATION GSpec
CONSTANTS
 Base = 256
 WordLen = 8
INVARIANTS GenOK GenPrint
CHECK_DEADLOCK FALSE
