SPECIFICATION GSpec
CONSTANTS
 Base = 256
 WordLen = 8
INVARIANTS GenOK
CHECK_DEADLOCK FALSE
