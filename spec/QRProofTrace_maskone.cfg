SPECIFICATION PSpec
CONSTANTS
 MaskOneAsCoded = FALSE
 Strict = FALSE
POSTCONDITION Accepted
CHECK_DEADLOCK FALSE
