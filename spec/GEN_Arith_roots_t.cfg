SPECIFICATION Spec
CONSTANTS
 Fams = {"sqp", "sqn"}
 P <- PThorough
INVARIANTS Theorems Emit
CHECK_DEADLOCK FALSE
