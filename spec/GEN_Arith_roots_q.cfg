SPECIFICATION Spec
CONSTANTS
 Fams = {"sqp", "sqn"}
 P <- PQuick
INVARIANTS Theorems Emit
CHECK_DEADLOCK FALSE
