------------------------------- MODULE Group -------------------------------
(* C06 - parameter validation accepts exactly well-formed groups.           *)
(*                                                                          *)
(* Written from the property text and the cited definitions ([Bo98] Schnorr *)
(* groups p = kq+1, safe-prime QR groups p = 2q+1 with p = 7 mod 8, FIPS    *)
(* 186 A.2.3 style verifiable generators, [KK04] shifted generator), not    *)
(* from the C++.  A parameter set is a tuple of integers in the field order *)
(* of its family:                                                           *)
(*   "dlog" <<p,q,k,g>>        BarnettSmartVTMF_dlog                        *)
(*   "qr"   <<p,q,g>>          BarnettSmartVTMF_dlog_GroupQR                *)
(*   "com"  <<p,q,k,h,g1..gn>> PedersenCommitmentScheme, GrothSKC,          *)
(*                             GrothVSSHE (commitment part), and with n = 1 *)
(*                             PedersenTrapdoorCommitmentScheme (g1 = g)    *)
(*   "pqgh" <<p,q,g,h>>        VRHE, PedersenVSS, both DKGs, NTS, RVSS/ZVSS,*)
(*                             DSS, JL-RVSS, EDCF  (k = (p-1)/q implicit)   *)
(*   "pqg"  <<p,q,g>>          NaorPinkasEOTP                               *)
(* A variant v fixes the configuration: [fam, F, G, E, le, canon, n].       *)
EXTENDS Integers, Sequences, FiniteSets, TLC, Json, IOUtils

Max(a, b) == IF a >= b THEN a ELSE b
Min(a, b) == IF a <= b THEN a ELSE b

---------------------------------------------------------------------------
(* arithmetic: the defining form (..Def) and the form used for evaluation;  *)
(* MC_Group checks with TLC that they agree on an initial segment.          *)

IsPrimeDef(n) == n > 1 /\ \A d \in 2..(n - 1) : n % d # 0
\* trial division up to the square root; every number the spec computes with is below 46341 (products stay below 2^31)
IsPrime(n) == n > 1 /\ n < 46341 /\ \A d \in 2..Min(n - 1, 215) : (d * d <= n) => (n % d # 0)

\* number of binary digits (0 has none)
Bits(n) == CHOOSE b \in 0..30 : n < 2^b /\ (b = 0 \/ n >= 2^(b - 1))

RECURSIVE PowDef(_, _, _)
PowDef(a, e, m) == IF e = 0 THEN 1 % m ELSE (PowDef(a, e - 1, m) * (a % m)) % m
RECURSIVE PowM(_, _, _)
PowM(a, e, m) ==
  IF e = 0 THEN 1 % m
  ELSE LET h == PowM(a, e \div 2, m)
           s == (h * h) % m
       IN IF e % 2 = 1 THEN (s * (a % m)) % m ELSE s

GcdDef(a, b) == IF a = 0 THEN b ELSE IF b = 0 THEN a
                ELSE CHOOSE d \in 1..Min(a, b) : a % d = 0 /\ b % d = 0 /\
                                                 \A e \in (d + 1)..Min(a, b) : ~(a % e = 0 /\ b % e = 0)
RECURSIVE Gcd(_, _)
Gcd(a, b) == IF b = 0 THEN a ELSE Gcd(b, a % b)
ShareFactor(a, b) == Gcd(a, b) # 1

\* multiplicative order of x modulo p is exactly q
HasOrder(x, q, p) == PowM(x, q, p) = 1 /\ \A d \in 1..(q - 1) : PowM(x, d, p) # 1
IsQR(a, p) == a % p # 0 /\ \E x \in 1..(p - 1) : (x * x) % p = a % p

---------------------------------------------------------------------------
(* membership: "element checks accept exactly the members of the order-q    *)
(* subgroup in the range 1..p-1"                                            *)
Member(p, q, a) == 0 < a /\ a < p /\ PowM(a, q, p) = 1
MemberQR(p, a) == 0 < a /\ a < p /\ IsQR(a, p)
Sub(p, q) == {a \in 1..(p - 1) : PowM(a, q, p) = 1}
Powers(x, q, p) == {PowM(x, i, p) : i \in 0..(q - 1)}

---------------------------------------------------------------------------
(* verifiable generators.  The hash is an oracle: OracleTable maps the      *)
(* queried string to (hash value mod p) - the file is filled by the harness *)
(* from the library's own tmcg_mpz_shash for exactly the strings asked for. *)
OracleTable == IF "ORACLE" \in DOMAIN IOEnv THEN JsonDeserialize(IOEnv.ORACLE) ELSE [x \in {"-"} |-> 0]

B62Digits == <<"0","1","2","3","4","5","6","7","8","9",
               "A","B","C","D","E","F","G","H","I","J","K","L","M","N","O","P","Q","R","S","T","U","V","W","X","Y","Z",
               "a","b","c","d","e","f","g","h","i","j","k","l","m","n","o","p","q","r","s","t","u","v","w","x","y","z">>
RECURSIVE B62(_)
B62(n) == IF n < 62 THEN B62Digits[n + 1] ELSE B62(n \div 62) \o B62Digits[(n % 62) + 1]

Trivial(c, p) == c = 0 \/ c = 1 \/ c = p - 1
GenPrefix(p, q) == "LibTMCG|" \o B62(p) \o "|" \o B62(q) \o "|ggen|"
\* FIPS 186 A.2.3 style: candidates W^k mod p with W = H(U); U is extended by every candidate computed; the
\* first candidate that is non-trivial and of order q is the generator
RECURSIVE Chain(_, _, _, _, _, _)
Chain(u, p, q, k, needOrder, fuel) ==
  IF fuel = 0 THEN [st |-> "fuel", u |-> u, g |-> 0, m |-> p]
  ELSE IF u \notin DOMAIN OracleTable THEN [st |-> "need", u |-> u, g |-> 0, m |-> p]
  ELSE LET c == PowM(OracleTable[u], k, p)
           u2 == u \o B62(c) \o "|" IN
       IF ~Trivial(c, p) /\ (needOrder => PowM(c, q, p) = 1)
       THEN [st |-> "ok", u |-> u2, g |-> c, m |-> p]
       ELSE Chain(u2, p, q, k, needOrder, fuel - 1)
Canon(p, q) == Chain(GenPrefix(p, q), p, q, (p - 1) \div q, TRUE, 40)
IsCanon(p, q, g) == LET c == Canon(p, q) IN c.st = "ok" /\ c.g = g

\* public-coin set-up of the commitment generators: h, g_1, .., g_n from the seed a (one growing string)
HGPrefix(p, q, a) == "LibTMCG|" \o B62(p) \o "|" \o B62(q) \o "|hggen|" \o B62(a) \o "|"
RECURSIVE HGChain(_, _, _, _, _, _)
HGChain(u, p, q, k, cnt, acc) ==
  IF cnt = 0 THEN [st |-> "ok", gs |-> acc, u |-> u, m |-> p]
  ELSE LET c == Chain(u, p, q, k, FALSE, 40) IN
       IF c.st # "ok" THEN [st |-> c.st, gs |-> acc, u |-> c.u, m |-> p]
       ELSE HGChain(c.u, p, q, k, cnt - 1, Append(acc, c.g))
\* <<h, g_1, .., g_n>>
HGDerive(p, q, k, a, n) == HGChain(HGPrefix(p, q, a), p, q, k, n + 1, <<>>)

\* [KK04] shifted generator of the QR group: 2^(2^(|p| - E)) mod p
CanonQR(p, E) == PowM(2, 2^(Bits(p) - E), p)

---------------------------------------------------------------------------
(* well-formedness, clause by clause as in the property                     *)
Struct(F, G, p, q, k) ==
  /\ Bits(p) >= F /\ Bits(q) >= G            \* not shorter than configured
  /\ p = k * q + 1                           \* the relation
  /\ IsPrime(p) /\ IsPrime(q)                \* neither composite
  /\ ~ShareFactor(k, q)                      \* k and q share no factor
StructD(F, G, p, q) == q > 0 /\ p > 0 /\ (p - 1) % q = 0 /\ Struct(F, G, p, q, (p - 1) \div q)
\* a generator: not 0, 1, p-1, not out of range, of order q
GenOK(p, q, x) == 1 < x /\ x < p - 1 /\ HasOrder(x, q, p)

WellDlog(F, G, canon, p, q, k, g) ==
  Struct(F, G, p, q, k) /\ GenOK(p, q, g) /\ (canon => IsCanon(p, q, g))
WellQR(F, E, p, q, g) ==
  /\ Bits(p) >= F /\ Bits(q) >= F - 1
  /\ p = 2 * q + 1 /\ IsPrime(p) /\ IsPrime(q) /\ p % 8 = 7
  /\ 1 < g /\ g < p - 1 /\ HasOrder(g, q, p)
  /\ Bits(p) >= E /\ g = CanonQR(p, E)
Distinct(s) == \A i, j \in 1..Len(s) : i < j => s[i] # s[j]
WellCom(F, G, p, q, k, h, gs) ==
  /\ Struct(F, G, p, q, k)
  /\ GenOK(p, q, h) /\ \A i \in 1..Len(gs) : GenOK(p, q, gs[i])
  /\ Distinct(<<h>> \o gs)
WellPQGH(F, G, canon, p, q, g, h) ==
  StructD(F, G, p, q) /\ GenOK(p, q, g) /\ GenOK(p, q, h) /\ g # h /\ (canon => IsCanon(p, q, g))
WellPQG(F, G, p, q, g) == StructD(F, G, p, q) /\ GenOK(p, q, g)

GsOf(t) == [i \in 1..(Len(t) - 4) |-> t[i + 4]]
\* v.le > 0 marks the shuffle argument: |q| >= l_e and |q| >= 2 l_e (non-interactive challenge length)
WFv(v, t) ==
  CASE v.fam = "dlog" -> WellDlog(v.F, v.G, v.canon, t[1], t[2], t[3], t[4])
    [] v.fam = "qr"   -> WellQR(v.F, v.E, t[1], t[2], t[3])
    [] v.fam = "com"  -> (v.le > 0 => (Bits(t[2]) >= v.le /\ Bits(t[2]) >= 2 * v.le)) /\
                         WellCom(v.F, v.G, t[1], t[2], t[3], t[4], GsOf(t))
    [] v.fam = "pqgh" -> WellPQGH(v.F, v.G, v.canon, t[1], t[2], t[3], t[4])
    [] v.fam = "pqg"  -> WellPQG(v.F, v.G, t[1], t[2], t[3])

\* classes a variant speaks for
ClassesOf(v) ==
  CASE v.fam = "dlog" -> {"dlog"}
    [] v.fam = "qr"   -> {"qr"}
    [] v.fam = "com"  -> IF v.le > 0 THEN {"vsshe"} ELSE {"com", "skc"} \cup (IF v.n = 1 THEN {"ptc"} ELSE {})
    [] v.fam = "pqgh" -> {"gjkr_dkg", "nts", "cg_rvss", "cg_zvss", "cg_dkg", "cg_dss"} \cup
                         (IF v.canon THEN {"pvss"} ELSE {"vrhe", "jl_rvss", "edcf"})
    [] v.fam = "pqg"  -> {"eotp"}
FamOfClass(c) ==
  CASE c = "dlog" -> "dlog" [] c = "qr" -> "qr" [] c \in {"com", "skc", "vsshe", "ptc"} -> "com"
    [] c = "eotp" -> "pqg" [] OTHER -> "pqgh"
NFields(v) == CASE v.fam = "dlog" -> 4 [] v.fam = "qr" -> 3 [] v.fam = "com" -> 4 + v.n [] v.fam = "pqgh" -> 4 [] v.fam = "pqg" -> 3

\* configuration a class really uses: PedersenVSS always asks for the verifiable generator, VRHE / JL-RVSS / EDCF never;
\* only the shuffle argument has a challenge length
EffV(c, w) ==
  [w EXCEPT !.canon = IF c = "pvss" THEN TRUE ELSE IF c \in {"vrhe", "jl_rvss", "edcf", "eotp", "pubrotzk", "com", "skc", "ptc", "vsshe"} THEN FALSE ELSE @,
            !.le = IF c = "vsshe" THEN @ ELSE 0]

---------------------------------------------------------------------------
(* the property's list of defects, literally; WFv must be its complement    *)
GensOf(v, t) ==
  CASE v.fam = "dlog" -> <<t[4]>> [] v.fam = "qr" -> <<t[3]>> [] v.fam = "com" -> <<t[4]>> \o GsOf(t)
    [] v.fam = "pqgh" -> <<t[3], t[4]>> [] v.fam = "pqg" -> <<t[3]>>
KOf(v, t) == IF v.fam \in {"dlog", "com"} THEN t[3] ELSE IF v.fam = "qr" THEN 2
             ELSE IF t[2] > 0 /\ (t[1] - 1) % t[2] = 0 THEN (t[1] - 1) \div t[2] ELSE -1
\* multiplicative order by search (0: none)
OrderDef(x, p) == IF \E e \in 1..(p - 1) : PowM(x, e, p) = 1
                  THEN CHOOSE e \in 1..(p - 1) : PowM(x, e, p) = 1 /\ \A f \in 1..(e - 1) : PowM(x, f, p) # 1
                  ELSE 0
Defect(v, t) ==
  LET p == t[1]  q == t[2]  k == KOf(v, t)  gens == GensOf(v, t) IN
  \/ ~IsPrimeDef(p) \/ ~IsPrimeDef(q)
  \/ Bits(p) < v.F \/ Bits(q) < (IF v.fam = "qr" THEN v.F - 1 ELSE v.G)
  \/ p # k * q + 1
  \/ (v.fam = "qr" /\ p % 8 # 7)
  \/ GcdDef(IF k < 0 THEN 0 ELSE k, q) # 1
  \/ \E i \in 1..Len(gens) : gens[i] = 0 \/ gens[i] = 1 \/ gens[i] = p - 1 \/ gens[i] < 0 \/ gens[i] >= p
                               \/ OrderDef(gens[i], p) # q
  \/ ~Distinct(gens)
  \/ (v.fam \in {"dlog", "pqgh"} /\ v.canon /\ ~IsCanon(p, q, gens[1]))
  \/ (v.fam = "qr" /\ (Bits(p) < v.E \/ gens[1] # CanonQR(p, v.E)))
  \/ (v.fam = "com" /\ v.le > 0 /\ Bits(q) < 2 * v.le)

\* what acceptance must mean mathematically
MathOK(v, t) ==
  LET p == t[1]  q == t[2]  gens == GensOf(v, t)  S == Sub(p, q) IN
  /\ IsPrimeDef(p) /\ IsPrimeDef(q) /\ (p - 1) % q = 0
  /\ Cardinality(S) = q
  /\ \A i \in 1..Len(gens) : gens[i] \in S /\ Powers(gens[i], q, p) = S
  /\ (v.fam = "qr" => S = {a \in 1..(p - 1) : IsQR(a, p)} /\ 2 \in S)
=============================================================================
