SPECIFICATION Spec
CONSTANTS
 MaxP = 90
 MaxQ = 45
 MaxK = 10
 Margin = 4
 Variants <- V_pqgh
 NaiveMaxP = 17
 Mode = "nbr"
 CheckArith = FALSE
INVARIANTS BlockIsDefinition Sound Complete Shape Elements Emit
CHECK_DEADLOCK FALSE
