SPECIFICATION Spec
CONSTANTS
 MaxP = 47
 MaxQ = 23
 MaxK = 7
 Margin = 4
 Variants <- V_com2v
 NaiveMaxP = 0
 Mode = "acc"
 CheckArith = FALSE
INVARIANTS BlockIsDefinition Sound Complete Shape Elements Emit
CHECK_DEADLOCK FALSE
