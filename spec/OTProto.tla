------------------------------- MODULE OTProto -------------------------------
(***************************************************************************)
(* One oblivious transfer as a state machine: one action per protocol move, *)
(* an explicit program counter, the network between the two moves as an     *)
(* action of its own (honest relay or any other first move).  Used by       *)
(* MC_OT.tla (exhaustive exploration) and OTTrace.tla (validation of logs   *)
(* recorded from NaorPinkasEOTP).                                           *)
(***************************************************************************)
EXTENDS OT

VARIABLE st   \* [par, pc, cc, q1, d1, sc, sres, a2, cres, out]
              \*  par   [G, var, N, sigma, M]
              \*  pc    "choose" -> "relay" -> "send" -> "finish" -> "done"
              \*  cc    the chooser's coins, q1 the first move it wrote, d1 the first move the sender got
              \*  sc    the sender's coins, sres "none" | "ok" | "abort", a2 the sender's answer <<w_i, e_i>>
              \*  cres  "none" | "ok" | "abort", out the chooser's output

Fresh(pr) == [par |-> pr, pc |-> "choose", cc |-> <<>>, q1 |-> <<>>, d1 |-> <<>>, sc |-> <<>>,
              sres |-> "none", a2 |-> <<>>, cres |-> "none", out |-> 0]

InZq(G, coins) == \A k \in 1..Len(coins) : coins[k] \in Zq(G)

ChooserMove(coins) ==
  /\ st.pc = "choose"
  /\ Len(coins) = NCC(st.par.var, st.par.N) /\ InZq(st.par.G, coins)
  /\ st' = [st EXCEPT !.pc = "relay", !.cc = coins, !.q1 = QueryOf(st.par, coins)]

Relay(msg) ==
  /\ st.pc = "relay"
  /\ st' = [st EXCEPT !.pc = "send", !.d1 = msg]

SenderGuards == Guards(st.par.G, st.par.var, st.par.N, st.d1)
SenderAnswer(coins) ==
  /\ st.pc = "send" /\ SenderGuards
  /\ Len(coins) = NSC(st.par.N) /\ InZq(st.par.G, coins)
  /\ st' = [st EXCEPT !.pc = "finish", !.sc = coins, !.sres = "ok", !.a2 = AnswerOf(st.par, st.d1, coins)]
SenderAbort ==
  /\ st.pc = "send" /\ ~SenderGuards
  /\ st' = [st EXCEPT !.pc = "finish", !.sres = "abort"]

\* the chooser opens the answer it received (rcv); nothing arrives when the sender refused
ChooserFinish(rcv) ==
  /\ st.pc = "finish"
  /\ LET G == st.par.G
         ok == st.sres = "ok" /\ ChooserAccepts(G, st.par.N, rcv)
     IN st' = [st EXCEPT !.pc = "done", !.cres = IF ok THEN "ok" ELSE "abort",
                         !.out = IF ok THEN Open(G, CB(st.cc), rcv[st.par.sigma + 1]) ELSE 0]

\* ------------------------------------------------------------- the property
\* (each invariant is evaluated in the state in which its subject has just been fixed)
Honest == st.d1 = st.q1
Answered == st.sres = "ok"
\* the chooser outputs the message of its index
Correct == (st.pc = "done" /\ Honest /\ Answered) => (st.cres = "ok" /\ st.out = st.par.M[st.par.sigma + 1])
\* between honest parties the transfer fails exactly when two query exponents coincide
HonestAbort == (st.pc = "finish" /\ Honest) => ((st.sres = "abort") <=> Collides(st.par, st.cc))
\* nothing is sent, nothing is output after a refusal
Refusal == (st.sres = "abort") => (st.a2 = <<>> /\ st.cres # "ok")
\* whoever made the query: an answered query opens at most one message
OneOnly == (st.pc = "finish" /\ Answered) => OpensAtMostOne(st.par.G, st.par.var, st.par.N, st.d1)
\* the curious chooser: with its own secrets a, b, c_j a non-chosen ciphertext opens to M_j only when s_j = 0
CuriousOpens(j) == Open(st.par.G, CB(st.cc), st.a2[j]) = st.par.M[j]
Others == (1..st.par.N) \ {st.par.sigma + 1}
Curious == (st.pc = "finish" /\ Answered /\ Honest) =>
             LET ev == EffVec(st.par, st.cc)
                 ab == (CA(st.cc) * CB(st.cc)) % st.par.G.q
                 s == SS(st.par.var, st.par.N, st.sc)
             IN \A j \in Others : /\ ev[j] # ab
                                  /\ CuriousOpens(j) <=> (s[j] = 0)
\* ... and never two of them unless both blinding exponents vanish (what a reused pair would break)
CuriousPairs == (st.pc = "finish" /\ Answered /\ Honest) =>
             LET open == {j \in Others : CuriousOpens(j)}
                 s == SS(st.par.var, st.par.N, st.sc)
             IN (Cardinality(open) >= 2) => \A j \in open : s[j] = 0
=============================================================================
