SPECIFICATION Spec
CONSTANTS
 Part = "thm"
 Base = 2
 WordLen = 1
 MaxW = 64
 MaxN = 7
 OntoN = 6
 PairN = 5
 NaiveN = 4
 MaxRotN = 64
 MaxResM = 17
 MaxResE = 3
 NumLen = 1
 ProcN = 0
INVARIANT Holds
PROPERTY ProcStutter
CHECK_DEADLOCK FALSE
