INIT InitRotC
NEXT NextRotC
INVARIANTS InvRotC
CONSTANTS
 P = 23
 Q = 11
 Gg = 2
 Hh = 3
 Ns = {2, 3}
 CoinSet = {0, 1}
 ChSet <- CS3
 Wide = FALSE
 PowM <- TabPowM
CHECK_DEADLOCK FALSE
