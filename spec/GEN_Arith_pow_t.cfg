SPECIFICATION Spec
CONSTANTS
 Fam = "pow"
 P <- PThorough
INVARIANTS Theorems Emit
CHECK_DEADLOCK FALSE
