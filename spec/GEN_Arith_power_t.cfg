SPECIFICATION Spec
CONSTANTS
 Fams = {"pow", "powT", "koch"}
 P <- PThorough
INVARIANTS Theorems Emit
CHECK_DEADLOCK FALSE
