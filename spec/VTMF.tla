------------------------------- MODULE VTMF -------------------------------
(***************************************************************************)
(* The discrete-log "verifiable k-out-of-k threshold masking function" of  *)
(* Barnett and Smart as a library user sees it (BarnettSmartVTMF_dlog and  *)
(* the VTMF-card operations of SchindelhauerTMCG), written from [BS03] and *)
(* [CaS97]: ElGamal over the order-q subgroup of Z_p^* under the common    *)
(* key h = prod h_j, Schnorr proof of knowledge for key shares, Chaum-      *)
(* Pedersen proofs for masking, re-masking and decryption shares, card     *)
(* types encoded as g^t.  Pure operators; VTMFTrace.tla and MC_VTMF.tla    *)
(* build state machines on top.                                            *)
(***************************************************************************)
EXTENDS Prims

\* ---- group G = <g> of prime order q in Z_p^*
Member(G, a) == a > 0 /\ a < G.p /\ PowM(a, G.q, G.p) = 1
Mul(G, a, b) == (a * b) % G.p
Exp(G, a, e) == PowZ(a, e, G.p)            \* integer exponent, sign allowed
Inv(G, a) == InvM(a, G.p)
Div(G, a, b) == Mul(G, a, Inv(G, b))

\* ---- keys
PubKey(G, x) == Exp(G, G.g, x)
CommonKey(G, keys) ==                      \* product of a sequence of public keys
  LET RECURSIVE F(_) F(k) == IF k = 0 THEN 1 ELSE Mul(G, keys[k], F(k - 1)) IN F(Len(keys))

\* ---- cards: (c1, c2) = (g^r, g^t * h^r)
TypeElem(G, t) == Exp(G, G.g, t)
OpenCard(G, t) == <<1, TypeElem(G, t)>>
MaskNew(G, h, t, r) == <<Exp(G, G.g, r), Mul(G, TypeElem(G, t), Exp(G, h, r))>>
Remask(G, h, c, r) == <<Mul(G, c[1], Exp(G, G.g, r)), Mul(G, c[2], Exp(G, h, r))>>
Share(G, c, x) == Exp(G, c[1], x)          \* decryption share c1^x
Plain(G, c, d) == Div(G, c[2], d)          \* c2 / d
\* type of a plaintext element: the least t < ntypes with g^t = m, else the sentinel ntypes
TypeOfElem(G, m, ntypes) ==
  IF \E t \in 0..(ntypes - 1) : TypeElem(G, t) = m
  THEN Min({t \in 0..(ntypes - 1) : TypeElem(G, t) = m}) ELSE ntypes
\* what the card really contains under the secret X = sum of the key shares behind h
TrueType(G, c, X, ntypes) == TypeOfElem(G, Plain(G, c, Exp(G, c[1], X)), ntypes)

\* ---- masking value sampler: first draw not in {0,1}
RECURSIVE FirstGood(_, _)
FirstGood(draws, k) == IF k > Len(draws) THEN 0 ELSE IF draws[k] \notin {0, 1} THEN k ELSE FirstGood(draws, k + 1)

\* ---- sigma protocols (responses as the honest prover computes them)
SchnorrResp(G, v, cq, x) == (v - cq * x) % G.q           \* r = v - c x mod q
\* verifier side values; c, r arbitrary integers (c reduced mod p-1 by the caller, sign in r)
SchnorrT(G, key, ce, re) == Mul(G, Exp(G, G.g, re), Exp(G, key, ce))
CPa(G, gg, x, ce, re) == Mul(G, Exp(G, gg, re), Exp(G, x, ce))
=============================================================================
