------------------------------ MODULE MC_VTMF ------------------------------
(* Spec-level theorems about VTMF.tla, checked exhaustively by TLC in a tiny *)
(* Schnorr group: every key vector, type, masking coin, challenge.          *)
(*  C01  a card of type T masked any number of times opens to T when all    *)
(*       shares are in; with a share missing it opens to T only if          *)
(*       c1^(missing) = 1                                                   *)
(*  C02  Mix is a permutation plus re-masking, Mix o Mix = Mix(Glue)        *)
(*  C03  honest Schnorr / Chaum-Pedersen transcripts satisfy the verifier's *)
(*       equations for every witness, coin and challenge                    *)
(*  C04  for a false Chaum-Pedersen statement at most one challenge residue *)
(*       can be answered per commitment (special soundness, counted)        *)
(*  C08  the common key is the product of the accepted contributions in any *)
(*       order; refusal leaves it unchanged; removal restores it            *)
EXTENDS VTMF, TLC

CONSTANTS P, Q, Gg,     \* the group
          K,            \* players
          W,            \* type bits
          L,            \* mask chain length
          Mode,         \* "card" | "keys" | "sigma" | "stack"
          HXS           \* exponents of the second base in the Chaum-Pedersen theorems
G == [p |-> P, q |-> Q, g |-> Gg]
NT == 2 ^ W
Zq == 0..(Q - 1)
Players == 1..K

VARIABLES xs,       \* key shares
          typ,      \* the type the card was created with
          card,     \* current card
          n,        \* masks applied
          view      \* keys mode: per player [h, acc] common key and accepted contributions (a sequence)
vars == <<xs, typ, card, n, view>>

H == CommonKey(G, [j \in Players |-> PubKey(G, xs[j])])
SumX(S) == LET RECURSIVE F(_) F(T) == IF T = {} THEN 0 ELSE LET j == CHOOSE j \in T : TRUE IN xs[j] + F(T \ {j}) IN F(S) % Q

\* ---------------- card mode (C01)
InitCard == /\ Mode = "card"
            /\ xs \in [Players -> Zq] /\ typ \in 0..(NT - 1)
            /\ card \in {OpenCard(G, typ)} \cup {MaskNew(G, H, typ, r) : r \in 2..(Q - 1)}
            /\ n = 0 /\ view = <<>>
MaskStep == /\ Mode = "card" /\ n < L
            /\ \E who \in Players, r \in 2..(Q - 1) : card' = Remask(G, H, card, r)
            /\ n' = n + 1 /\ UNCHANGED <<xs, typ, view>>
\* opening by any observer with any subset of contributions
Opened(S) == TypeOfElem(G, Plain(G, card, Exp(G, card[1], SumX(S))), NT)
C01_AllShares == Mode = "card" => Opened(Players) = typ
C01_Missing == Mode = "card" => \A S \in SUBSET Players :
                  (S # Players) => ((Opened(S) = typ) <=> (Exp(G, card[1], SumX(Players \ S)) = 1))
C01_Sentinel == Mode = "card" => \A S \in SUBSET Players : Opened(S) \in 0..NT
CardInGroup == Mode = "card" => Member(G, card[1]) /\ Member(G, card[2])

\* ---------------- keys mode (C08)
Kinds == {"honest", "badproof", "nonmember", "otherkey"}
InitKeys == /\ Mode = "keys"
            /\ xs \in [Players -> Zq] /\ typ = 0 /\ card = <<1, 1>> /\ n = 0
            /\ view = [i \in Players |-> [h |-> PubKey(G, xs[i]), acc |-> <<>>]]
\* player i processes a contribution of player j: only an honest proof for a group member is accepted
Update(i, j, kind) ==
  /\ Mode = "keys" /\ n < L /\ i # j
  /\ \A k \in 1..Len(view[i].acc) : view[i].acc[k] # j          \* at most once between removals
  /\ view' = IF kind = "honest"
             THEN [view EXCEPT ![i].h = Mul(G, @, PubKey(G, xs[j])), ![i].acc = Append(@, j)]
             ELSE view
  /\ n' = n + 1 /\ UNCHANGED <<xs, typ, card>>
Remove(i, j) ==
  /\ Mode = "keys" /\ n < L /\ i # j
  /\ view' = IF \E k \in 1..Len(view[i].acc) : view[i].acc[k] = j
             THEN [view EXCEPT ![i].h = Div(G, @, PubKey(G, xs[j])),
                               ![i].acc = SelectSeq(@, LAMBDA a : a # j)]
             ELSE view
  /\ n' = n + 1 /\ UNCHANGED <<xs, typ, card>>
AccSet(i) == {view[i].acc[k] : k \in 1..Len(view[i].acc)}
C08_Product == Mode = "keys" => \A i \in Players : view[i].h = Exp(G, Gg, SumX({i} \cup AccSet(i)))
C08_Common == Mode = "keys" => \A a, b \in Players :
                 (AccSet(a) \cup {a} = Players /\ AccSet(b) \cup {b} = Players) => (view[a].h = view[b].h /\ view[a].h = H)

\* ---------------- sigma mode (C03 / C04): all in the initial states, no steps
\* one seed state; the key vectors are successor states, so that TLC's workers evaluate the theorems in parallel
InitSigma == /\ Mode = "sigma" /\ xs = [j \in Players |-> 0] /\ typ = 0 /\ card = <<1, 1>> /\ n = 0 /\ view = <<>>
FanOut == /\ Mode \in {"sigma", "stack"} /\ n < K + 1
          /\ IF n < K
             THEN /\ \E v \in (IF Mode = "sigma" THEN Zq ELSE {1, 3}) : xs' = [xs EXCEPT ![n + 1] = v]
                  /\ typ' = typ
             ELSE /\ typ' \in (IF Mode = "stack" THEN 0..(NT - 1) ELSE {0}) /\ xs' = xs
          /\ n' = n + 1 /\ UNCHANGED <<card, view>>
Ready == n = K + 1
\* Schnorr: for every witness x, coin v, challenge c (as residue mod q): g^r * y^c = g^v
C03_Schnorr == (Mode = "sigma" /\ Ready) => \A v \in Zq, c \in Zq :
                 LET x == xs[1]  y == PubKey(G, x)  r == SchnorrResp(G, v, c, x)
                 IN SchnorrT(G, y, c, r) = Exp(G, Gg, v)
\* Chaum-Pedersen for (x, y) = (gg^a, hh^a): both verifier equations hold
C03_CP == (Mode = "sigma" /\ Ready) => \A v \in Zq, c \in Zq, hx \in HXS :
                 LET a == xs[1]  hh == Exp(G, Gg, hx)
                     x == Exp(G, Gg, a)  y == Exp(G, hh, a)  r == SchnorrResp(G, v, c, a)
                 IN CPa(G, Gg, x, c, r) = Exp(G, Gg, v) /\ CPa(G, hh, y, c, r) = Exp(G, hh, v)
\* a negative response r - q is the same residue and verifies as well (the equivalent representation of C05)
C05_NegEquiv == (Mode = "sigma" /\ Ready) => \A v \in Zq, c \in Zq :
                 LET x == xs[1]  y == PubKey(G, x)  r == SchnorrResp(G, v, c, x)
                 IN SchnorrT(G, y, c, r - Q) = Exp(G, Gg, v)
\* any other residue for r fails, any other residue for c fails (with r fixed)
C05_Binding == (Mode = "sigma" /\ Ready) => \A v \in Zq, c \in Zq :
                 LET x == xs[1]  y == PubKey(G, x)  r == SchnorrResp(G, v, c, x) IN
                 /\ \A r2 \in Zq : r2 # r => SchnorrT(G, y, c, r2) # Exp(G, Gg, v)
                 /\ (y # 1) => \A c2 \in Zq : c2 # c => SchnorrT(G, y, c2, r) # Exp(G, Gg, v)
\* special soundness, counted: statement (x, y) = (g^a, hh^b) with a # b; for fixed commitments (A, B) the number of
\* challenge residues c for which SOME response r satisfies both equations is at most 1
C04_CP == (Mode = "sigma" /\ Ready /\ K >= 2) => \A hx \in HXS, va \in Zq, vb \in Zq :
                 LET a == xs[1]  b == xs[2]  hh == Exp(G, Gg, hx)
                     x == Exp(G, Gg, a)  y == Exp(G, hh, b)
                     A == Exp(G, Gg, va)  B == Exp(G, hh, vb)
                     good == {c \in Zq : \E r \in Zq : CPa(G, Gg, x, c, r) = A /\ CPa(G, hh, y, c, r) = B}
                 IN (a # b) => Cardinality(good) <= 1

\* ---------------- stack mode (C02): n cards of arbitrary types under a key, all permutations and coins (sampled coins)
Perms(m) == {f \in [0..(m - 1) -> 0..(m - 1)] : \A a, b \in 0..(m - 1) : a # b => f[a] # f[b]}
InitStack == /\ Mode = "stack" /\ xs = [j \in Players |-> 1] /\ typ = 0 /\ card = <<1, 1>> /\ n = 0 /\ view = <<>>
StackN == L
Types(t) == [k \in 1..StackN |-> (t + k) % NT]          \* a stack with (possibly repeated) types
Stk(t) == [k \in 1..StackN |-> MaskNew(G, H, Types(t)[k], 2 + ((k + t) % (Q - 2)))]
MkSS(pi, rs) == [k \in 1..StackN |-> [pi |-> pi[k - 1], r |-> rs[k]]]
Mix(s, ss) == [k \in 1..Len(s) |-> Remask(G, H, s[ss[k].pi + 1], ss[ss[k].pi + 1].r)]
Glue(sigma, pi) ==
  LET m == Len(sigma)  inv(j) == CHOOSE k \in 1..m : sigma[k].pi = j
  IN [k \in 1..m |-> [pi |-> sigma[pi[k].pi + 1].pi, r |-> (sigma[k].r + pi[inv(k - 1)].r) % Q]]
TT(c) == TrueType(G, c, SumX(Players), NT)
RSet == {[k \in 1..StackN |-> 2 + ((k * a + b) % (Q - 2))] : a \in 1..2, b \in 0..2}
C02_Mix == (Mode = "stack" /\ Ready) => \A pi \in Perms(StackN), rs \in RSet :
              LET s == Stk(typ)  o == Mix(s, MkSS(pi, rs)) IN
              /\ Len(o) = Len(s)
              /\ \A k \in 1..StackN : TT(o[k]) = TT(s[pi[k - 1] + 1])
              /\ \A t \in 0..(NT - 1) : Cardinality({k \in 1..StackN : TT(o[k]) = t}) = Cardinality({k \in 1..StackN : TT(s[k]) = t})
C02_Glue == (Mode = "stack" /\ Ready) => \A p1 \in Perms(StackN), p2 \in Perms(StackN), r1 \in RSet, r2 \in RSet :
              LET s == Stk(typ)  a == MkSS(p1, r1)  b == MkSS(p2, r2) IN
              Mix(Mix(s, a), b) = Mix(s, Glue(a, b))

Init == InitCard \/ InitKeys \/ InitSigma \/ InitStack
Next == MaskStep \/ FanOut \/ (\E i, j \in Players, kind \in Kinds : Update(i, j, kind)) \/ (\E i, j \in Players : Remove(i, j))
Spec == Init /\ [][Next]_vars
=============================================================================
