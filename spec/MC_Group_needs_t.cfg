SPECIFICATION Spec
CONSTANTS
 MaxP = 90
 MaxQ = 45
 MaxK = 10
 Margin = 4
 Variants <- V_canon
 NaiveMaxP = 0
 NaiveVariants <- None
 NbrMaxP = 0
 NbrVariants <- None
 Mode = "needs"
 CheckArith = FALSE
 SortedBases = TRUE
INVARIANTS Emit
CHECK_DEADLOCK FALSE
