SPECIFICATION Spec
CONSTANTS
 Modes = {"sig","seipd","aead"}
 Depth <- Depths4
 NonceRule = "rfc"
 MaxChunks = 4
 Full = 2
INVARIANTS TamperEvident
CHECK_DEADLOCK FALSE
