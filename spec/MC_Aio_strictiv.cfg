\* NOT part of bin/check: the strict reading "with authentication the delivered values are always a prefix of the
\* sent values" (invariant AuthPrefixStrict, no allowance for the unauthenticated IV).  TLC finds the counterexample
\* in the model: flip one IV octet -> the first message of an encrypted stream-mode link is consumed and lost, the
\* second one is delivered.  The same behaviour is shown by the real classes (see notes/C13.md).
SPECIFICATION MCSpec
CONSTANTS
 CN = 2
 CAuth = TRUE
 CEnc = TRUE
 CChunked = FALSE
 CVariant = "select"
 CMACLEN = 2
 CBLK = 2
 CBUFSZ = 12
 Delim = 63
 NoVal <- NoValMC
 Rcv = 1
 Prog <- Prog1_2
 MaxFault = 1
 Kinds <- ByteKinds
 Scheds = {3}
 ArrSize = 0
 TagNL <- NoTagNL
 IvNL = {}
INVARIANTS AuthPrefixStrict
CHECK_DEADLOCK FALSE
