------------------------------- MODULE CoinN -------------------------------
(***************************************************************************)
(* The n-party distributed coin flip of Jarecki and Lysyanskaya [JL00]     *)
(* (JareckiLysyanskayaEDCF::Flip over JareckiLysyanskayaRVSS::Share and     *)
(* ::Reconstruct) over an abstract reliable broadcast and private links, in *)
(* synchronous rounds, written from the protocol description (Joint-RVSS =  *)
(* n parallel Pedersen-VSS of [GJKR07]):                                    *)
(*   1a  every party j picks polynomials f_j, f^_j of degree t, broadcasts  *)
(*       C_jk = g^c_jk h^c^_jk and sends (f_j(l), f^_j(l)) to every l;      *)
(*   1b  l complains (broadcast) against j when the share does not verify;  *)
(*   1c  j answers every complaint by broadcasting the share; j is          *)
(*       disqualified when more than t parties complained or an answer is   *)
(*       missing or does not verify; a complainer adopts a verifying answer *)
(*   2   every j in Qual broadcasts (a_j, a^_j) = (f_j(0), f^_j(0));        *)
(*   3   for j in Qual whose opening is missing or does not match C_j0 the  *)
(*       others broadcast their shares of j and interpolate f_j(0);         *)
(*   4   the coin is the sum over Qual of the a_j modulo q.                 *)
(* A world W = [n, t, G, poly, dev] fixes every party's polynomials and the *)
(* way it deviates; Round1 .. Round4 compute, round by round, what every    *)
(* party holds (each round is a table built from the tables before it, so   *)
(* that the state machines on top keep them as state).  Parties are 0..n-1, *)
(* party l evaluates at l+1; sequences are indexed by party+1.              *)
(* strict = FALSE is the protocol without the rule "a missing answer        *)
(* disqualifies" (negative control: agreement must then fail).              *)
(***************************************************************************)
EXTENDS Pedersen

Parties(W) == 0..(W.n - 1)
Pl(W, j) == W.poly[j + 1]          \* [c |-> <<c_0..c_t>>, h |-> <<c^_0..c^_t>>]
Dv(W, j) == W.dev[j + 1]           \* [byz, commit, sd, complain, answer, open, recon, checked]
None == [a |-> 0, h |-> 0, none |-> TRUE]
Sh(a, h) == [a |-> a, h |-> h, none |-> FALSE]
InRange(W, s) == s.a > -W.G.q /\ s.a < W.G.q /\ s.h > -W.G.q /\ s.h < W.G.q

RECURSIVE EvalFrom(_, _, _, _)
EvalFrom(cs, x, q, k) == IF k > Len(cs) THEN 0 ELSE (cs[k] * PowM(x % q, k - 1, q) + EvalFrom(cs, x, q, k + 1)) % q
Eval(cs, x, q) == EvalFrom(cs, x, q, 1)
TrueShare(W, j, l) == Sh(Eval(Pl(W, j).c, l + 1, W.G.q), Eval(Pl(W, j).h, l + 1, W.G.q))

\* ---- round 1: commitments C_jk and, implied by them, the commitment to the share of every party l:
\* prod_k C_jk^((l+1)^(k-1)); the shares as they arrive on the private links (sd: 0 the share, 1 share + 1, 2 nothing)
Round1(W) ==
  LET ck == [j \in Parties(W) |-> [k \in 1..(W.t + 1) |-> Commit(W.G, Pl(W, j).c[k], Pl(W, j).h[k])]]
      RECURSIVE Prod(_, _, _)
      Prod(j, l, k) == IF k > W.t + 1 THEN 1 ELSE (PowM(ck[j][k], (l + 1) ^ (k - 1), W.G.p) * Prod(j, l, k + 1)) % W.G.p
  IN [ck |-> ck,
      sc |-> [j \in Parties(W) |-> [l \in Parties(W) |-> Prod(j, l, 1)]],
      ts |-> [j \in Parties(W) |-> [l \in Parties(W) |-> TrueShare(W, j, l)]],
      sent |-> [j \in Parties(W) |-> [l \in Parties(W) |->
                  LET d == Dv(W, j).sd[l + 1]  s == TrueShare(W, j, l) IN IF d = 2 THEN None ELSE Sh(s.a + d, s.h)]]]
Valid(W, r1, j, l, s) == /\ ~s.none /\ Dv(W, j).commit /\ InRange(W, s)
                         /\ Commit(W.G, s.a, s.h) = r1.sc[j][l]

\* ---- round 2 (1b): complaints (a deviating party broadcasts the list it likes); answers (1c)
Round2(W, r1) ==
  LET cb == [l \in Parties(W) |-> IF Dv(W, l).byz THEN Dv(W, l).complain
                                  ELSE {j \in Parties(W) \ {l} : ~Valid(W, r1, j, l, r1.sent[j][l])}]
      ans(j, l) == LET s == r1.ts[j][l] IN
                   CASE Dv(W, j).answer = "true" -> s
                     [] Dv(W, j).answer = "wrong" -> Sh(s.a + 1, s.h)
                     [] OTHER -> None
  IN [cb |-> cb,
      cf |-> [j \in Parties(W) |-> {l \in Parties(W) \ {j} : j \in cb[l]}],        \* who complained against j
      ans |-> [j \in Parties(W) |-> [l \in Parties(W) |-> ans(j, l)]]]

\* ---- round 3: qualification, and the share of j that l holds afterwards
Round3(W, r1, r2, strict) ==
  LET disq(j) == \/ ~Dv(W, j).commit
                 \/ Cardinality(r2.cf[j]) > W.t
                 \/ \E l \in r2.cf[j] : IF r2.ans[j][l].none THEN strict ELSE ~Valid(W, r1, j, l, r2.ans[j][l])
      \* what a party keeps of a share that did not arrive or was out of range is the number 0 - an ordinary
      \* value that is checked like any other when it is used later (in a tiny group it may even verify)
      clip(s) == IF s.none THEN Sh(0, 0) ELSE IF s.a > -W.G.q /\ s.a < W.G.q THEN s ELSE Sh(0, s.h)
      held(l, j) == IF l \in r2.cf[j] /\ Valid(W, r1, j, l, r2.ans[j][l]) THEN r2.ans[j][l]
                    ELSE IF l = j THEN r1.ts[j][j] ELSE clip(r1.sent[j][l])
  IN [qual |-> {j \in Parties(W) : ~disq(j)},
      held |-> [l \in Parties(W) |-> [j \in Parties(W) |-> held(l, j)]]]

\* ---- round 4: openings; reconstruction of the committed share of j as party i sees it (its own share and
\* the first t verifying shares broadcast by the others); the outcome
RECURSIVE FirstK(_, _)
FirstK(S, k) == IF k = 0 \/ S = {} THEN {} ELSE LET m == Min(S) IN {m} \cup FirstK(S \ {m}, k - 1)
Lagrange0(pts, x, q) ==            \* prod_{y # x} (y+1) / ((y+1) - (x+1))  mod q
  LET RECURSIVE F(_) F(S) == IF S = {} THEN 1 ELSE LET y == Min(S) IN
                               ((((y + 1) * InvM((y - x) % q, q)) % q) * F(S \ {y})) % q
  IN F(pts \ {x})
Interpolate(q, pts, val) ==        \* val: function on pts
  LET RECURSIVE F(_) F(S) == IF S = {} THEN 0 ELSE LET x == Min(S) IN
                               ((val[x] % q) * Lagrange0(pts, x, q) + F(S \ {x})) % q
  IN F(pts)
SumOf(q, S, val) == LET RECURSIVE F(_) F(X) == IF X = {} THEN 0 ELSE LET x == Min(X) IN (val[x] + F(X \ {x})) % q IN F(S)

Round4(W, r1, r3) ==
  LET q == W.G.q
      opening == [j \in Parties(W) |->
                    CASE Dv(W, j).open = "true" -> Sh(Pl(W, j).c[1], Pl(W, j).h[1])
                      [] Dv(W, j).open = "wrong" -> Sh(Pl(W, j).c[1] + 1, Pl(W, j).h[1])
                      [] OTHER -> None]
      openok(j) == LET o == opening[j] IN ~o.none /\ InRange(W, o) /\ Commit(W.G, o.a, o.h) = r1.ck[j][1]
      failed == {j \in r3.qual : ~openok(j)}
      contrib == [j \in failed |-> {l \in r3.qual \ failed : Dv(W, l).recon /\ Valid(W, r1, j, l, r3.held[l][j])}]
      pts == [i \in Parties(W) |-> [j \in failed |-> {i} \cup FirstK(contrib[j] \ {i}, W.t)]]
      recon == [i \in Parties(W) |-> [j \in failed |->
                  Interpolate(q, pts[i][j], [x \in pts[i][j] |-> r3.held[x][j].a])]]
      share == [i \in Parties(W) |-> [j \in r3.qual |-> IF j \in failed THEN recon[i][j] ELSE opening[j].a % q]]
  IN [failed |-> failed, recon |-> recon,
      res |-> [i \in Parties(W) |-> /\ i \in r3.qual /\ Cardinality(r3.qual) > W.t /\ Cardinality(failed) <= W.t
                                   /\ \A j \in failed : Cardinality(pts[i][j]) = W.t + 1],
      coin |-> [i \in Parties(W) |-> SumOf(q, r3.qual, share[i])],
      committed |-> SumOf(q, r3.qual, [j \in r3.qual |-> Pl(W, j).c[1]])]

\* ---- the property (C17, n-party part), over the tables
Checked(W) == {i \in Parties(W) : Dv(W, i).checked}            \* parties running the protocol as written
Clean(W) == {i \in Checked(W) : ~Dv(W, i).byz /\ \A l \in Parties(W) : Dv(W, i).sd[l + 1] = 0}   \* ... over fault-free links
Tolerable(W) == Cardinality(Parties(W) \ Clean(W)) <= W.t /\ 2 * W.t < W.n
\* all honest participants output the same value ...
N_Agreement(W, r4) == \A i, l \in Checked(W) : (r4.res[i] /\ r4.res[l]) => r4.coin[i] = r4.coin[l]
\* ... the sum of the (committed) shares of the qualified participants
N_Sum(W, r4) == \A i \in Checked(W) : r4.res[i] => r4.coin[i] = r4.committed
\* an opening that does not match leads to reconstruction of the committed share
N_Recon(W, r4) == \A i \in Checked(W) : r4.res[i] => \A j \in r4.failed : r4.recon[i][j] = Pl(W, j).c[1]
\* with at most t deviating parties every honest party is qualified and gets a coin
N_Live(W, r3, r4) == Tolerable(W) => \A i \in Clean(W) : i \in r3.qual /\ r4.res[i]
\* Lagrange interpolation of any t+1 true shares yields the committed share
N_Interp(W, r1) == \A j \in Parties(W) : \A S \in SUBSET Parties(W) : Cardinality(S) = W.t + 1 =>
                      Interpolate(W.G.q, S, [x \in S |-> r1.ts[j][x].a]) = Pl(W, j).c[1]
=============================================================================
