SPECIFICATION Spec
CONSTANTS
 Fam = "ip"
 P <- PQuick
INVARIANTS Theorems Emit
CHECK_DEADLOCK FALSE
