--------------------------- MODULE MC_Aio_inst ---------------------------
(* concrete constants for the Aio configs (cfg files substitute them)      *)
EXTENDS MC_Aio

One(v) == [vs |-> <<v>>, arr |-> FALSE]
Arr(vs) == [vs |-> vs, arr |-> TRUE]
\* values with 1, 2 and 3 base-62 digits
P3 == <<One(7), One(100), One(5000)>>
P2 == <<One(100), One(7)>>
P2eq == <<One(7), One(7)>>
P3eq == <<One(7), One(7), One(100)>>
Silent == <<>>
Prog1_3 == [a \in Party |-> IF a = 0 THEN P3 ELSE Silent]
Prog1_3eq == [a \in Party |-> IF a = 0 THEN P3eq ELSE Silent]
Prog1_2 == [a \in Party |-> IF a = 0 THEN P2 ELSE Silent]
Prog2_2 == [a \in Party |-> IF a = 0 THEN P2 ELSE P2eq]
ProgArr == [a \in Party |-> IF a = 0 THEN <<Arr(<<7, 100>>), Arr(<<100, 7>>)>> ELSE Silent]
ProgArr2 == [a \in Party |-> <<Arr(<<7, 100>>)>>]
ProgMix == [a \in Party |-> IF a = 0 THEN <<Arr(<<7, 100, 7>>), Arr(<<100, 7>>)>> ELSE Silent]
NoValMC == -1
Prog3_1 == [a \in Party |-> <<One(7 + 93 * a)>>]
NoTagNL == <<>>
TagNLa == <<{0}, {1}, {}>>       \* first tag starts with an NL lookalike, second ends with one
TagNLb == <<{1}, {}, {0}>>
AllKinds == {"flip", "ins", "del", "delmsg", "replay", "swap", "forge"}
ByteKinds == {"flip", "ins", "del"}
MsgKinds == {"delmsg", "replay", "swap", "forge"}
=============================================================================
