--------------------------- MODULE MC_Aio_inst ---------------------------
(* concrete constants for the Aio configs (cfg files substitute them)      *)
EXTENDS MC_Aio

One(v) == [vs |-> <<v>>, arr |-> FALSE]
Arr(vs) == [vs |-> vs, arr |-> TRUE]
\* values with 1, 2 and 3 base-62 digits
P3 == <<One(7), One(100), One(5000)>>
P2 == <<One(100), One(7)>>
P2eq == <<One(7), One(7)>>
P3eq == <<One(7), One(7), One(100)>>
Silent == <<>>
Prog1_3 == <<P3>>
Prog1_3eq == <<P3eq>>
Prog1_2 == <<P2>>
Prog2_2 == <<P2, P2eq>>
Prog2_21 == <<P2, <<One(7)>>>>
ProgArr == <<<<Arr(<<7, 100>>), Arr(<<100, 7>>)>>>>
ProgArr2 == <<<<Arr(<<7, 100>>)>>, <<Arr(<<7, 100>>)>>>>
ProgMix == <<<<Arr(<<7, 100, 7>>), Arr(<<100, 7>>)>>>>
NoValMC == -1
Prog3_1 == <<<<One(7)>>, <<One(100)>>, <<One(193)>>>>
NoTagNL == <<>>
TagNLa == <<{0}, {1}, {}>>       \* first tag starts with an NL lookalike, second ends with one
TagNLb == <<{1}, {}, {0}>>
AllKinds == {"flip", "ins", "del", "delmsg", "replay", "swap", "forge"}
ByteKinds == {"flip", "ins", "del"}
MsgKinds == {"delmsg", "replay", "swap", "forge"}
=============================================================================
