SPECIFICATION Spec
CONSTANTS
 Fams = {"pow", "powT", "koch"}
 P <- PQuick
INVARIANTS Theorems Emit
CHECK_DEADLOCK FALSE
