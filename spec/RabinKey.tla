------------------------------ MODULE RabinKey ------------------------------
(***************************************************************************)
(* Property C10: Rabin keys of libTMCG (TMCG_SecretKey / TMCG_PublicKey) -  *)
(* PRab signatures [BR96], SAEP encryption [Bo01], the three-stage          *)
(* non-interactive validity proof [GMR98, Sc98], key ids taken from the     *)
(* self-signature.  Written from those definitions and from the property    *)
(* text; nothing is transcribed from the C++.                               *)
(*                                                                          *)
(* Real paddings need moduli of at least 425 bits, far beyond TLC integers, *)
(* so the module has two levels:                                            *)
(*                                                                          *)
(*  1. ALGEBRA - the number theory every verdict rests on, stated for Blum  *)
(*     integers m = p q and checked by TLC for all small ones (MC_RabinKey, *)
(*     AlgSpec): four roots in two negation pairs, -a is no square, the     *)
(*     answer of every proof stage is unique up to the stage's equivalence  *)
(*     (same residue / same square), soundness fractions for bad moduli.    *)
(*                                                                          *)
(*  2. VERDICTS - hash functions are random oracles: a value is a PRab      *)
(*     encoding of data d (a SAEP encoding of plaintext v) iff the oracle   *)
(*     table says so, i.e. iff an honest Sign (Encrypt) produced that       *)
(*     square.  VerifyOK / DecryptOK / CheckOK decide from *projections* of *)
(*     the presented text: field structure, key id text, and for every      *)
(*     number its identity modulo m and the identity of its square.  The    *)
(*     same operators are evaluated on symbolic projections (terms Root(x,  *)
(*     rho, s), m - v, v + m, ... - part 3, used by MC_RabinKey to enumerate*)
(*     all (operation, field, mutation, root) cases with expected verdicts) *)
(*     and on projections logged by harness/drv_key.cc from real keys       *)
(*     (RabinKeyTrace).                                                     *)
(***************************************************************************)
EXTENDS Prims, TLC

--------------------------------------------------------------------------
(* 1. ALGEBRA of Blum integers (numbers below 2^31)                        *)

Leg(a, p) == LET e == PowM(a % p, (p - 1) \div 2, p) IN IF e = p - 1 THEN -1 ELSE e   \* Euler's criterion
Jac(a, p, q) == Leg(a, p) * Leg(a, q)
UnitsOf(m) == {x \in 1..(m - 1) : GCD(x, m) = 1}
SqM(x, m) == (x * x) % m
RootsOf(a, m) == {r \in 0..(m - 1) : SqM(r, m) = a % m}
QRsOf(m) == {SqM(x, m) : x \in UnitsOf(m)}                 \* the squares among the units
\* the moduli of TMCG keys: p, q = 3 (mod 4), p # q (mod 8)  [Sc98]
BlumPair(p, q) == IsPrime(p) /\ IsPrime(q) /\ p # q /\ p % 4 = 3 /\ q % 4 = 3 /\ p % 8 # q % 8
Phi(p, q) == (p - 1) * (q - 1)
\* the public non-residue: Jacobi symbol +1 and no square; generation takes the smallest one above 1
IsNQR1(y, p, q) == Jac(y, p, q) = 1 /\ Leg(y, p) = -1
SmallestY(p, q) == CHOOSE y \in 2..(p * q) : IsNQR1(y, p, q) /\ \A z \in 2..(y - 1) : ~IsNQR1(z, p, q)

\* a unit is a square iff it is one modulo both primes
ThLegendre(p, q) == LET m == p * q  Q == QRsOf(m) IN
  \A a \in UnitsOf(m) : (a \in Q) <=> (Leg(a, p) = 1 /\ Leg(a, q) = 1)
\* every square has exactly four roots: r, m - r, r', m - r' ("the negated root" is the only other representation
\* that shares r's residues up to sign; r' differs from both)
ThFourRoots(p, q) == LET m == p * q IN
  \A a \in QRsOf(m) : LET R == RootsOf(a, m) IN
     /\ Cardinality(R) = 4
     /\ \A r \in R : (m - r) \in R /\ m - r # r
     /\ \E r, rr \in R : rr # r /\ rr # m - r
\* the negative of a square is never a square (why -c is no ciphertext and the negated answer fails in stage 1)
ThNegNoSquare(p, q) == LET m == p * q  Q == QRsOf(m) IN \A a \in Q : (m - a) \notin Q
\* -1 has Jacobi symbol +1 and is no square; hence m - y is a square whenever y is an admissible non-residue
ThMinusOne(p, q) == LET m == p * q  Q == QRsOf(m) IN IsNQR1(m - 1, p, q) /\ \A y \in UnitsOf(m) : IsNQR1(y, p, q) => (m - y) \in Q
\* stage 1 [GMR98, square-free]: x -> x^m permutes the units iff gcd(m, phi(m)) = 1 - one answer per challenge
\* (the same residue), and the negated answer answers the negated challenge
ThStage1(p, q) == LET m == p * q  U == UnitsOf(m) IN
  GCD(m, Phi(p, q)) = 1 =>
     /\ {PowM(x, m, m) : x \in U} = U
     /\ \A x \in U : PowM(m - x, m, m) = m - PowM(x, m, m)
\* stage 2 [GMR98, prime power product]: exactly one of x, -x, 2x, -2x is a square; the answers are its four roots
ThStage2(p, q) == LET m == p * q  Q == QRsOf(m) IN
  \A x \in UnitsOf(m) : Cardinality({t \in {x, m - x, (2 * x) % m, (m - ((2 * x) % m)) % m} : t \in Q}) = 1
\* stage 3 [Sc98, Goldwasser-Micali]: for y in NQR with Jacobi symbol 1 exactly one of x, x y is a square for every
\* x with Jacobi symbol 1; if y were a square, no x in NQR with Jacobi symbol 1 could be answered
ThStage3(p, q) == LET m == p * q  Q == QRsOf(m)  y == SmallestY(p, q)
                      J == {x \in UnitsOf(m) : Jac(x, p, q) = 1} IN
  /\ \A x \in J : (x \in Q) # (((x * y) % m) \in Q)
  /\ \A yy \in Q : \A x \in J \ Q : ((x * yy) % m) \notin Q
AlgTheorems(p, q) == /\ ThLegendre(p, q) /\ ThFourRoots(p, q) /\ ThNegNoSquare(p, q) /\ ThMinusOne(p, q)
                     /\ ThStage1(p, q) /\ ThStage2(p, q) /\ ThStage3(p, q)
\* soundness: for a modulus that is not square-free at most half of the challenges of stage 1 have an answer,
\* for an odd modulus with three different prime factors at most half of those of stage 2
ThUnsoundSquare(m) == LET U == UnitsOf(m) IN 2 * Cardinality({PowM(x, m, m) : x \in U}) <= Cardinality(U)
ThUnsoundThree(m) == LET U == UnitsOf(m)  Q == QRsOf(m) IN
  2 * Cardinality({x \in U : \E t \in {x, m - x, (2 * x) % m, (m - ((2 * x) % m)) % m} : t \in Q}) <= Cardinality(U)

--------------------------------------------------------------------------
(* 2. VERDICTS on projections                                              *)

MD == 32              \* bytes of the hash h (SHA-256)
K0 == 20              \* PRab: bytes of the random salt
S0 == 20              \* SAEP: bytes of the message = bytes of the zero redundancy
IdLen == 8            \* default length of a key id
Rounds == <<16, 128, 128>>   \* required rounds of the three proof stages

\* PRab: the encoding w || r* || gamma has n bytes, n the largest number with 2^(8n) below the modulus,
\* and must hold the digest, the masked salt and at least one byte of gamma
PRabFits(bits) == LET n == bits \div 8 IN bits > 8 * n /\ n > MD + K0
\* SAEP [Bo01]: message and redundancy together are shorter than half of the modulus (in 16-bit units as the byte
\* count of half the length), the rest is randomness and longer than them, the message shorter than a quarter
SAEPFits(bits) == LET n == bits \div 8 IN 2 * S0 < bits \div 16 /\ 2 * S0 < n - 2 * S0 /\ S0 < bits \div 32

\* ---- texts are sequences of character codes
RECURSIVE Dec(_)
Dec(n) == IF n < 10 THEN <<48 + n>> ELSE Dec(n \div 10) \o <<48 + (n % 10)>>
Suffix(s, n) == IF n >= Len(s) THEN s ELSE SubSeq(s, Len(s) - n + 1, Len(s))
\* the key id of length n: ID<n>^<the last n characters of the value of the key's self-signature>
IdText(sid, n) == <<73, 68>> \o Dec(n) \o <<94>> \o Suffix(sid, n)
\* a signature / ciphertext names its key by an id of any length (keyid(size) is public API; the default is 8).
\* MinIdLen = 0 is what the library accepts (the id "ID0^" names every key) - see notes/C10.md
MinIdLen == 0
KidOK(sid, kid) == \E n \in MinIdLen..Len(sid) : Len(kid) = 3 + Len(Dec(n)) + n /\ kid = IdText(sid, n)

\* ---- a presented signature / ciphertext  W = [nf, magic, kid, val]
\*   nf    number of delimiter-terminated fields of "magic|kid|value|"
\*   val = [num, rs, sq]: is the field a number; identity of the number modulo m; identity of its square modulo m
\* a key as its holder sees it  K = [mid, bits, sid, sidok]
WireOK(W, magic) == W.nf >= 3 /\ W.magic = magic /\ W.val.num
\* pad: the oracle table of PRab, triples <<modulus, square, data>>: "square is an encoding of data"
VerifyOK(pad, K, did, W) ==
  /\ WireOK(W, "sig")
  /\ K.sidok /\ KidOK(K.sid, W.kid)
  /\ PRabFits(K.bits)
  /\ <<K.mid, W.val.sq, did>> \in pad
\* enc: the oracle table of SAEP, triples <<modulus, ciphertext residue, plaintext>>
DecryptOK(enc, K, W) ==
  /\ WireOK(W, "enc")
  /\ K.sidok /\ KidOK(K.sid, W.kid)
  /\ SAEPFits(K.bits)
  /\ \E e \in enc : e[1] = K.mid /\ e[2] = W.val.rs
DecryptVal(enc, K, W) == (CHOOSE e \in enc : e[1] = K.mid /\ e[2] = W.val.rs)[3]

\* ---- the validity proof: tokens of "nzk^c1^a..^c2^a..^c3^a..^", each token
\*   [n, i, st, c]: n its value when it is a decimal numeral (else -1); i, st, c: the token relates to the answer that
\*   an honest prover of the statement (m, y) gives to the i-th challenge with the relation of stage st:
\*   c = "eq" same residue, "sq" same square only, "no" unrelated to every such answer.
\*   By the algebra (ThStage1-3) the honest answer is the only residue (stage 1) / the only square (stages 2, 3)
\*   that passes.  The challenges form one chain over all stages, so the i-th answer of the text must be an answer
\*   to the i-th challenge, whatever the counts are.
AnswerOK(tok, s, g) == tok.i = g /\ tok.st = s /\ (tok.c = "eq" \/ (s >= 2 /\ tok.c = "sq"))
RECURSIVE StagesOK(_, _, _, _)
StagesOK(t, pos, s, g) ==
  IF s > 3 THEN TRUE
  ELSE /\ pos <= Len(t) /\ t[pos].n >= Rounds[s]                   \* fewer rounds than required are refused
       /\ LET c == t[pos].n IN
          /\ pos + c <= Len(t)
          /\ \A j \in 1..c : AnswerOK(t[pos + j], s, g + j - 1)
          /\ StagesOK(t, pos + c + 1, s + 1, g + c)
ProofOK(nzmagic, toks) == nzmagic = "nzk" /\ StagesOK(toks, 1, 1, 1)

\* ---- a presented public key  P = [nf, magic, mnum, ynum, jac, odd, prime, tnizk, mid, bits, did, nzmagic, nz, sig, sid, sidok]
\*   did: identity of the signed data  name|email|type|m|y|nizk|  built from the numbers m, y (not their spelling)
CheckOK(pad, P) ==
  /\ P.nf >= 7 /\ P.magic = "pub" /\ P.mnum /\ P.ynum           \* the text is a key
  /\ P.jac = 1 /\ P.odd /\ ~P.prime
  /\ VerifyOK(pad, [mid |-> P.mid, bits |-> P.bits, sid |-> P.sid, sidok |-> P.sidok], P.did, P.sig)
  /\ (P.tnizk => ProofOK(P.nzmagic, P.nz))

--------------------------------------------------------------------------
(* 3. SYMBOLIC numbers: terms, their residues and squares                  *)
(*   keys are names; the modulus of key k is the term Mk(k)                *)

Mk(k) == [t |-> "M", k |-> k]
Yk(k) == [t |-> "Y", k |-> k]
PadT(k, d, salt) == [t |-> "pad", k |-> k, d |-> d, salt |-> salt]     \* squares: PRab encoding of d
EncT(k, v, r) == [t |-> "enc", k |-> k, d |-> v, salt |-> r]           \* square of the SAEP block of v
ChT(k, g, st, ver) == [t |-> "ch", k |-> k, d |-> g, salt |-> ver, st |-> st]   \* the square answered in round g (stage st = 2, 3)
Root(x, rho, s) == [t |-> "root", x |-> x, rho |-> rho, s |-> s]       \* one of the four roots: rho in {0,1}, s in {1,-1}
SqV(x) == [t |-> "sqv", x |-> x]                                      \* the square itself as a number
Inv1(k, g, ver) == [t |-> "inv", k |-> k, g |-> g, ver |-> ver]        \* stage 1: the m-th root of challenge g (proof ver)

NumMuts == {"none", "lead0", "space", "plusm", "minusm", "comp", "neg", "otherroot", "zero", "one", "mm1", "m",
            "plus1", "otherres", "double", "oversized", "half", "pub", "foreign", "empty", "nonnum"}
\* k: the key whose modulus the tamperer uses
MutNum(v, mu, k) ==
  CASE mu = "none" -> v
    [] mu \in {"lead0", "space"} -> [t |-> "fmt", f |-> mu, v |-> v]
    [] mu = "plusm" -> [t |-> "shift", k |-> k, w |-> 1, v |-> v]
    [] mu = "minusm" -> [t |-> "shift", k |-> k, w |-> -1, v |-> v]
    [] mu = "comp" -> [t |-> "comp", k |-> k, v |-> v]
    [] mu = "neg" -> [t |-> "neg", v |-> v]
    [] mu = "otherroot" -> [v EXCEPT !.rho = 1 - v.rho]
    [] mu = "zero" -> [t |-> "cst", n |-> 0]
    [] mu = "one" -> [t |-> "cst", n |-> 1]
    [] mu = "mm1" -> [t |-> "mod", k |-> k, d |-> -1]
    [] mu = "m" -> [t |-> "mod", k |-> k, d |-> 0]
    [] mu \in {"empty", "nonnum"} -> [t |-> "bad", g |-> mu]
    [] OTHER -> [t |-> "gen", g |-> mu, v |-> v]
MutNumApplies(v, mu) == mu = "otherroot" => v.t = "root"
IsNum(v) == v.t # "bad"
\* the integer behind a spelling
RECURSIVE IntId(_)
IntId(v) == IF v.t = "fmt" THEN IntId(v.v) ELSE v

Generic(v) == [c |-> "gen", of |-> v]
NegRes(r) == CASE r.c \in {"root", "sq", "inv"} -> [r EXCEPT !.s = -r.s]
               [] r.c = "cst" -> [r EXCEPT !.n = -r.n]
               [] OTHER -> Generic([t |-> "negof", v |-> r.of])
\* identity of the number v modulo the modulus M (a term)
RECURSIVE Res(_, _)
Res(M, v) ==
  CASE v.t = "root" -> IF Mk(v.x.k) = M THEN [c |-> "root", x |-> v.x, rho |-> v.rho, s |-> v.s] ELSE Generic(v)
    [] v.t = "sqv" -> IF Mk(v.x.k) = M THEN [c |-> "sq", x |-> v.x, s |-> 1] ELSE Generic(v)
    [] v.t = "inv" -> IF Mk(v.k) = M THEN [c |-> "inv", k |-> v.k, g |-> v.g, ver |-> v.ver, s |-> 1] ELSE Generic(v)
    [] v.t = "fmt" -> Res(M, v.v)
    [] v.t = "shift" -> IF Mk(v.k) = M THEN Res(M, v.v) ELSE Generic(v)
    [] v.t = "comp" -> IF Mk(v.k) = M THEN NegRes(Res(M, v.v)) ELSE Generic(v)
    [] v.t = "neg" -> NegRes(Res(M, v.v))
    [] v.t = "cst" -> [c |-> "cst", n |-> v.n]
    [] v.t = "mod" -> IF Mk(v.k) = M THEN [c |-> "cst", n |-> v.d] ELSE Generic(v)
    [] v.t = "bad" -> Generic(v)
    [] OTHER -> Generic(v)
\* identity of the square of a residue
SqRes(r) == CASE r.c = "root" -> [c |-> "sq", x |-> r.x, s |-> 1]
              [] r.c = "cst" -> [c |-> "cst", n |-> r.n * r.n]
              [] r.c = "gen" -> Generic([t |-> "sqof", v |-> r.of])
              [] OTHER -> Generic([t |-> "sqof", v |-> r])
ValProj(M, v) == [num |-> IsNum(v), rs |-> Res(M, v), sq |-> SqRes(Res(M, v))]
PadId(k, d, salt) == [c |-> "sq", x |-> PadT(k, d, salt), s |-> 1]
EncId(k, v, r) == [c |-> "sq", x |-> EncT(k, v, r), s |-> 1]

\* "an equivalent representation": the same number, or for a root its negative (same square)
SameResidue(M, a, b) == Res(M, a).c # "gen" /\ Res(M, a) = Res(M, b)
SameSquare(M, a, b) == SqRes(Res(M, a)).c # "gen" /\ SqRes(Res(M, a)) = SqRes(Res(M, b))
=============================================================================
