SPECIFICATION Spec
CONSTANTS
 Tier = "thorough"
 Seed = 1
INVARIANTS Theorems Emit
CHECK_DEADLOCK FALSE
