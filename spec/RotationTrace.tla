--------------------------- MODULE RotationTrace ---------------------------
(***************************************************************************)
(* Direction B for the rotation argument (C03/C04/C05): validation of      *)
(* executions recorded from the real classes                                *)
(* HooghSchoenmakersSkoricVillegasPUBROTZK / ...VRHE (harness/             *)
(* drv_rotation.cc) in groups with p <= 46337.  Per execution               *)
(*   Reset   group, form (rot | pub), challenge source (i | pc | ni),       *)
(*           statement as the prover and as the verifier see it, witness    *)
(*   Prove   the prover's draws, the lines it received, the lines it wrote, *)
(*           its oracle calls                                               *)
(*   Verify  the verifier's draws, the lines delivered to it (one of them   *)
(*           possibly replaced in transit), the lines it wrote, its oracle  *)
(*           calls, its verdict                                             *)
(*   End                                                                    *)
(* Every line either party wrote is recomputed from its logged draws and    *)
(* the lines it had received with the runs of Rotation.tla (PRunRot, VRunRot...);*)
(* the oracle must have been asked exactly the prescribed tuples in the     *)
(* prescribed order (its logged answers are the challenges); the verdict    *)
(* must be the one of the specification's verifier on the delivered lines.  *)
(* On top the properties, as invariants over flags set by Verify:           *)
(*   Complete  true statement, fitting witness, nothing changed -> accept   *)
(*   ExactSet  nothing changed in transit: accepted exactly when the defect *)
(*             of the claimed witness vanishes under the challenges         *)
(*             (DefectVanishes / lam_r = 0 or PubDefectVanishes)            *)
(*   BoundPub  an accepted statement of the verifier differs from the       *)
(*             prover's at most in components that are group elements or    *)
(*             meet an exponent that is 0 mod q (a root hit of measure 1/q, *)
(*             see MC_Rotation); accepting a changed component outside the  *)
(*             group under an exponent # 0 is a violation (interactive      *)
(*             forms; with the oracle the verdict is the computed one)      *)
(***************************************************************************)
EXTENDS Rotation, Json, IOUtils, TLCExt

TraceFile == IF "TRACE" \in DOMAIN IOEnv THEN IOEnv.TRACE ELSE "trace.ndjson"
TraceLog == ndJsonDeserialize(TraceFile)

VARIABLES l, ex
tvars == <<l, ex>>
Ev == TraceLog[l]
IsEv(name) == l <= Len(TraceLog) /\ Ev.e = name
Flags0 == [okC |-> TRUE, okS |-> TRUE, okB |-> TRUE, pLines |-> TRUE, pOracle |-> TRUE, pCoins |-> TRUE,
           vVerdict |-> TRUE, vLines |-> TRUE, vCoins |-> TRUE, vOracle |-> TRUE, transport |-> TRUE]
TInit == l = 1 /\ ex = [pc |-> "idle"] @@ Flags0

GrpOf(e) == [p |-> e.grp[1], q |-> e.grp[2], g |-> e.grp[3], h |-> e.grp[4]]
NonNeg(L) == \A k \in 1..Len(L) : L[k] >= 0
NonNeg2(A) == \A k \in 1..Len(A) : Len(A[k]) = 2 /\ A[k][1] >= 0 /\ A[k][2] >= 0
Tuples(h) == [k \in 1..Len(h) |-> h[k].in]
IsPrefix(a, b) == Len(a) <= Len(b) /\ SubSeq(b, 1, Len(a)) = a
FalseKind(k) == k \notin {"honest", "line", "vline", "pubin"}

TReset ==
  /\ IsEv("Reset") /\ ex.pc \in {"idle", "closed"}
  /\ LET G == GrpOf(Ev)  n == Ev.n IN
     /\ G.p <= 46337 /\ IsGroup(G)
     /\ n >= 2 /\ Ev.r \in 0..(n - 1) /\ Len(Ev.s) = n /\ \A k \in 1..n : Ev.s[k] \in Zq(G)
     /\ Ev.form \in {"rot", "pub"} /\ Ev.mode \in Modes
     /\ IF Ev.form = "rot"
        THEN /\ Len(Ev.X) = n /\ Len(Ev.Y) = n /\ Len(Ev.VX) = n /\ Len(Ev.VY) = n
             /\ NonNeg2(Ev.X) /\ NonNeg2(Ev.Y) /\ NonNeg2(Ev.VX) /\ NonNeg2(Ev.VY)
             \* what the harness claims about its own statement
             /\ (~FalseKind(Ev.kind)) => RotRel(G, Ev.X, Ev.Y, Ev.r, Ev.s)
             /\ FalseKind(Ev.kind) => ~RotRel(G, Ev.X, Ev.Y, Ev.r, Ev.s)
             /\ (Ev.kind # "pubin") => (Ev.VX = Ev.X /\ Ev.VY = Ev.Y)
        ELSE /\ Len(Ev.al) = n /\ Len(Ev.c) = n /\ Len(Ev.Val) = n /\ Len(Ev.Vc) = n
             /\ NonNeg(Ev.al) /\ NonNeg(Ev.c) /\ NonNeg(Ev.Val) /\ NonNeg(Ev.Vc)
             /\ (~FalseKind(Ev.kind)) => PubRel(G, Ev.al, Ev.c, Ev.r, Ev.s)
             /\ FalseKind(Ev.kind) => ~PubRel(G, Ev.al, Ev.c, Ev.r, Ev.s)
             /\ (Ev.kind # "pubin") => (Ev.Val = Ev.al /\ Ev.Vc = Ev.c)
     /\ ex' = [pc |-> "prove", G |-> G, R |-> Ev] @@ Flags0
  /\ l' = l + 1

\* the prover: every line it wrote is the specification's, computed from its draws, the lines it had received
\* and the oracle's answers; once its input has run out (the verifier has refused) its lines are not judged
TProve ==
  /\ IsEv("Prove") /\ ex.pc = "prove"
  /\ Ev.nx = 0 /\ NonNeg(Ev.out) /\ NonNeg(Ev.in) /\ NonNeg(Ev.coins)
  /\ LET R == ex.R  G == ex.G
         pr == IF R.form = "rot" THEN PRunRot(R.mode, G, R.X, R.Y, R.r, R.s, Ev.in, Ev.coins, Ev.h)
               ELSE PRunPub(R.mode, G, R.al, R.c, R.r, R.s, Ev.in, Ev.coins, Ev.h)
     IN ex' = [ex EXCEPT !.pc = "verify",
                         !.pLines = IsPrefix(pr.sent, Ev.out) /\ (pr.ok => Len(Ev.out) = Len(pr.sent) /\ Ev.exc = 0) /\ ((R.mode = "ni") => pr.ok),
                         !.pOracle = IsPrefix(pr.asked, Tuples(Ev.h)) /\ (pr.ok => Len(Ev.h) = Len(pr.asked)),
                         \* as many draws as the protocol has coins
                         !.pCoins = pr.ok => (Len(Ev.coins) = pr.ci - 1 /\ Ev.nw = (IF R.mode = "pc" THEN Len(pr.chal) ELSE 0))]
                @@ [P |-> Ev]
  /\ l' = l + 1

\* same tuple, same answer: the oracle is a function
OracleFn(h1, h2) == \A i \in 1..Len(h1), j \in 1..Len(h2) : (h1[i].in = h2[j].in) => (h1[i].out = h2[j].out)
SameModP(G, A, B) == \A k \in 1..Len(A) : (A[k][1] % G.p = B[k][1] % G.p) /\ (A[k][2] % G.p = B[k][2] % G.p)
\* a changed component (mod p) of an accepted statement is a group element, or the exponent e[k] it meets is 0 mod q
ChangedBound(G, A, B, e) == \A k \in 1..Len(A) : \A i \in 1..2 :
   (A[k][i] % G.p # B[k][i] % G.p) => (Member(G, A[k][i] % G.p) \/ (k <= Len(e) /\ e[k] % G.q = 0))

TVerify ==
  /\ IsEv("Verify") /\ ex.pc = "verify"
  /\ Ev.exc = 0 /\ Ev.nx = 0 /\ NonNeg(Ev.out) /\ NonNeg(Ev.in) /\ NonNeg(Ev.coins)
  /\ LET R == ex.R  G == ex.G  P == ex.P  n == R.n
         vr == IF R.form = "rot" THEN VRunRot(R.mode, G, R.VX, R.VY, Ev.in, Ev.coins, Ev.h)
               ELSE VRunPub(R.mode, G, R.Val, R.Vc, Ev.in, Ev.coins, Ev.h)
         \* transport: what was delivered is what was sent, but for the one announced replacement
         p2v == IF R.kind = "line" /\ Ev.applied THEN MutLine(G, P.out, R.target + 1, R.mut) ELSE P.out
         v2p == IF R.kind = "vline" /\ P.vapplied THEN MutLine(G, Ev.out, R.target + 1, R.mut) ELSE Ev.out
         unchanged == Ev.in = P.out /\ P.in = Ev.out /\ R.kind # "pubin"
         al == SubSeq(vr.chal, 1, n)
         exact == IF R.form = "rot" THEN DefectVanishes(G, R.X, R.Y, R.r, R.s, al)
                  ELSE (Len(vr.lamv) = n /\ vr.lamv[R.r + 1] = 0) \/ PubDefectVanishes(G, R.al, R.c, R.r, R.s, al)
         viewok == IF R.form = "rot" THEN ChangedBound(G, R.VX, R.X, al) /\ ChangedBound(G, R.VY, R.Y, vr.tauv)
                   ELSE (\A k \in 1..n : (R.Vc[k] % G.p # R.c[k] % G.p) => (Member(G, R.Vc[k] % G.p) \/ al[k] % G.q = 0))
     IN ex' = [ex EXCEPT !.pc = "end",
                         !.transport = Ev.in = p2v /\ P.in = v2p /\ P.vsent = Ev.out,
                         \* conformance: verdict, lines written, draws made, oracle discipline
                         !.vVerdict = Ev.ret = vr.ok,
                         !.vLines = Ev.out = vr.sent,
                         !.vCoins = Len(Ev.coins) = vr.ci - 1 /\ Ev.nw = (IF R.mode = "pc" THEN (vr.ci - 1) \div 2 ELSE 0),
                         !.vOracle = Tuples(Ev.h) = vr.asked /\ OracleFn(P.h, Ev.h) /\ OracleFn(P.h, P.h) /\ OracleFn(Ev.h, Ev.h),
                         \* properties
                         !.okC = (R.kind = "honest") => vr.ok,
                         !.okS = (unchanged /\ Len(vr.chal) >= n) => (vr.ok <=> exact),
                         !.okB = (R.kind = "pubin" /\ vr.ok) => viewok]
  /\ l' = l + 1

TEnd ==
  /\ IsEv("End") /\ ex.pc = "end" /\ ~Ev.stuck
  /\ ex' = [pc |-> "closed"] @@ Flags0
  /\ l' = l + 1

TNext == TReset \/ TProve \/ TVerify \/ TEnd
TSpec == TInit /\ [][TNext]_tvars

Transport == ex.transport
ProverLines == ex.pLines
ProverOracle == ex.pOracle
ProverCoins == ex.pCoins
VerifierLines == ex.vLines
VerifierCoins == ex.vCoins
VerifierOracle == ex.vOracle
Verdict == ex.vVerdict
Complete == ex.okC
ExactSet == ex.okS
BoundPub == ex.okB
Accepted == TLCGet("stats").diameter = Len(TraceLog) + 1
=============================================================================
