SPECIFICATION MCSpec
CONSTANTS
 P = 23
 Q = 11
 Gg = 2
 Hh = 3
 Hon <- H01
 Budget = 0
 ASet <- AllR
 RSet <- AllR
 Early = FALSE
 Gen = FALSE
INVARIANTS C17_Order C17_Agreement C17_Complete C17_Sum C17_Reject C17_NoOutput
CHECK_DEADLOCK FALSE
