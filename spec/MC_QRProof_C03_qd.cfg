SPECIFICATION Spec
CONSTANTS
 Insts <- Insts_C03_qd
 MaskOneAsCoded = FALSE
INVARIANT Thm
CHECK_DEADLOCK FALSE
