SPECIFICATION AlgSpec
CONSTANTS
 Tier = "quick"
 Ops = {"verify", "decrypt", "check"}
 MaxPrime = 23
INVARIANT AlgInv
CHECK_DEADLOCK FALSE
