------------------------------- MODULE AioGen -------------------------------
(* Direction A for C13: TLC enumerates, with the library's real sizes       *)
(* (MACLEN 32, BLK 16, base-62 lines, ciphertext lines of the length the    *)
(* definition implies), every split point of a short exchange and every     *)
(* rewrite of the catalogue at every octet offset, computes the complete    *)
(* behaviour with the operators of Aio.tla (which Receive calls happen,     *)
(* what each returns) and prints it.  harness/drv_aio.cc executes the       *)
(* behaviours on the real classes; the log goes back through AioTrace, and  *)
(* the values finally delivered are compared with dl computed here.         *)
(* Party 0 sends GenVals to party 1; one case = one state.                  *)
EXTENDS MC_Aio, Json

CONSTANTS GenVals,    \* the integers sent (each below 2^31)
          GenModes,   \* configurations to enumerate (set of MkCfg records)
          Families,   \* subset of {"cut1", "cut2", "byte", "bytecut", "msg"}; fault families apply to authenticated modes
          StrideP,    \* enumerate offsets p with p % stride = Phase: stride of plain modes ...
          StrideE,    \* ... of encrypted modes (1: all offsets)
          StrideC,    \* stride of the single-cut family
          StrideC2,   \* stride of both cuts of the two-cut family
          StrideBC,   \* stride of the rewrite-then-cut family
          StrideA,    \* stride of the single cut of the array family
          Phase,
          ENCLEN, ENCLENCHK

VARIABLE g
\* fixed parts of the generator configs
NoValGen == -1
GenProg == <<>>
GenKinds == {}
GenTagNL == <<>>
GenVals3 == <<7, 1000000, 0>>        \* 1 digit, 4 digits, and 0
GenVals2 == <<1000000, 7>>
RealCfg(variant, auth, enc, chunked) == MkCfg(2, variant, auth, enc, chunked, 32, 16, 4096)
AllModes == {RealCfg(v, a, e, c) : v \in {"select", "nonblock"}, a \in BOOLEAN, e \in BOOLEAN, c \in BOOLEAN}
QuickModes == {m \in AllModes : ~(m.variant = "nonblock" /\ m.chunked)}
Stride == IF Enc THEN StrideE ELSE StrideP
\* nominal oracle outputs: right lengths, no NL lookalikes
NomTag(m) == [o \in 1..MacLen |-> 300 + m]
NomIv == [o \in 1..BLK |-> 400]
NomLine(m, v) ==
  IF ~Enc THEN B62(v)
  ELSE IF Chk THEN [k \in 1..ENCLENCHK |-> 500 + m] \o <<BAR>> \o B62(m)
  ELSE [k \in 1..ENCLEN |-> 500 + m]
RECURSIVE NomSend(_, _)
NomSend(W, vs) ==
  IF vs = <<>> THEN W
  ELSE LET m == Len(W.tx[0][1]) + 1
       IN NomSend(PutMsg(W, 0, 1, Head(vs), IF Enc /\ m = 1 THEN NomIv ELSE <<>>, NomLine(m, Head(vs)), NomTag(m)), Tail(vs))
WSent == NomSend(WInit(w.cfg), GenVals)
T == Len(WSent.wire[0][1])
NF == Len(GenVals)
\* arrays of different sizes sent, arrays of GenArrSize asked for (chunked mode: the re-synchronisation path)
GenArrs == <<<<7, 1000000, 0>>, <<7, 0>>, <<1000000, 7>>>>
GenArrSize == 2
RECURSIVE NomSendArrs(_, _)
NomSendArrs(W, as) == IF as = <<>> THEN W ELSE NomSendArrs(NomSend(W, ArrayValues(Head(as))), Tail(as))
WSentA == NomSendArrs(WInit(w.cfg), GenArrs)
TA == Len(WSentA.wire[0][1])
SelA(S) == {p \in S : p % StrideA = Phase % StrideA}
Sel(S) == {p \in S : p % Stride = Phase % Stride}
SelC(S) == {p \in S : p % StrideC = Phase % StrideC}
SelC2(S) == {p \in S : p % StrideC2 = Phase % StrideC2}

--------------------------------------------------------------------------
(* the catalogue, labelled the way the driver understands it                *)
ByteFaults ==
  {[kind |-> "flip", pos |-> p, nl |-> b] : p \in Sel(0..(T - 1)), b \in BOOLEAN}
  \cup {[kind |-> "ins", pos |-> p, nl |-> b] : p \in Sel(0..T), b \in BOOLEAN}
  \cup {[kind |-> "del", pos |-> p, nl |-> FALSE] : p \in Sel(0..(T - 1))}
MsgFaults ==
  {[kind |-> "delmsg", i |-> i, j |-> 0] : i \in 1..NF}
  \cup {[kind |-> "replay", i |-> i, j |-> j] : i \in 1..(NF + 1), j \in 1..NF}
  \cup {[kind |-> "swap", i |-> i, j |-> 0] : i \in 1..(NF - 1)}
  \cup {[kind |-> "forge", i |-> i, j |-> 0] : i \in 1..(NF + 1)}

ApplyFault(W, f) ==
  LET x == W.wire[0][1]  msgs == W.tx[0][1]  n == Len(msgs)
      at(i) == FrameStart(msgs, 1, i) + (IF i <= n THEN Len(msgs[i].iv) ELSE 0)
  IN CASE f.kind = "flip" -> DoSplice(W, 0, 1, f.pos, 1, <<IF f.nl /\ x[f.pos + 1] # NL THEN NL ELSE X>>)
       [] f.kind = "ins" -> DoSplice(W, 0, 1, f.pos, 0, <<IF f.nl THEN NL ELSE X>>)
       [] f.kind = "del" -> DoSplice(W, 0, 1, f.pos, 1, <<>>)
       [] f.kind = "delmsg" -> DoSplice(W, 0, 1, at(f.i), Len(Body(msgs[f.i])), <<>>)
       [] f.kind = "replay" -> DoSplice(W, 0, 1, at(f.i), 0, Body(msgs[f.j]))
       [] f.kind = "swap" -> DoSplice(W, 0, 1, at(f.i), Len(Body(msgs[f.i])) + Len(Body(msgs[f.i + 1])),
                                      Body(msgs[f.i + 1]) \o Body(msgs[f.i]))
       [] f.kind = "forge" -> DoSplice(W, 0, 1, at(f.i), 0, <<X, NL>> \o [o \in 1..MacLen |-> X])
       [] OTHER -> W
FaultEv(f) ==
  IF f.kind \in {"flip", "ins", "del"} THEN [e |-> "Fault", a |-> 0, b |-> 1, kind |-> f.kind, pos |-> f.pos, nl |-> f.nl]
  ELSE [e |-> "Fault", a |-> 0, b |-> 1, kind |-> f.kind, i |-> f.i, j |-> f.j]

--------------------------------------------------------------------------
(* a case: optional fault, then the moves; after every move the receiver    *)
(* calls Receive until a call changes nothing                               *)
NoFault == [kind |-> "none"]
CasesOf(fam) ==
  CASE fam = "cut1" -> {[f |-> NoFault, cuts |-> <<k>>, arr |-> FALSE] : k \in SelC(1..(T - 1))}
    [] fam = "cut2" -> {c \in {[f |-> NoFault, cuts |-> <<k1, k2>>, arr |-> FALSE] : k1 \in SelC2(1..(T - 2)), k2 \in SelC2(2..(T - 1))} :
                          c.cuts[1] < c.cuts[2]}
    [] fam = "byte" -> {[f |-> f, cuts |-> <<>>, arr |-> FALSE] : f \in ByteFaults}
    [] fam = "bytecut" -> {[f |-> f, cuts |-> <<f.pos + 1>>, arr |-> FALSE] : f \in {h \in ByteFaults : h.pos + 1 < T /\ h.pos % StrideBC = Phase % StrideBC}}
    [] fam = "msg" -> {[f |-> f, cuts |-> c, arr |-> FALSE] : f \in MsgFaults, c \in {<<>>, <<MACLEN + 1>>}}
    [] fam = "arr" -> {[f |-> NoFault, cuts |-> c, arr |-> TRUE] : c \in {<<>>} \cup {<<k>> : k \in SelA(1..(TA - 1))}}
Cases == UNION {CasesOf(fam) : fam \in (IF Auth THEN Families ELSE Families \cap {"cut1", "cut2", "arr"})}

RecvEv == [e |-> "Recv", b |-> 1, sched |-> DIRECT, who |-> 0]
RECURSIVE Pump(_, _, _)
Pump(W, evs, fuel) ==
  IF fuel = 0 THEN [W |-> W, evs |-> evs]
  ELSE LET r == DoRecv(W, 1, DIRECT, 0, <<>>)
       IN IF ~r.ok /\ r.W = W THEN [W |-> W, evs |-> Append(evs, RecvEv)]
          ELSE Pump(r.W, Append(evs, RecvEv), fuel - 1)

RecvArrEv == [e |-> "RecvArr", b |-> 1, size |-> GenArrSize, sched |-> DIRECT, who |-> 0]
RECURSIVE PumpA(_, _, _)
PumpA(W, evs, fuel) ==
  IF fuel = 0 THEN [W |-> W, evs |-> evs]
  ELSE LET r == DoRecvArr(W, 1, GenArrSize, DIRECT, 0, <<>>)
       IN IF ~r.ok /\ r.W = W THEN [W |-> W, evs |-> Append(evs, RecvArrEv)]
          ELSE PumpA(r.W, Append(evs, RecvArrEv), fuel - 1)

RECURSIVE PhasesA(_, _, _, _)
PhasesA(W, done, cuts, evs) ==
  LET have == Len(W.wire[0][1])
      k == IF cuts = <<>> \/ Head(cuts) - done >= have THEN have ELSE Head(cuts) - done
  IN IF have = 0 THEN [W |-> W, evs |-> evs]
     ELSE LET p == PumpA(DoMove(W, 0, 1, k), Append(evs, [e |-> "Move", a |-> 0, b |-> 1, k |-> k]), 40)
          IN PhasesA(p.W, done + k, IF cuts = <<>> THEN <<>> ELSE Tail(cuts), p.evs)

RECURSIVE Phases(_, _, _, _)
Phases(W, done, cuts, evs) ==
  LET have == Len(W.wire[0][1])
      k == IF cuts = <<>> \/ Head(cuts) - done >= have THEN have ELSE Head(cuts) - done
  IN IF have = 0 THEN [W |-> W, evs |-> evs]
     ELSE LET p == Pump(DoMove(W, 0, 1, k), Append(evs, [e |-> "Move", a |-> 0, b |-> 1, k |-> k]), 4 * NF + 8)
          IN Phases(p.W, done + k, IF cuts = <<>> THEN <<>> ELSE Tail(cuts), p.evs)

SendEvs == [k \in 1..NF |-> [e |-> "Send", a |-> 0, b |-> 1, vs |-> <<GenVals[k]>>, arr |-> FALSE]]
SendArrEvs == [k \in 1..Len(GenArrs) |-> [e |-> "Send", a |-> 0, b |-> 1, vs |-> GenArrs[k], arr |-> TRUE]]
BehaviourA(c) ==
  LET r == PhasesA(WSentA, 0, c.cuts, SendArrEvs)
  IN [cfg |-> w.cfg, events |-> r.evs, dl |-> <<>>, da |-> r.W.arrs[1][0], arrsize |-> GenArrSize, id |-> c]
BehaviourS(c) ==
  LET W1 == IF c.f.kind = "none" THEN WSent ELSE ApplyFault(WSent, c.f)
      e1 == IF c.f.kind = "none" THEN SendEvs ELSE Append(SendEvs, FaultEv(c.f))
      r == Phases(W1, 0, c.cuts, e1)
  IN [cfg |-> w.cfg, events |-> r.evs, dl |-> r.W.deliv[1][0], da |-> <<>>, arrsize |-> 0, id |-> c]
Behaviour(c) == IF c.arr THEN BehaviourA(c) ELSE BehaviourS(c)

GInit == \E c \in GenModes : w = WInit(c) /\ pc = [a \in 0..1 |-> 1] /\ g \in Cases
GNext == UNCHANGED <<g, w, pc>>
GSpec == GInit /\ [][GNext]_<<g, w, pc>>
GenPrint == PrintT(ToJson(Behaviour(g)))
\* the property on every generated behaviour: an untouched stream arrives completely and in order, a rewritten
\* one (authenticated) yields a prefix (or, IV rewritten, the tail)
GenOK ==
  LET r == Behaviour(g)
  IN IF g.arr
     THEN \* whatever the sizes: every array returned consists of consecutive values of the stream, in order
          LET flat == [k \in 1..(GenArrSize * Len(r.da)) |-> r.da[((k - 1) \div GenArrSize) + 1][((k - 1) % GenArrSize) + 1]]
              stream == <<7, 1000000, 0, 7, 0, 1000000, 7>>
          IN IF Chk THEN \A k \in 1..Len(r.da) : \E i \in 0..(Len(stream) - GenArrSize) : SubSeq(stream, i + 1, i + GenArrSize) = r.da[k]
             ELSE IsPrefix(flat, stream) /\ Len(r.da) = 3
     ELSE IF g.f.kind = "none" THEN r.dl = GenVals
     ELSE \/ IsPrefix(r.dl, GenVals)
          \/ (Enc /\ ~Chk /\ IsPrefix(r.dl, Tail(GenVals)))
=============================================================================
