SPECIFICATION Spec
CONSTANTS
 Insts <- Insts_C04_q
 MaskOneAsCoded = TRUE
INVARIANT Thm
CHECK_DEADLOCK FALSE
