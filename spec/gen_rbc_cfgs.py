#!/usr/bin/env python3
"""writes the MC_RBC_*.cfg / GEN_RBC_*.cfg files (kept in git; re-run after changing the table)"""
base = """SPECIFICATION %(spec)s
CONSTANTS
 N = %(n)d
 T = %(t)d
 Honest <- %(honest)s
 FixF3 = %(f3)s
 FixF4 = %(f4)s
 FixF15 = %(f15)s
 Prog <- %(prog)s
 UseDFrom <- %(dfrom)s
 DFromWho <- %(who)s
 ByzBudget = %(budget)d
 ByzAlphabet <- %(alpha)s
 InitChan <- %(chan)s
 InitFifo = %(fifo)s
 GenDepth = %(gen)d
 LateParty = %(late)d
INVARIANTS %(inv)s
PROPERTIES DeliveryStepP %(props)s
CHECK_DEADLOCK FALSE
%(tail)s
"""
SAFE = "Agreement NoDuplicate Integrity QValidity QTotality KnownIsAccepted"
def cfg(name, **kw):
    d = dict(spec="MCSpec", n=4, t=1, honest="H3", f3="TRUE", f4="TRUE", f15="TRUE", prog="P_one3", dfrom="None", who="AllParties", budget=0,
             alpha="None", chan="Empty", fifo="TRUE", gen=0, late=99, inv=SAFE, props="", tail="VIEW View")
    d.update(kw)
    open(name + ".cfg", "w").write(base % d)

# --- exhaustive safety configs (n=4, t=1, one faulty party)
cfg("MC_RBC_s1")                                                       # silent faulty party, one broadcast
cfg("MC_RBC_two", prog="P_two3")                                       # two broadcasts, FIFO order
cfg("MC_RBC_b1", prog="P_none3", budget=3, alpha="AlphaSmall")         # equivocating faulty sender
cfg("MC_RBC_b2", prog="P_one3", budget=2, alpha="AlphaForge")          # forged echo/ready/answer for the honest slot
cfg("MC_RBC_nf", chan="ChanA", fifo="FALSE", budget=3, alpha="AlphaNFHelp")   # non-FIFO with a faulty helper
cfg("MC_RBC_sw", prog="P_switch3")                                     # nested channel
cfg("MC_RBC_sw2", prog="P_switch3n")                                   # enter, broadcast, leave
# --- the pinned behaviour (findings F3 / F4) must be found by TLC: documentation + self-test of the model
cfg("MC_RBC_nf_pinned", chan="ChanA", fifo="FALSE", budget=3, alpha="AlphaNFHelp", f3="FALSE")
cfg("MC_RBC_b2_pinned", prog="P_one3", budget=2, alpha="AlphaForge", f15="FALSE")   # payload after the ready quorum (finding F15)
# --- liveness with DeliverFrom consumers (n=2, t=0 and n=3, t=0: thresholds are irrelevant for F4)
LIVE = dict(spec="FairSpec", props="EventuallyReturned EventuallyDelivered", tail="")
cfg("MC_RBC_df2", n=2, t=0, honest="H2", prog="P_df2", dfrom="D1", who="W0", **LIVE)
cfg("MC_RBC_df2_pinned", n=2, t=0, honest="H2", prog="P_df2", dfrom="D1", who="W0", f4="FALSE", **LIVE)
cfg("MC_RBC_live1", n=4, t=1, honest="H3", prog="P_one3", **dict(LIVE, props="EventuallyDelivered"))   # (no DeliverFrom consumer: EventuallyReturned would be a tautology)
# --- generators (simulation): behaviours are printed and replayed on the real objects
GEN = dict(gen=60, inv="GenPrint", tail="CONSTRAINT GenStop", props="")
cfg("GEN_RBC_b", prog="P_two3", budget=6, alpha="AlphaEquiv", **GEN)
cfg("GEN_RBC_nf", chan="ChanA", fifo="FALSE", prog="P_two3", budget=4, alpha="AlphaNFHelp", **GEN)
cfg("GEN_RBC_sw", prog="P_switch3", budget=2, alpha="AlphaForge", **GEN)
cfg("GEN_RBC_h4", honest="H4", prog="P_one4", **GEN)
cfg("GEN_RBC_df", prog="P_switch3", dfrom="D1", **GEN)
cfg("GEN_RBC_rec", prog="P_rec3", **dict(GEN, gen=90))
cfg("GEN_RBC_late", honest="H4", prog="P_two4", late=3, **dict(GEN, gen=90))   # ready quorum before the payload at party 3 (finding F15)
