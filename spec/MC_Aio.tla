------------------------------ MODULE MC_Aio ------------------------------
(* Bounded instances of Aio.tla for TLC: senders run a small program of     *)
(* Send calls towards one receiver; the transport hands the octets over in  *)
(* every possible fragmentation and applies up to MaxFault rewrites from    *)
(* the catalogue at every offset; the receiver calls Receive (single or     *)
(* array) with every scheduler at every moment.  Oracle outputs (tags, IVs, *)
(* ciphertext lines) are abstract codes; some tag / IV octets are made to   *)
(* look like the line delimiter.                                            *)
EXTENDS Aio

CONSTANTS CN, CAuth, CEnc, CChunked, CVariant, CMACLEN, CBLK, CBUFSZ,   \* the configuration (w.cfg)
          Rcv,        \* the receiving party
          Prog,       \* Prog[a + 1]: sequence of [vs |-> <<values>>, arr |-> BOOLEAN] sent by a to Rcv (<<>>: silent)
          MaxFault,   \* rewrites of the wire in one behaviour
          Kinds,      \* subset of {"flip","ins","del","delmsg","replay","swap","forge"}
          Scheds,     \* schedulers the receiver uses
          ArrSize,    \* 0: single-message Receive; k > 0: Receive(vector of k)
          TagNL,      \* TagNL[m]: offsets (0-based) of the tag of the m-th message of a link that look like NL
          IvNL        \* offsets of IV octets that look like NL

VARIABLES pc
mcvars == <<w, pc>>
X == 999                      \* an octet value that is neither NL nor anything genuine

\* oracle outputs
MCTag(a, m) == [o \in 1..MacLen |-> IF m <= Len(TagNL) /\ (o - 1) \in TagNL[m] THEN NL ELSE 1000 + 100 * a + 10 * m + o]
MCIv(a) == [o \in 1..BLK |-> IF (o - 1) \in IvNL THEN NL ELSE 2000 + 10 * a + o]
MCLine(a, m, v) ==
  IF ~Enc THEN B62(v)
  ELSE LET ct == [k \in 1..Len(B62(v)) |-> 3000 + 100 * a + 10 * m + k]
       IN IF Chk THEN ct \o <<BAR>> \o B62(m) ELSE ct

SendOne(W, a, v) ==
  LET m == Len(W.tx[a][Rcv]) + 1
      iv == IF Enc /\ m = 1 THEN MCIv(a) ELSE <<>>
  IN PutMsg(W, a, Rcv, v, iv, MCLine(a, m, v), MCTag(a, m))
RECURSIVE SendAll(_, _, _)
SendAll(W, a, vs) == IF vs = <<>> THEN W ELSE SendAll(SendOne(W, a, Head(vs)), a, Tail(vs))

MCCfg == MkCfg(CN, CVariant, CAuth, CEnc, CChunked, CMACLEN, CBLK, CBUFSZ)
ProgOf(a) == IF a + 1 <= Len(Prog) THEN Prog[a + 1] ELSE <<>>
MCInit == w = WInit(MCCfg) /\ pc = [a \in 0..(CN - 1) |-> 1]

MCSend(a) ==
  /\ pc[a] <= Len(ProgOf(a))
  /\ LET it == ProgOf(a)[pc[a]]
         W1 == SendAll(w, a, IF it.arr THEN ArrayValues(it.vs) ELSE it.vs)
     IN w' = IF it.arr THEN [W1 EXCEPT !.sarrs[a][Rcv] = Append(@, it.vs)] ELSE W1
  /\ pc' = [pc EXCEPT ![a] = @ + 1]

MCMove(a, k) == w' = DoMove(w, a, Rcv, k) /\ UNCHANGED pc

--------------------------------------------------------------------------
(* fault catalogue: rewrites [pos, del, ins] of the octets the transport holds *)
Body(f) == f.line \o <<NL>> \o f.tag
RECURSIVE Cat(_, _, _)
Cat(msgs, i, j) == IF i > j THEN <<>> ELSE FrameBytes(msgs[i]) \o Cat(msgs, i + 1, j)
\* the transport holds exactly the frames first..n of the link (nothing of them handed over, nothing rewritten)
WholeFrom(W, a) ==
  LET msgs == W.tx[a][Rcv]
      S == {i \in 1..Len(msgs) : Cat(msgs, i, Len(msgs)) = W.wire[a][Rcv]}
  IN IF S = {} \/ W.wire[a][Rcv] = <<>> THEN 0 ELSE MinOf(S)
FrameStart(msgs, first, i) == Len(Cat(msgs, first, i - 1))    \* offset of frame i inside the held octets

Splices(W, a) ==
  LET x == W.wire[a][Rcv]  L == Len(x)  msgs == W.tx[a][Rcv]  n == Len(msgs)  first == WholeFrom(W, a)
  IN (IF "flip" \in Kinds
      THEN {[pos |-> p, del |-> 1, ins |-> <<c>>] : p \in 0..(L - 1), c \in {NL, X}}
             \ {[pos |-> p, del |-> 1, ins |-> <<NL>>] : p \in {q \in 0..(L - 1) : x[q + 1] = NL}}
      ELSE {})
     \cup (IF "ins" \in Kinds THEN {[pos |-> p, del |-> 0, ins |-> <<c>>] : p \in 0..L, c \in {NL, X}} ELSE {})
     \cup (IF "del" \in Kinds THEN {[pos |-> p, del |-> 1, ins |-> <<>>] : p \in 0..(L - 1)} ELSE {})
     \cup (IF first = 0 THEN {} ELSE
            (IF "delmsg" \in Kinds
             THEN {[pos |-> FrameStart(msgs, first, i) + Len(msgs[i].iv), del |-> Len(Body(msgs[i])), ins |-> <<>>] : i \in first..n}
             ELSE {})
            \cup (IF "replay" \in Kinds
                  THEN {[pos |-> FrameStart(msgs, first, i) + (IF i <= n THEN Len(msgs[i].iv) ELSE 0), del |-> 0,
                         ins |-> Body(msgs[j])] : i \in first..(n + 1), j \in 1..n}
                  ELSE {})
            \cup (IF "swap" \in Kinds
                  THEN {[pos |-> FrameStart(msgs, first, i) + Len(msgs[i].iv),
                         del |-> Len(Body(msgs[i])) + Len(Body(msgs[i + 1])),
                         ins |-> Body(msgs[i + 1]) \o Body(msgs[i])] : i \in first..(n - 1)}
                  ELSE {})
            \cup (IF "forge" \in Kinds
                  THEN {[pos |-> FrameStart(msgs, first, i) + (IF i <= n THEN Len(msgs[i].iv) ELSE 0), del |-> 0,
                         ins |-> <<X>> \o <<NL>> \o [o \in 1..MacLen |-> X]] : i \in first..(n + 1)}
                  ELSE {}))

TotalFaults == LET RECURSIVE S(_) S(a) == IF a < 0 THEN 0 ELSE w.nfault[a][Rcv] + S(a - 1) IN S(N - 1)

MCFault(a, sp) ==
  /\ Auth /\ TotalFaults < MaxFault
  /\ w' = DoSplice(w, a, Rcv, sp.pos, sp.del, sp.ins)
  /\ UNCHANGED pc

MCRecv(sched, who, picks) ==
  /\ ArrSize = 0
  /\ w' = DoRecv(w, Rcv, sched, who, picks).W
  /\ UNCHANGED pc
MCRecvArr(sched, who, picks) ==
  /\ ArrSize > 0
  /\ w' = DoRecvArr(w, Rcv, ArrSize, sched, who, picks).W
  /\ UNCHANGED pc

NoPicks == <<>>
MCNext ==
  \/ \E a \in Party : MCSend(a)
  \/ \E a \in Party : \E k \in 1..Len(w.wire[a][Rcv]) : MCMove(a, k)
  \/ \E a \in Party : \E sp \in Splices(w, a) : MCFault(a, sp)
  \/ (RR \in Scheds /\ (MCRecv(RR, 0, NoPicks) \/ MCRecvArr(RR, 0, NoPicks)))
  \/ (DIRECT \in Scheds /\ \E who \in Party : ProgOf(who) # <<>> /\ (MCRecv(DIRECT, who, NoPicks) \/ MCRecvArr(DIRECT, who, NoPicks)))
  \/ (RND \in Scheds /\ \E picks \in [1..N -> Party] : MCRecv(RND, 0, picks))
  \/ (RND \in Scheds /\ \E picks \in [1..(N + 1) -> Party] : MCRecvArr(RND, 0, picks))

MCSpec == MCInit /\ [][MCNext]_mcvars

--------------------------------------------------------------------------
InOrderI == InOrder(w)
CompleteAlways == Complete(w)
AuthSafeI == AuthSafe(w)
\* the strict reading (used by MC_Aio_strictiv.cfg only): no allowance for the unauthenticated IV
AuthPrefixStrict == Auth => \A a \in Party : IsPrefix(w.deliv[Rcv][a], SentV(w, a, Rcv))
ArraysWholeI == ArraysWhole(w)
\* nothing that was not sent is ever returned, in any mode the catalogue is applied to
NothingForged == \A a \in Party : \A k \in 1..Len(w.deliv[Rcv][a]) :
                    \E m \in 1..Len(w.tx[a][Rcv]) : w.tx[a][Rcv][m].v = w.deliv[Rcv][a][k]
\* a link that failed verification under a sequence number above 1 never delivers again
StoppedStays ==
  [][\A a \in Party :
       LET r == w.lk[Rcv][a]
           t == IF r.flag THEN TryParse(r, w.tx[a][Rcv]) ELSE [done |-> FALSE, out |-> "none", v |-> NoVal, r |-> r]
       IN (Auth /\ t.done /\ t.out = "fail" /\ r.sqn > 1) => w'.deliv[Rcv][a] = w.deliv[Rcv][a]]_mcvars
\* the frames fit the reassembly buffer (a model with BUFSZ too small for its messages is not meaningful)
FramesFit == \A a \in Party : \A m \in 1..Len(w.tx[a][Rcv]) : Len(Body(w.tx[a][Rcv][m])) <= BUFSZ
=============================================================================
