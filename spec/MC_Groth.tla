------------------------------- MODULE MC_Groth -------------------------------
(***************************************************************************)
(* Exhaustive part for the algebra of Groth.tla in small Schnorr groups     *)
(* (p = 23, q = 11 and p = 47, q = 23; n = 2, 3).  The prover operator is   *)
(* run against the verifier predicate for EVERY challenge tuple; TLC walks  *)
(* a tree  root -> case -> coins  (so that the workers share the leaves)    *)
(* and evaluates at every leaf the theorem selected by Kind:                *)
(*  c03_skc  completeness of SKC: all permutations, message vectors incl.   *)
(*           repeats, coins from CoinSet^(2n+1), ALL x, e (also the 2 l_e   *)
(*           bit range of the non-interactive form, which exceeds q), all   *)
(*           alpha; implementation (batch / plain) and paper agree: accept  *)
(*           unless e = 0 mod q (D4)                                        *)
(*  c03_v    completeness of VSSHE: all permutations, R from RSet^n, first- *)
(*           move coins from CoinSet^(n+3), ALL t, lambda; the verdict is   *)
(*           "accept" except exactly on Bad = {some f_i shorter than l bits *)
(*           (D5), Z = 0 (D6), e = 0 (D4)}; the paper's verifier accepts;   *)
(*           the optimised inner commitment (D9) decides as the paper's     *)
(*  c04_skc  soundness of SKC as the exact accepting set of every           *)
(*           non-fitting witness (commitment to other content / other       *)
(*           randomness / other permutation, a non-permutation), honest     *)
(*           algorithm: Acc = closed form, |Acc| within the bound           *)
(*  c04_v    the same for VSSHE and the catalogue of false statements       *)
(*           (substituted, duplicated, re-typed ciphertext, one component   *)
(*           changed, wrong key, other permutation, non-permutation)        *)
(*  c05_skc / c05_v   binding: every position x every mutation of the       *)
(*           catalogue: the mutated transcript is accepted only if the      *)
(*           value is equivalent or the challenge lies in the computed      *)
(*           coincidence set (alpha = 0 / lambda = 0 modulo q), whose       *)
(*           measure is at most 2 / 2^l_e                                   *)
(*  c05_gap  negative control: the same with the range-only membership test *)
(*           D1 - TLC must FIND the accepted commitment outside the group   *)
(***************************************************************************)
EXTENDS Groth

CONSTANTS P, Q,           \* the group
          N, LE,          \* number of ciphertexts / messages, challenge length l_e
          Kind,           \* the theorem
          CoinSet, RSet   \* ranges of the enumerated coins / of the statement's randomizers

\* ---- instances (generators of the subgroup of order q; squares modulo p)
G == IF P = 23 THEN [p |-> 23, q |-> 11, g |-> 2, h |-> 3] ELSE [p |-> 47, q |-> 23, g |-> 2, h |-> 3]
CK == IF P = 23 THEN [p |-> 23, q |-> 11, h |-> 13, g |-> <<4, 6, 9>>] ELSE [p |-> 47, q |-> 23, h |-> 7, g |-> <<4, 6, 9>>]
ASSUME P = G.p /\ Q = G.q /\ GoodG(G) /\ GoodCk(CK, N) /\ N \in 2..3 /\ LE >= 1 /\ 2 * LE <= BitLen(Q)
ASSUME CoinSet \subseteq 0..(Q - 1) /\ RSet \subseteq 0..(Q - 1)

\* PowM by table (same defining recursion, built once): the exploration is several times faster
RECURSIVE RecPowM(_, _, _)
RecPowM(b, e, m) == IF e = 0 THEN 1 % m
                    ELSE LET h == RecPowM((b * b) % m, e \div 2, m) IN IF e % 2 = 1 THEN (b * h) % m ELSE h
PowTab == [b \in 0..(P - 1) |-> [e \in 0..Q |-> RecPowM(b, e, P)]]
TabPowM(b, e, m) == IF m = P /\ b >= 0 /\ b < P /\ e >= 0 /\ e <= Q THEN PowTab[b][e] ELSE RecPowM(b, e, m)

pp == P
qq == Q
Ws(s) == [k \in 1..Len(s) |-> W(pp, qq, s[k])]
Zeros == [i \in 1..N |-> 0]
ChI == 0..(2 ^ LE - 1)                   \* challenges of the interactive forms
ChN == 0..(2 ^ (2 * LE) - 1)             \* challenges of the non-interactive forms (D8)
MsgVecs == IF N = 2 THEN {<<3, 7>>, <<5, 5>>, <<0, 10>>} ELSE {<<3, 7, 1>>, <<5, 5, 2>>}
Along(m, pi) == [i \in 1..N |-> m[pi[i]]]
\* fixed coins of the part that is not enumerated
SC0 == SKCCoins(N, [k \in 1..NSKC(N) |-> (3 * k + 1) % qq])
VC0 == VCoins(N, [k \in 1..NV1(N) |-> (5 * k + 2) % qq])
R0 == [i \in 1..N |-> (2 * i + 3) % qq]
\* a statement without trivial components: e_i = E(g^i; i + 1)
Es0 == [i \in 1..N |-> Enc(G, PowP(pp, G.g, i), i + 1)]

VARIABLE st
Init == st = [k |-> 0]

\* ------------------------------------------------------------- c03: completeness
SKCExpect(M, e) == IF e % qq = 0 THEN (IF M.ezero = "abort" THEN "abort" ELSE "undef") ELSE "accept"
ThC03SKC(a, coins) ==
  LET co == SKCCoins(N, coins)
      c == Com(CK, Along(a.m, a.pi), a.r)
  IN \A x \in ChN, e \in ChN :
       LET T == Ws(SKCProve(CK, N, a.m, a.pi, a.r, co, x, e)) IN
       /\ \A alpha \in ChI : SKCVerify(ImplM, CK, N, c, Zeros, a.m, T, x, e, alpha) = SKCExpect(ImplM, e)
       /\ SKCVerify(ImplNoBatchM, CK, N, c, Zeros, a.m, T, x, e, 0) = SKCExpect(ImplM, e)
       /\ SKCVerify(DefM, CK, N, c, Zeros, a.m, T, x, e, 0) = SKCExpect(DefM, e)

\* the coins for which an honest VSSHE proof is refused by design, and the expected verdict
VBad(T, L) == (\E i \in 1..N : T[4 + i].bits < L) \/ T[5 + N].sg = 0
VExpect(T, L, e) == IF VBad(T, L) THEN "reject" ELSE IF e % qq = 0 THEN "abort" ELSE "accept"
ChS == {0, 1, 2 ^ (2 * LE) - 1}             \* x, e of the inner argument (its completeness is c03_skc)
ThC03V(a, coins) ==
  LET vc == VCoins(N, coins)
      Es == Shuffled(G, Es0, a.pi, a.R)
  IN \A t \in [1..N -> ChN], lam \in ChN, x \in ChS, e \in ChS :
       LET T == Ws(VProve(G, CK, N, a.pi, a.R, Es, vc, SC0, t, lam, x, e))
           inter == lam \in ChI /\ \A i \in 1..N : t[i] \in ChI
       IN /\ \A alpha \in {0, 2 ^ LE - 1} :
               /\ VVerify(ImplM, G, CK, N, Es0, Es, T, t, lam, x, e, alpha, 2 * LE) = VExpect(T, 2 * LE, e)
               /\ inter => VVerify(ImplM, G, CK, N, Es0, Es, T, t, lam, x, e, alpha, LE) = VExpect(T, LE, e)
          /\ VVerify(DefM, G, CK, N, Es0, Es, T, t, lam, x, e, 0, LE) = SKCExpect(DefM, e)
          \* D9: the inner argument on c^lambda c_d with f' decides as on c^lambda c_d com(f; 0)
          /\ VVerifyPlain(ImplM, G, CK, N, Es0, Es, T, t, lam, x, e, 1, LE)
               = SKCVerify(ImplM, CK, N, MulP(pp, PowP(pp, T[1].sm, lam), T[2].sm), [i \in 1..N |-> Rq(qq, T[4 + i])],
                           VM(qq, N, t, lam), SubSeq(T, N + 6, 3 * N + 9), x, e, 1)
\* the measure of Bad (C03: "refused only for coins in Bad, |Bad| / |Coins| <= eps"): whatever t_pi(i) is, exactly
\* min(q, 2^(l-1)) of the q values of d_i give an f_i of fewer than l bits (none for l = 1), and exactly one of the q
\* values of R_d gives Z = 0; the challenge e = 0 has probability 2^-l.  eps = n 2^(l-1) / q + 1 / q + 2^-l.
ShortCount(L) == IF L <= 1 THEN 0 ELSE Min({qq, 2 ^ (L - 1)})
BadMeasure ==
  \A L \in {LE, 2 * LE} : \A tt \in ChN :
     Cardinality({d \in 0..(qq - 1) : SizeInBase2((tt + d) % qq) < L}) = ShortCount(L)
ASSUME BadMeasure

\* ---------------------------------------------------------------- c04: soundness
\* SKC: the prover runs the honest algorithm with (pi, r, m); the commitment of the statement does not fit
SwapAt(pi, j) == LET j2 == (j % N) + 1 IN [pi EXCEPT ![j] = pi[j2], ![j2] = pi[j]]
DupAt(pi, j) == [pi EXCEPT ![j] = pi[(j % N) + 1]]
SKCFalse(a) ==     \* [c: commitment of the statement, pi: what the prover uses]
  LET r == 5 IN
  CASE a.w = "badcom" -> [c |-> Com(CK, [Along(a.m, a.pi) EXCEPT ![a.j] = (@ + 1) % qq], r), pi |-> a.pi, r |-> r]
    [] a.w = "badr" -> [c |-> Com(CK, Along(a.m, a.pi), r + 1), pi |-> a.pi, r |-> r]
    [] a.w = "otherperm" -> [c |-> Com(CK, Along(a.m, a.pi), r), pi |-> SwapAt(a.pi, a.j), r |-> r]
    [] a.w = "nonpermfit" -> [c |-> Com(CK, Along(a.m, DupAt(a.pi, a.j)), r), pi |-> DupAt(a.pi, a.j), r |-> r]
ThC04SKC(a, coins) ==
  LET co == SKCCoins(N, coins)
      fs == SKCFalse(a)
      fits == fs.c = Com(CK, Along(a.m, fs.pi), fs.r)              \* the prover's opening opens the commitment
      sameset == \A v \in 0..(qq - 1) : Cardinality({i \in 1..N : a.m[fs.pi[i]] = v}) = Cardinality({i \in 1..N : a.m[i] = v})
      Acc == {ch \in ChI \X ChI \X ChI :
                SKCVerify(ImplM, CK, N, fs.c, Zeros, a.m, Ws(SKCProve(CK, N, a.m, fs.pi, fs.r, co, ch[1], ch[2])), ch[1], ch[2], ch[3]) = "accept"}
      Closed == {ch \in ChI \X ChI \X ChI :
                  /\ ch[2] % qq # 0
                  /\ fits \/ ch[3] % qq = 0                                                   \* batch coin 0 (D3)
                  /\ ProdMX(qq, Along(a.m, fs.pi), ch[1], N) = ProdMX(qq, a.m, ch[1], N)}       \* x is a root
  IN /\ Acc = Closed
     \* false statement (does not open, or opens to something that is no permutation of m): at most n / 2^l_e
     /\ (~fits \/ ~sameset) => Cardinality(Acc) * (2 ^ LE) <= N * Cardinality(ChI \X ChI \X ChI)

\* VSSHE: the catalogue of false statements; the prover runs the honest algorithm with (pi, R)
CtInv(c) == CtPow(pp, c, 0 - 1)
VFalse(a) ==      \* [Es: the output of the statement, pi, R: what the prover uses]
  LET T0 == Shuffled(G, Es0, a.pi, R0)
      j == a.j  j2 == (a.j % N) + 1
  IN CASE a.w = "subst" -> [Es |-> [T0 EXCEPT ![j] = Enc(G, PowP(pp, G.g, 7), 4)], pi |-> a.pi, R |-> R0]
       [] a.w = "dup" -> [Es |-> [T0 EXCEPT ![j] = T0[j2]], pi |-> a.pi, R |-> R0]
       [] a.w = "dupadapt" -> [Es |-> [T0 EXCEPT ![j] = T0[j2]], pi |-> DupAt(a.pi, j), R |-> [R0 EXCEPT ![j] = R0[j2]]]
       [] a.w = "retype" -> [Es |-> [T0 EXCEPT ![j] = <<@[1], MulP(pp, @[2], PowP(pp, G.g, 3))>>], pi |-> a.pi, R |-> R0]
       [] a.w = "c1only" -> [Es |-> [T0 EXCEPT ![j] = <<MulP(pp, @[1], G.g), @[2]>>], pi |-> a.pi, R |-> R0]
       [] a.w = "c2only" -> [Es |-> [T0 EXCEPT ![j] = <<@[1], MulP(pp, @[2], G.g)>>], pi |-> a.pi, R |-> R0]
       [] a.w = "wrongkey" -> [Es |-> [i \in 1..N |-> CtMul(pp, Es0[a.pi[i]], <<PowP(pp, G.g, R0[i]), PowP(pp, MulP(pp, G.h, G.g), R0[i])>>)],
                               pi |-> a.pi, R |-> R0]
       [] a.w = "otherperm" -> [Es |-> T0, pi |-> SwapAt(a.pi, j), R |-> R0]
VSpace == [t : [1..N -> ChI], lam : ChI, x : ChI, e : ChI, alpha : ChI]
ThC04V(a, coins) ==
  LET vc == VCoins(N, coins)
      fs == VFalse(a)
      \* what each output ciphertext is off by
      Dl == [i \in 1..N |-> CtMul(pp, fs.Es[i], CtInv(CtMul(pp, Es0[fs.pi[i]], Enc(G, 1, fs.R[i]))))]
      \* the ciphertext equation with the randomizers taken out: prod e_i^(-t_i) prod (E_i / E(1; R_i))^(t_pi(i)) = 1
      \* (for a permutation pi: prod Dl_i^(t_pi(i)) = 1)
      LinRel(t) == CtMul(pp, CtProd(pp, [i \in 1..N |-> CtPow(pp, Es0[i], 0 - t[i])]),
                             CtProd(pp, [i \in 1..N |-> CtPow(pp, CtMul(pp, fs.Es[i], CtInv(Enc(G, 1, fs.R[i]))), t[fs.pi[i]])])) = <<1, 1>>
      Tr(ch) == Ws(VProve(G, CK, N, fs.pi, fs.R, fs.Es, vc, SC0, ch.t, ch.lam, ch.x, ch.e))
      Acc == {ch \in VSpace : VVerify(ImplM, G, CK, N, Es0, fs.Es, Tr(ch), ch.t, ch.lam, ch.x, ch.e, ch.alpha, LE) = "accept"}
      Closed == {ch \in VSpace :
                  LET mm == VM(qq, N, ch.t, ch.lam) IN
                  /\ ~VBad(Tr(ch), LE) /\ ch.e % qq # 0
                  /\ LinRel(ch.t)                                                              \* the ciphertext equation
                  /\ ProdMX(qq, Along(mm, fs.pi), ch.x, N) = ProdMX(qq, mm, ch.x, N)}             \* the inner argument
      isfalse == ~IsPerm(fs.pi, N) \/ \E i \in 1..N : Dl[i] # <<1, 1>>
  IN /\ Acc = Closed
     /\ isfalse => Cardinality(Acc) * (2 ^ LE) <= N * Cardinality(VSpace)

\* ------------------------------------------------------------------ c05: binding
\* the positions of the transcripts by kind of value
SKCPosKind(k) == IF k <= 3 THEN "com" ELSE "exp"
VPosKind(k) == IF k <= 2 \/ k \in (N + 6)..(N + 8) THEN "com" ELSE IF k \in 3..4 THEN "elem" ELSE "exp"
\* a commitment has to be the numeral in 1..p-1 of a subgroup element: every other numeral is another element or out of
\* range; a ciphertext component counts modulo p (D7); an exponent modulo q as long as it lies below q (D2)
Equivalent(kind, a, b) == CASE kind = "com" -> FALSE [] kind = "elem" -> ElemEquiv(pp, a, b) [] OTHER -> ExpEquiv(qq, a, b)
\* M: the verifier under test.  For every challenge tuple the honest transcript is mutated at position a.k; Coinc is the
\* set of challenges for which the mutated transcript is accepted although the value is not equivalent.  It lies in the
\* structural coincidence set (batch coin alpha = 0 (D3), lambda = 0; two exchanged neighbours: also where the exchange
\* does not change a product - c_d <-> c_D: alpha = 1, c_D <-> c_a: e = 1, c <-> c_d: lambda = 1), of measure <= 2 / 2^l_e
\* for a replaced value; beyond it only sporadic coincidences of these tiny groups are left (an equation over Z_q that
\* holds by chance: measure <= 2 / q), and none at all for a replaced value.
Structural(mu, lam, e, alpha) ==
  \/ alpha % qq = 0 \/ lam % qq = 0
  \/ mu = "swap" /\ (alpha % qq = 1 \/ e % qq = 1 \/ lam % qq = 1)
\* one pass over the challenge space: every tuple is classified
\*   "na" mutation not applicable / changes nothing, "ok" refused, or equivalent with the verdict of the original,
\*   "equivdiff" equivalent value but another verdict, "struct" / "sporadic" accepted although not equivalent
Classify(applies, equiv, cmpEquiv, acc, accOrig, struct) ==
  IF ~applies THEN "na"
  ELSE IF equiv THEN (IF cmpEquiv /\ acc # accOrig THEN "equivdiff" ELSE "ok")
  ELSE IF ~acc THEN "ok" ELSE IF struct THEN "struct" ELSE "sporadic"
Judge(a, Cl, size) ==
  /\ \A x \in Cl : x[2] # "equivdiff"
  /\ (a.mu # "swap") => \A x \in Cl : x[2] # "sporadic"
  /\ Cardinality({x \in Cl : x[2] = "sporadic"}) * qq <= 2 * size
ThC05SKC(M, a, coins) ==
  LET co == SKCCoins(N, coins)
      pi == IF N = 2 THEN <<2, 1>> ELSE <<2, 3, 1>>
      m == IF N = 2 THEN <<3, 7>> ELSE <<3, 7, 1>>
      r == 5
      c == Com(CK, Along(m, pi), r)
      Sp == ChI \X ChI \X ChI
      Class(ch) ==
        LET T == Ws(SKCProve(CK, N, m, pi, r, co, ch[1], ch[2])) IN
        IF ~MutApplies(T, a.k, a.mu) THEN "na" ELSE
        LET T2 == MutSeq(pp, qq, T, a.k, a.mu) IN
        Classify(T2 # T, IF a.mu = "swap" THEN FALSE ELSE Equivalent(SKCPosKind(a.k), T[a.k], T2[a.k]), TRUE,
                 SKCVerify(M, CK, N, c, Zeros, m, T2, ch[1], ch[2], ch[3]) = "accept",
                 SKCVerify(M, CK, N, c, Zeros, m, T, ch[1], ch[2], ch[3]) = "accept",
                 Structural(a.mu, 1, ch[2], ch[3]))
  IN Judge(a, {<<ch, Class(ch)>> : ch \in Sp}, Cardinality(Sp))
\* (the f_i and Z of the outer argument are tested on the numeral - D5: length, D6: 0 < Z - so that the equivalent v - q
\* may get another verdict there; E_d: D7; exponents of the inner argument: D2)
ThC05V(M, a, coins) ==
  LET vc == VCoins(N, coins)
      pi == IF N = 2 THEN <<2, 1>> ELSE <<2, 3, 1>>
      Es == Shuffled(G, Es0, pi, R0)
      Class(ch) ==
        LET T == Ws(VProve(G, CK, N, pi, R0, Es, vc, SC0, ch.t, ch.lam, ch.x, ch.e)) IN
        IF ~MutApplies(T, a.k, a.mu) THEN "na" ELSE
        LET T2 == MutSeq(pp, qq, T, a.k, a.mu) IN
        Classify(T2 # T, IF a.mu = "swap" THEN FALSE ELSE Equivalent(VPosKind(a.k), T[a.k], T2[a.k]), a.k \notin 5..(5 + N),
                 VVerify(M, G, CK, N, Es0, Es, T2, ch.t, ch.lam, ch.x, ch.e, ch.alpha, LE) = "accept",
                 VVerify(M, G, CK, N, Es0, Es, T, ch.t, ch.lam, ch.x, ch.e, ch.alpha, LE) = "accept",
                 Structural(a.mu, ch.lam, ch.e, ch.alpha))
  IN Judge(a, {<<ch, Class(ch)>> : ch \in VSpace}, Cardinality(VSpace))

\* ------------------------------------------------------------------ the tree
CoinVecs(len) == [1..len -> CoinSet]
LevelA ==
  CASE Kind = "c03_skc" -> [pi : Perms(N), m : MsgVecs, r : RSet]
    [] Kind = "c03_v" -> [pi : Perms(N), R : [1..N -> RSet]]
    [] Kind = "c04_skc" -> [w : {"badcom", "badr", "otherperm", "nonpermfit"}, pi : Perms(N), j : 1..N, m : MsgVecs]
    [] Kind = "c04_v" -> [w : {"subst", "dup", "dupadapt", "retype", "c1only", "c2only", "wrongkey", "otherperm"}, pi : Perms(N), j : 1..N]
    [] Kind \in {"c05_skc", "c05_skc_gap"} -> [k : 1..SKCLen(N), mu : MutNames]
    [] Kind \in {"c05_v", "c05_v_gap"} -> [k : 1..VLen(N), mu : MutNames]
LevelB ==
  CASE Kind \in {"c03_skc", "c04_skc"} -> CoinVecs(NSKC(N))
    [] Kind \in {"c03_v", "c04_v"} -> CoinVecs(NV1(N))
    [] Kind \in {"c05_skc", "c05_skc_gap"} -> {[k \in 1..NSKC(N) |-> (3 * k + 1) % qq], [k \in 1..NSKC(N) |-> (7 * k + 2) % qq]}
    [] OTHER -> {[k \in 1..NV1(N) |-> (3 * k + 1) % qq], [k \in 1..NV1(N) |-> (7 * k + 2) % qq]}
Next == \/ st.k = 0 /\ \E a \in LevelA : st' = [k |-> 1, a |-> a]
        \/ st.k = 1 /\ \E b \in LevelB : st' = [k |-> 2, a |-> st.a, b |-> b]
Spec == Init /\ [][Next]_st
Theorem ==
  (st.k = 2) =>
    CASE Kind = "c03_skc" -> ThC03SKC(st.a, st.b)
      [] Kind = "c03_v" -> ThC03V(st.a, st.b)
      [] Kind = "c04_skc" -> ThC04SKC(st.a, st.b)
      [] Kind = "c04_v" -> ThC04V(st.a, st.b)
      [] Kind = "c05_skc" -> ThC05SKC(ImplM, st.a, st.b)
      [] Kind = "c05_v" -> ThC05V(ImplM, st.a, st.b)
      [] Kind = "c05_skc_gap" -> ThC05SKC(RangeM, st.a, st.b)
      [] Kind = "c05_v_gap" -> ThC05V(RangeM, st.a, st.b)
=============================================================================
