SPECIFICATION Spec
CONSTANTS
 MaxP = 47
 MaxQ = 23
 MaxK = 7
 Margin = 4
 Variants <- V_canon
 NaiveMaxP = 13
 Mode = "needs"
 CheckArith = FALSE
INVARIANTS Emit
CHECK_DEADLOCK FALSE
