SPECIFICATION Spec
CONSTANTS
 MaxP = 90
 MaxQ = 45
 MaxK = 10
 Margin = 4
 Variants <- A_two
 NaiveMaxP = 17
 NaiveVariants <- D_two
 NbrMaxP = 47
 NbrVariants <- N_two
 Mode = "nbr"
 CheckArith = FALSE
 SortedBases = FALSE
INVARIANTS BlockIsDefinition BlockSound Sound Complete Shape Elements Emit
CHECK_DEADLOCK FALSE
