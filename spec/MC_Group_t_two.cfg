SPECIFICATION Spec
CONSTANTS
 MaxP = 90
 MaxQ = 45
 MaxK = 10
 Margin = 4
 Variants <- A_two
 NaiveMaxP = 17
 NaiveVariants <- D_two
 AccMaxP = 60
 NbrMaxP = 47
 NbrVariants <- A_twoq
 Mode = "nbr"
 CheckArith = FALSE
 SortedBases = TRUE
INVARIANTS BlockIsDefinition BlockSound Sound Complete Shape Elements Emit
CHECK_DEADLOCK FALSE
