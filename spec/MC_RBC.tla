----------------------------- MODULE MC_RBC -----------------------------
(* bounded instances of RBC.tla for TLC: every honest party runs a small   *)
(* program of API calls (broadcast / channel switches) interleaved with    *)
(* message hand-over steps in every order; faulty parties inject messages  *)
(* from a bounded alphabet.                                                *)
EXTENDS RBC, Json

CONSTANTS Prog,        \* Prog[i] : sequence of [op |-> "bcast", v |-> 1] / [op |-> "set", c |-> "B", f |-> TRUE] /
                       \*           [op |-> "unset", f |-> TRUE] / [op |-> "recover", c, f]
          UseDFrom,    \* parties that consume with DeliverFrom only (others with Deliver)
          DFromWho,    \* the senders those parties ask for
          ByzBudget,   \* number of injected messages
          ByzAlphabet, \* set of injectable messages
          InitChan,    \* <<>> or <<"A">> : channel all parties start on
          InitFifo,    \* FIFO flag of that channel
          GenDepth,    \* history length printed by the generator configs (0 = off)
          LateParty    \* 99 (nobody), or a party whose links hand over an r-send of another party only after the ready quorum for that
                       \* slot is known to it ("ready quorum before the payload": steers the generator, restricts nothing else)

VARIABLES pc, hist
mcvars == <<vars, pc, hist>>

NonFifoToken(i, k) == 10 * (i + 1) + k    \* the "random" sequence token of the k-th non-FIFO broadcast of i

MCInit ==
  /\ Init(ByzBudget)
  /\ pc = [i \in Honest |-> 1]
  /\ hist = <<>>

\* a fresh object sits on Root in FIFO mode; InitChan = <<"A">> means setID("A", InitFifo) was called by everybody
MCInit2 ==
  /\ MCInit
  /\ TRUE

StartState(st) ==
  IF InitChan = <<>> THEN st
  ELSE [st EXCEPT !.stack = <<[id |-> Root, s |-> 0, ds |-> [w \in Party |-> 1]]>>,
                  !.id = InitChan, !.fifo = InitFifo]

MCInitChan ==
  /\ ps = [i \in Honest |-> StartState(InitParty)]
  /\ net = [a \in Party |-> [b \in Party |-> <<>>]]
  /\ delivered = [i \in Honest |-> <<>>]
  /\ returned = [i \in Honest |-> <<>>]
  /\ bcast = [i \in Honest |-> {}]
  /\ byzLeft = ByzBudget
  /\ pc = [i \in Honest |-> 1]
  /\ hist = <<>>

Log(e) == hist' = IF GenDepth > 0 THEN Append(hist, e) ELSE hist

Op(i) ==
  /\ pc[i] <= Len(Prog[i])
  /\ LET o == Prog[i][pc[i]] IN
       CASE o.op = "bcast" ->
              LET sq == IF ps[i].fifo THEN ps[i].s + 1 ELSE NonFifoToken(i, pc[i]) IN
              Broadcast(i, o.v, sq) /\ Log([e |-> "Bcast", i |-> i, v |-> o.v, sq |-> sq])
         [] o.op = "set" -> SetID(i, o.c, o.f) /\ Log([e |-> "SetID", i |-> i, c |-> o.c, f |-> o.f])
         [] o.op = "unset" -> UnsetID(i, o.f) /\ Log([e |-> "UnsetID", i |-> i, f |-> o.f])
         [] o.op = "recover" -> RecoverID(i, o.c, o.f) /\ Log([e |-> "RecoverID", i |-> i, c |-> o.c, f |-> o.f])
  /\ pc' = [pc EXCEPT ![i] = @ + 1]

\* a hand-over step is only interesting when it can change something
Useful(i, l) == net[l][i] # <<>> \/ BufferScan(ps[i], i).hit
                \/ BufferScan(ps[i], i).res.st # ps[i]

HeldBack(i, l) ==
  /\ i = LateParty /\ net[l][i] # <<>>
  /\ LET m == Head(net[l][i]) IN m.a = RSEND /\ m.j # i /\ ~Has(ps[i].dbar, Tag(m))

StepU(i, l) ==
  /\ i \notin UseDFrom
  /\ Useful(i, l)
  /\ ~HeldBack(i, l)
  /\ Step(i, l)
  /\ Log([e |-> "Step", i |-> i, l |-> l])
  /\ UNCHANGED pc

DFromU(i, who, l) ==
  /\ i \in UseDFrom
  /\ DFrom(i, who, l)
  /\ Log([e |-> "DFrom", i |-> i, who |-> who, l |-> l])
  /\ UNCHANGED pc

ByzU(b, to, m) ==
  /\ Byz(b, to, m)
  /\ Log([e |-> "Byz", b |-> b, to |-> to, m |-> m])
  /\ UNCHANGED pc

MCNext ==
  \/ \E i \in Honest : Op(i)
  \/ \E i \in Honest, l \in Party : StepU(i, l)
  \/ \E i \in Honest, who \in DFromWho, l \in Party : DFromU(i, who, l)
  \/ \E b \in Party \ Honest, to \in Honest, m \in ByzAlphabet : ByzU(b, to, m)

MCSpec == MCInitChan /\ [][MCNext]_mcvars

\* fairness for the liveness part: every hand-over that is possible eventually happens
Fair ==
  /\ \A i \in Honest : WF_mcvars(Op(i))
  /\ \A i \in Honest, l \in Party : WF_mcvars(StepU(i, l))
  /\ \A i \in Honest, who \in DFromWho, l \in Party : WF_mcvars(DFromU(i, who, l) /\ mcvars' # mcvars)
FairSpec == MCSpec /\ Fair

--------------------------------------------------------------------------
Quiescent ==
  /\ \A i \in Honest : pc[i] > Len(Prog[i])
  /\ \A i \in Honest, l \in Party : net[l][i] = <<>>
  /\ \A i \in Honest : ~BufferScan(ps[i], i).hit /\ BufferScan(ps[i], i).res.out = <<>>

HasDl(i, w, id, s) == \E x \in Dl(i) : x.who = w /\ x.id = id /\ x.s = s

\* "whenever all protocol messages are eventually handed over, every broadcast of an honest sender is
\*  delivered by all honest parties" (for the channel a party ends on), "and if one honest party delivers
\*  a slot then all do"
QValidity ==
  Quiescent => \A i \in Honest \ UseDFrom, w \in Honest : \A b \in bcast[w] :
                   b.id = ps[i].id => HasDl(i, w, b.id, b.s)
QTotality ==
  Quiescent => \A a \in Honest, i \in Honest \ UseDFrom : \A x \in Dl(a) :
                   x.id = ps[i].id => HasDl(i, x.who, x.id, x.s)

\* liveness proper (needed for DeliverFrom, where non-progress does not show as quiescence)
Ret(i) == {returned[i][k] : k \in 1..Len(returned[i])}
EventuallyReturned ==
  \A i \in UseDFrom, w \in Honest \cap DFromWho :
     <>[](pc[w] > Len(Prog[w]) /\ pc[i] > Len(Prog[i]) =>
           \A b \in bcast[w] : b.id = ps[i].id => \E x \in Ret(i) : x.who = w /\ x.id = b.id /\ x.v = b.v)
EventuallyDelivered ==
  \A i \in Honest \ UseDFrom, w \in Honest :
     <>[](pc[w] > Len(Prog[w]) /\ pc[i] > Len(Prog[i]) =>
           \A b \in bcast[w] : b.id = ps[i].id => HasDl(i, w, b.id, b.s))

--------------------------------------------------------------------------
\* generator: print the history of every behaviour that reached quiescence (or GenDepth)
GenPrint ==
  (GenDepth > 0 /\ Len(hist) > 0 /\ (Len(hist) >= GenDepth \/ (Quiescent /\ byzLeft = 0))) =>
     PrintT(ToJson([hist |-> hist,
                    dl |-> [i \in Honest |-> delivered[i]],
                    ret |-> [i \in Honest |-> returned[i]]]))
GenStop == GenDepth > 0 => (Len(hist) < GenDepth /\ ~(Quiescent /\ byzLeft = 0))

View == <<vars, pc>>
DeliveryStepP == [][DeliveryStep /\ ReturnStep]_mcvars
=============================================================================
