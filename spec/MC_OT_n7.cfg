SPECIFICATION Spec
CONSTANTS
 P = 7
 Q = 3
 Gg = 2
 Vars = {"n"}
 Ns = {2, 3}
 MsgVecs <- MV7
 CCoins <- AllZq
 SCoins <- AllZq
 Tamper = FALSE
 PowM <- TabPowM
INVARIANTS Correct HonestAbort Refusal OneOnly Curious CuriousPairs
CHECK_DEADLOCK FALSE
