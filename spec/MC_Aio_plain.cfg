SPECIFICATION MCSpec
CONSTANTS
 N = 2
 Auth = FALSE
 Enc = FALSE
 Chunked = FALSE
 Variant = "select"
 MACLEN = 2
 BLK = 2
 BUFSZ = 12
 Delim = 63
 NoVal <- NoValMC
 Rcv = 1
 Prog <- Prog1_3
 MaxFault = 0
 Kinds <- AllKinds
 Scheds = {1,3}
 ArrSize = 0
 TagNL <- NoTagNL
 IvNL = {}
INVARIANTS InOrderI CompleteAlways AuthSafeI NothingForged FramesFit 
PROPERTIES StoppedStays
CHECK_DEADLOCK FALSE
