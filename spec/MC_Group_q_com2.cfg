SPECIFICATION Spec
CONSTANTS
 MaxP = 23
 MaxQ = 11
 MaxK = 3
 Margin = 4
 Variants <- A_comq
 NaiveMaxP = 0
 NaiveVariants <- None
 AccMaxP = 13
 NbrMaxP = 23
 NbrVariants <- N_comq
 Mode = "nbr"
 CheckArith = FALSE
 SortedBases = TRUE
INVARIANTS BlockIsDefinition BlockSound Sound Complete Shape Elements Emit
CHECK_DEADLOCK FALSE
