SPECIFICATION Spec
CONSTANTS
 Tier = "quick"
 Ops = {"verify", "decrypt", "check"}
 MaxPrime = 31
INVARIANTS Theorems Emit
CHECK_DEADLOCK FALSE
