SPECIFICATION Spec
CONSTANTS
 MaxP = 90
 MaxQ = 45
 MaxK = 10
 Margin = 4
 Variants <- V_small
 NaiveMaxP = 23
 Mode = "nbr"
 CheckArith = TRUE
INVARIANTS BlockIsDefinition Sound Complete Shape Elements Emit
CHECK_DEADLOCK FALSE
