---------------------------- MODULE MC_PGPMsgSym ----------------------------
(* Exhaustive exploration of the symbolic model of PGPMsg.tla: an attacker  *)
(* who holds a signed object / an encrypted message and no secret key       *)
(* applies up to Depth alterations; whatever the receiver accepts must be    *)
(* the original (property C20, "tamper-evident").                            *)
(*   Mode "sig":  all signature kinds x algorithms; alterations = any class  *)
(*                of the signature packet, of the key packet, any part of    *)
(*                the signed object, and "fixleft" (the attacker recomputes  *)
(*                the public left-16-bits field for the altered content).    *)
(*   Mode "seipd": alterations of the classes of an SEIPD packet, MDC        *)
(*                recomputed by the attacker over altered plaintext is NOT   *)
(*                possible without the session key (CFB), but stripping the  *)
(*                MDC and relabelling the packet as SED (tag 9) is.          *)
(*   Mode "aead": messages of 1..MaxChunks chunks of Full blocks; the        *)
(*                attacker swaps, drops, duplicates chunks, copies single    *)
(*                blocks and tags between positions, replaces the final tag. *)
(*                NonceRule = "rfc" must satisfy the invariant; NonceRule =  *)
(*                "cumulative" (nonce(i) = nonce(i-1) xor i, so nonce(3) =   *)
(*                nonce(0)) must violate it: the model sees nonce reuse.     *)
EXTENDS PGPMsg, TLC

CONSTANTS Modes,        \* set of modes explored by this run (one JVM serves several)
          Depth,        \* function mode -> number of alterations
          NonceRule, MaxChunks, Full
VARIABLES mode, st, steps
Depths3 == [sig |-> 3, seipd |-> 4, aead |-> 2]
Depths4 == [sig |-> 4, seipd |-> 5, aead |-> 3]

(* ------------------------------------------------------------------ sig *)
SigInit == \E kind \in SigKinds, pk \in SigPkAlgos :
             st = [kind |-> kind, pk |-> pk, w |-> World0(kind, pk), touched |-> {}]
CurDigest(s) == Digest(s.w.sig["hashalgo"], HashInputOf(s.kind, s.pk, s.w))
SigNext ==
  \/ \E f \in SigClasses \ st.touched :
       st' = [st EXCEPT !.w = TamperSig(st.w, f), !.touched = @ \cup {f}]
  \/ \E f \in ClassesOf(KeyGrammar(st.pk)) : ("key:" \o f) \notin st.touched /\
       st' = [st EXCEPT !.w = TamperKey(st.w, f), !.touched = @ \cup {"key:" \o f}]
  \/ \E p \in ObjParts(st.kind) : ("obj:" \o p) \notin st.touched /\
       st' = [st EXCEPT !.w = TamperObj(st.w, p), !.touched = @ \cup {"obj:" \o p}]
  \/ /\ "fixleft" \notin st.touched
     /\ st' = [st EXCEPT !.w.sig["left"] = Left16Of(CurDigest(st)), !.touched = @ \cup {"fixleft"}]
SigHarmless == UnclaimedSig \cup {"fixleft", "left"}     \* "left" + "fixleft" on otherwise untouched content restores it
SigInv ==
  /\ (st.touched = {} => Accept(st.kind, st.pk, st.w))
  /\ (Accept(st.kind, st.pk, st.w) =>
        /\ st.touched \subseteq SigHarmless
        /\ \A p \in ObjParts(st.kind) : st.w.obj[p] = Orig(p)                       \* the object is the signed one
        /\ \A f \in HashedSigClasses : st.w.sig[f] = Orig(f)                        \* and so is every hashed field
        /\ KeyBody(st.pk, st.w.key) = KeyBody(st.pk, Key0(st.pk)))

(* ---------------------------------------------------------------- seipd *)
SeipdInit == st = [m |-> Seipd0, touched |-> {}]
SeipdNext ==
  \/ \E f \in ClassesOf(SeipdGrammar(9, 1)) \ st.touched :
       st' = [st EXCEPT !.m = SeipdTamper(st.m, f), !.touched = @ \cup {f}]
  \/ "sed" \notin st.touched /\ st' = [st EXCEPT !.m.kind = "sed", !.touched = @ \cup {"sed"}]
SeipdInv == /\ (st.touched = {} => SeipdAccept(st.m))
            /\ (SeipdAccept(st.m) => st.touched = {})

(* ----------------------------------------------------------------- aead *)
(* plaintext block of chunk k: the value k (so xor-sums of two chunks can collide, as real plaintext can) *)
PtsOf(n, last) == Tup([k \in 1..n |-> Rep(k, IF k = n THEN last ELSE Full)])
AeadInit == \E n \in 1..MaxChunks, last \in 1..Full :
              st = [pts |-> PtsOf(n, last), m |-> SealMessage(NonceRule, PtsOf(n, last))]
NC == Len(st.m.chunks)
CutAt(s, k) == SubSeq(s, 1, k - 1) \o SubSeq(s, k + 1, Len(s))
PutAt(s, k, x) == SubSeq(s, 1, k) \o <<x>> \o SubSeq(s, k + 1, Len(s))
AeadNext ==
  \/ \E a, b \in 1..NC : a < b /\
       st' = [st EXCEPT !.m.chunks = [st.m.chunks EXCEPT ![a] = st.m.chunks[b], ![b] = st.m.chunks[a]]]
  \/ \E a \in 1..NC : st' = [st EXCEPT !.m.chunks = CutAt(st.m.chunks, a)]
  \/ \E a \in 1..NC : NC < MaxChunks + 1 /\ st' = [st EXCEPT !.m.chunks = PutAt(st.m.chunks, a, st.m.chunks[a])]
  \/ \E a, b \in 1..NC : a # b /\ \E p \in 1..Len(st.m.chunks[a].blocks) : p <= Len(st.m.chunks[b].blocks) /\
       st' = [st EXCEPT !.m.chunks[a].blocks[p] = st.m.chunks[b].blocks[p]]          \* copy one block across chunks
  \/ \E a, b \in 1..NC : a # b /\ st' = [st EXCEPT !.m.chunks[a].tag = st.m.chunks[b].tag]
  \/ \E a \in 1..NC : st' = [st EXCEPT !.m.final = st.m.chunks[a].tag]
  \/ \E a \in 1..NC : st' = [st EXCEPT !.m.chunks[a].tag = st.m.final]
  \/ \E a \in 1..NC : \E p \in 1..Len(st.m.chunks[a].blocks) :
       st' = [st EXCEPT !.m.chunks[a].blocks[p].x = Garbage]                          \* alter ciphertext octets
AeadInv ==
  /\ (steps = 0 => OpenMessageOk(NonceRule, Full, st.m) /\ OpenMessage(NonceRule, st.m) = st.pts)
  /\ (OpenMessageOk(NonceRule, Full, st.m) => OpenMessage(NonceRule, st.m) = st.pts)

Init == /\ steps = 0 /\ mode \in Modes
        /\ CASE mode = "sig" -> SigInit [] mode = "seipd" -> SeipdInit [] mode = "aead" -> AeadInit
Next == /\ steps < Depth[mode] /\ steps' = steps + 1 /\ mode' = mode
        /\ CASE mode = "sig" -> SigNext [] mode = "seipd" -> SeipdNext [] mode = "aead" -> AeadNext
Spec == Init /\ [][Next]_<<mode, st, steps>>
TamperEvident == CASE mode = "sig" -> SigInv [] mode = "seipd" -> SeipdInv [] mode = "aead" -> AeadInv
=============================================================================
