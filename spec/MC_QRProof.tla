----------------------------- MODULE MC_QRProof -----------------------------
(***************************************************************************)
(* Exhaustive checks of QRProof.tla in the Blum integers 21 = 3 * 7 and     *)
(* 77 = 7 * 11: every statement, witness, coin and challenge string for the  *)
(* number of rounds Kap.  The first state picks an instance (part, modulus,   *)
(* rounds, small) of the configuration and a statement, the only step picks  *)
(* witness, coins and challenges, and the theorem of the part is an          *)
(* invariant of the states reached.                                          *)
(*                                                                           *)
(*  QRc / MVc / MOc / PZK  completeness with the exact exceptional sets      *)
(*  QRs / MVs / MOs        soundness: the guessing prover is accepted for    *)
(*                         exactly the prepared string (2^-Kap), a witness   *)
(*                         that does not fit for exactly the computed set    *)
(*  QRx / MVx / MOx        one round, EVERY commitment in Z_m: if both       *)
(*                         challenges can be answered the statement is true  *)
(*                         (so no strategy beats the guessing prover)        *)
(*  QRb / MVb / MOb        binding: an accepted run with one transmitted     *)
(*                         value changed (catalogue) is accepted only when   *)
(*                         the value is equivalent (a swap of two lines      *)
(*                         changes two values and can, in these tiny rings,  *)
(*                         form another valid round: it is judged by the     *)
(*                         exact verdict in QRProofTrace only)               *)
(*  Card                   mask card / opening of a card at card level       *)
(*  GapD4                  the property's demand where the protocol as       *)
(*                         implemented falls short (a mask that changes the  *)
(*                         type is refused): TLC must FIND a counterexample  *)
(***************************************************************************)
EXTENDS QRProof, TLC
CONSTANT Insts                 \* the instances of this run: tuples <<part, modulus, rounds, small>>
VARIABLES pt, a, x, ph
vars == <<pt, a, x, ph>>
Part == pt[1]
Modulus == pt[2]
Kap == pt[3]
Small == pt[4]                 \* TRUE: coins and statements from a subset (named where it is used)

K21 == [m |-> 21, y |-> 5, p |-> 3, q |-> 7]      \* 5 is a non-residue mod 3 and mod 7
K77 == [m |-> 77, y |-> 6, p |-> 7, q |-> 11]     \* 6 is a non-residue mod 7 and mod 11
K21sq == [m |-> 21, y |-> 4, p |-> 3, q |-> 7]    \* a key whose y IS a square (the false statement of the PZK proof)
K77sq == [m |-> 77, y |-> 4, p |-> 7, q |-> 11]
Key == IF Modulus = 21 THEN K21 ELSE K77
KeySq == IF Modulus = 21 THEN K21sq ELSE K77sq
M == Key.m
U == Units(M)
U1 == U \ {1}                                      \* what the provers' sampler keeps
Us == IF Small THEN {u \in U1 : u <= 6 \/ u = M - 1 \/ u = M - 2} ELSE U1
Zm == 0..(M - 1)
BitStr == [1..Kap -> {0, 1}]
Seqs(S) == [1..Kap -> S]

CoinsM(rs) == [i \in 1..Len(rs) |-> [k |-> "m", v |-> rs[i], mod |-> M]]
CoinsBM(bs, rs) == [j \in 1..(2 * Len(rs)) |-> IF j % 2 = 1 THEN [k |-> "b", v |-> bs[(j + 1) \div 2]]
                                                 ELSE [k |-> "m", v |-> rs[j \div 2], mod |-> M]]
CoinsB(ch) == [i \in 1..Len(ch) |-> [k |-> "b", v |-> ch[i]]]
Lv(ch) == <<Kap>> \o ch                            \* what an accepting verifier writes

StmtSet ==
  CASE Part \in {"QRc", "QRb"} -> {[t |-> t] : t \in J1set(Key)}
    [] Part = "QRs" -> {[t |-> t] : t \in J1set(Key)}
    [] Part = "QRx" -> {[t |-> t] : t \in Zm}
    [] Part \in {"MVc", "MVb"} -> {[z |-> z] : z \in IF Small THEN {1, Key.y, 2} ELSE U}
    [] Part = "MVs" -> {[z |-> z, zz |-> zz] : z \in (IF Small THEN {1, Key.y, 2} ELSE U), zz \in U}
    [] Part = "MVx" -> {[z |-> z, zz |-> zz] : z \in (IF Small THEN {0, 1, 2, Key.y, Key.p, Key.q} ELSE Zm), zz \in Zm}
    [] Part \in {"MOc", "MOb"} -> {[b |-> b] : b \in {0, 1}}
    [] Part = "MOs" -> {[t |-> t] : t \in U}
    [] Part = "MOx" -> {[t |-> t] : t \in Zm}
    [] Part = "PZK" -> {[key |-> k] : k \in {Key, KeySq}}
    [] Part \in {"Card", "GapD4"} -> {[t |-> t] : t \in 0..1}
Init == pt \in Insts /\ a \in StmtSet /\ x = <<>> /\ ph = 0

RSetK(k) == IF k = 1 THEN (IF Small THEN {2, 20} ELSE {2, 5, 20}) ELSE (IF Small THEN {3, 76} ELSE {2, 3, 76})   \* witnesses / coins of the card-level part
CardKeys == <<K21, K77>>
Next ==
  /\ ph = 0 /\ ph' = 1 /\ a' = a /\ pt' = pt
  /\ CASE Part \in {"QRc", "QRb"} ->
            \E root \in Roots(IF IsQR(a.t, Key) THEN a.t ELSE NQRBar(Key, a.t), Key), rs \in Seqs(Us), ch \in BitStr,
               mu \in (IF Part = "QRb" THEN {"plus1", "neg", "minus", "zero", "one", "mm1", "m", "nonunit", "over"} ELSE {"none"}),
               pos \in (IF Part = "QRb" THEN 1..(3 * Kap + 1) ELSE {0}) :
              x' = [root |-> root, rs |-> rs, ch |-> ch, mu |-> mu, pos |-> pos]
       [] Part = "QRs" -> \E g \in BitStr, us \in Seqs(Us), ch \in BitStr : x' = [g |-> g, us |-> us, ch |-> ch]
       [] Part = "QRx" -> \E R \in Zm, S \in Zm : QRComOK(Key, a.t, R, S) /\ x' = [R |-> R, S |-> S]
       [] Part \in {"MVc", "MVb"} ->
            \E r \in U, b \in {0, 1}, rs \in Seqs(Us), bs \in BitStr, ch \in BitStr,
               mu \in (IF Part = "MVb" THEN {"plus1", "neg", "minus", "zero", "one", "mm1", "m", "nonunit", "over"} ELSE {"none"}),
               pos \in (IF Part = "MVb" THEN 1..(3 * Kap) ELSE {0}) :
              x' = [r |-> r, b |-> b, rs |-> rs, bs |-> bs, ch |-> ch, mu |-> mu, pos |-> pos]
       [] Part = "MVs" ->
            \E r \in (IF Small THEN {2, M - 1, 5} ELSE U), b \in {0, 1}, g \in BitStr, rs \in Seqs(Us), bs \in BitStr, ch \in BitStr :
              x' = [r |-> r, b |-> b, g |-> g, rs |-> rs, bs |-> bs, ch |-> ch]
       [] Part = "MVx" -> \E T \in Zm : x' = [T |-> T]
       [] Part \in {"MOc", "MOb"} ->
            \E r \in U, rs \in Seqs(Us), bs \in BitStr, ch \in BitStr,
               mu \in (IF Part = "MOb" THEN {"plus1", "neg", "minus", "zero", "one", "mm1", "m", "nonunit", "over"} ELSE {"none"}),
               pos \in (IF Part = "MOb" THEN 1..(4 * Kap) ELSE {0}) :
              x' = [r |-> r, rs |-> rs, bs |-> bs, ch |-> ch, mu |-> mu, pos |-> pos]
       [] Part = "MOs" ->
            \E r \in (IF Small THEN {2, M - 1, 5} ELSE U), b \in {0, 1}, g \in BitStr, rs \in Seqs(Us), bs \in BitStr, ch \in BitStr :
              x' = [r |-> r, b |-> b, g |-> g, rs |-> rs, bs |-> bs, ch |-> ch]
       [] Part = "MOx" -> \E R \in Zm, S \in Zm : MOComOK(Key, a.t, R, S) /\ x' = [R |-> R, S |-> S]
       [] Part = "PZK" ->
            \E b \in Seqs({0, 1}), r \in Seqs(U), bi \in Seqs({0, 1}), ri \in Seqs(Us), ch \in BitStr :
              x' = [b |-> b, r |-> r, bi |-> bi, ri |-> ri, ch |-> ch]
       [] Part \in {"Card", "GapD4"} ->
            \E b1 \in {0, 1}, b2 \in {0, 1}, r1 \in RSetK(1), r2 \in RSetK(2), c1 \in RSetK(1), c2 \in RSetK(2),
               d1 \in {0, 1}, d2 \in {0, 1}, ch \in [1..2 -> {0, 1}], idx \in 1..2 :
              x' = [sec |-> [r |-> <<<<r1>>, <<r2>>>>, b |-> <<<<b1>>, <<b2>>>>], rs |-> <<c1, c2>>, bs |-> <<d1, d2>>, ch |-> ch, idx |-> idx]
Spec == Init /\ [][Next]_vars

KeysOK == KeyOK(K21) /\ KeyOK(K77) /\ YisNQR(K21) /\ YisNQR(K77) /\ IsQR(K21sq.y, K21sq) /\ IsQR(K77sq.y, K77sq)
          /\ \A i \in Insts : i[2] \in {21, 77} /\ i[3] \in 1..MaxRounds /\ i[4] \in BOOLEAN
\* structure facts the other theorems lean on
Structure(key) ==
  /\ \A t \in QRset(key) : Cardinality(Roots(t, key)) = 4
  /\ \A t \in J1set(key) : IsQR(t, key) # IsQR(NQRBar(key, t), key)             \* exactly one of t, t / y is a square
  /\ \A z \in Units(key.m), zz \in Units(key.m) : MVTrue(key, z, zz) <=> MVTrueJ(key, z, zz)
  /\ \A t \in 0..(key.m - 1) : MOTrue(key, t) <=> MOTrueJ(key, t)

ASSUME KeysOK /\ Structure(K21) /\ Structure(K77)

MutCat(v, kind) ==
  CASE kind = "plus1" -> v + 1 [] kind = "neg" -> M - (v % M) [] kind = "minus" -> -v [] kind = "zero" -> 0
    [] kind = "one" -> 1 [] kind = "mm1" -> M - 1 [] kind = "m" -> M [] kind = "nonunit" -> Key.p [] kind = "over" -> v + M
MutSeq(s, pos, kind) ==
  IF kind = "none" \/ pos > Len(s) THEN s
  ELSE IF kind = "swap" THEN (IF pos < Len(s) THEN [s EXCEPT ![pos] = s[pos + 1], ![pos + 1] = s[pos]] ELSE SubSeq(s, 1, pos - 1))
  ELSE [s EXCEPT ![pos] = MutCat(@, kind)]

(***************************************************************************)
(* QR / NQR                                                                  *)
(***************************************************************************)
QRcThm ==
  LET isq == IsQR(a.t, Key)
      L == Lv(x.ch)
      pr == IF isq THEN PQR(Key, a.t, x.root, L, CoinsM(x.rs), S0) ELSE PNQR(Key, a.t, x.root, L, CoinsM(x.rs), S0)
      ab == \E i \in 1..Kap : x.rs[i] = x.root
      \* after an assertion the log of draws ends with the coin that triggered it
      fa == Min({i \in 1..Kap : x.rs[i] = x.root})
      pra == IF isq THEN PQR(Key, a.t, x.root, L, CoinsM(SubSeq(x.rs, 1, fa)), S0) ELSE PNQR(Key, a.t, x.root, L, CoinsM(SubSeq(x.rs, 1, fa)), S0)
      vrun(p) == IF isq THEN VQR(Key, a.t, Kap, p.out, CoinsB(x.ch), S0) ELSE VNQR(Key, a.t, Kap, p.out, CoinsB(x.ch), S0)
  IN IF ab THEN pra.st = "abort" /\ pra.one /\ vrun(pra).st = "exc"                    \* D1: the only way an honest proof fails
     ELSE /\ pr.st = "ok" /\ ~pr.one /\ Len(pr.out) = 3 * Kap + (IF isq THEN 0 ELSE 1)
          /\ vrun(pr).st = "ok" /\ vrun(pr).out = L /\ vrun(pr).ci = Kap + 1
          \* the wrong proof for the statement is refused at once: before any challenge is drawn
          /\ (IF isq THEN VNQR(Key, a.t, Kap, pr.out, CoinsB(x.ch), S0) ELSE VQR(Key, a.t, Kap, pr.out, CoinsB(x.ch), S0)).st # "ok" \/ Kap = 0

QRsThm ==      \* the claim is false: QR claimed for a non-square, NQR claimed for a square
  LET isq == IsQR(a.t, Key)
      L == Lv(x.ch)
      pr == IF isq THEN PGuessNQR(Key, a.t, x.g, L, CoinsM(x.us), S0) ELSE PGuessQR(Key, a.t, x.g, L, CoinsM(x.us), S0)
      vr == IF isq THEN VNQR(Key, a.t, Kap, pr.out, CoinsB(x.ch), S0) ELSE VQR(Key, a.t, Kap, pr.out, CoinsB(x.ch), S0)
  IN /\ pr.st = "ok"
     /\ (vr.st = "ok") <=> (x.ch = x.g)
     /\ vr.st \in {"ok", "rej"}
     \* refused in the first round whose challenge differs from the guess
     /\ (x.ch # x.g) => vr.ci = Min({i \in 1..Kap : x.ch[i] # x.g[i]}) + 1

QRxThm ==      \* special soundness of one round, for every commitment with R S = t
  LET can(c) == \E v \in 0..(2 * M - 1) : QRAnsOK(Key, x.R, x.S, c, v)
  IN (Jac(a.t, Key) = 1 /\ can(0) /\ can(1)) => QRTrue(Key, a.t)

QRbThm ==
  LET isq == IsQR(a.t, Key)
      L == Lv(x.ch)
      pr == IF isq THEN PQR(Key, a.t, x.root, L, CoinsM(x.rs), S0) ELSE PNQR(Key, a.t, x.root, L, CoinsM(x.rs), S0)
      rl == MutSeq(pr.out, x.pos, x.mu)
      vr == IF isq THEN VQR(Key, a.t, Kap, rl, CoinsB(x.ch), S0) ELSE VNQR(Key, a.t, Kap, rl, CoinsB(x.ch), S0)
      off(p) == IF isq THEN p ELSE p - 1
      eq(p) == IF p > Len(pr.out) \/ p > Len(rl) THEN FALSE
               ELSE IF off(p) = 0 THEN pr.out[p] % M = rl[p] % M
               ELSE IF off(p) <= 2 * Kap THEN pr.out[p] % M = rl[p] % M      \* D2: the side that is not revealed only enters R S = t
               ELSE Sq(pr.out[p], M) = Sq(rl[p], M) /\ rl[p] # 1
  IN (pr.st = "ok" /\ x.pos <= Len(pr.out) /\ vr.st = "ok") => eq(x.pos)

(***************************************************************************)
(* MaskValue                                                                 *)
(***************************************************************************)
MVcThm ==
  LET zz == Mask(Key, a.z, x.r, x.b)
      L == Lv(x.ch)
      pr == PMV(Key, a.z, zz, x.r, x.b, L, CoinsBM(x.bs, x.rs), S0)
      vr == VMV(Key, a.z, zz, Kap, pr.out, CoinsB(x.ch), S0)
      bad == \E i \in 1..Kap : x.ch[i] = 0 /\ MVAns(Key, x.r, x.b, x.rs[i], x.bs[i], 0)[1] = 1
  IN IF a.z = zz THEN pr.st = "abort"                                                   \* D3
     ELSE /\ pr.st = "ok" /\ pr.one = bad
          /\ (vr.st = "ok") <=> ~bad                                                     \* D1
          /\ vr.st \in {"ok", "rej"}
          /\ (vr.st = "ok") => vr.out = L

MVsThm ==
  LET L == Lv(x.ch)
      C == CoinsBM(x.bs, x.rs)
      falseStmt == Jac(a.z, Key) # Jac(a.zz, Key)
      \* (i) no masking leads from z to zz: the guessing prover
      pg == PGuessMV(Key, a.z, a.zz, x.g, L, C, S0)
      vg == VMV(Key, a.z, a.zz, Kap, pg.out, CoinsB(x.ch), S0)
      \* (ii) zz is a masking of z, the prover runs the protocol with another pair (r, b)
      zm == Mask(Key, a.z, x.r, x.b)
      fits == Mask(Key, a.z, x.r, x.b) = a.zz
      pw == PMV(Key, a.z, a.zz, x.r, x.b, L, C, S0)
      vw == VMV(Key, a.z, a.zz, Kap, pw.out, CoinsB(x.ch), S0)
      okw(i) == x.ch[i] = 1 \/ (fits /\ MVAns(Key, x.r, x.b, x.rs[i], x.bs[i], 0)[1] # 1)
  IN /\ falseStmt => ((vg.st = "ok") <=> (x.ch = x.g))
     /\ (a.z # a.zz) => ((vw.st = "ok") <=> \A i \in 1..Kap : okw(i))

\* one round, every commitment T in Z_m, every pair (z, zz) in Z_m: both challenges answerable => a masking exists
MVcan(z, zz, T, c) == \E v \in Zm, bit \in {0, 1} : MVAnsOK(Key, z, zz, T, c, v, bit)
MVxThm == (MVcan(a.z, a.zz, x.T, 0) /\ MVcan(a.z, a.zz, x.T, 1)) => MVTrue(Key, a.z, a.zz)

MVbThm ==
  LET zz == Mask(Key, a.z, x.r, x.b)
      L == Lv(x.ch)
      pr == PMV(Key, a.z, zz, x.r, x.b, L, CoinsBM(x.bs, x.rs), S0)
      rl == MutSeq(pr.out, x.pos, x.mu)
      vr == VMV(Key, a.z, zz, Kap, rl, CoinsB(x.ch), S0)
      eq(p) == IF p > Len(pr.out) \/ p > Len(rl) THEN FALSE
               ELSE IF p <= Kap THEN pr.out[p] = rl[p]
               ELSE IF (p - Kap) % 2 = 1 THEN Sq(pr.out[p], M) = Sq(rl[p], M) /\ rl[p] # 1
               ELSE pr.out[p] % 2 = rl[p] % 2
  IN (pr.st = "ok" /\ x.pos <= Len(pr.out) /\ vr.st = "ok") => eq(x.pos)

(***************************************************************************)
(* MaskOne                                                                   *)
(***************************************************************************)
MOcThm ==
  LET t == Mask(Key, 1, x.r, a.b)
      L == Lv(x.ch)
      pr == PMO(Key, x.r, a.b, L, CoinsBM(x.bs, x.rs), S0)
      vr == VMO(Key, t, Kap, pr.out, CoinsB(x.ch), S0)
      ans(i) == MOAns(Key, x.r, a.b, x.rs[i], x.bs[i], x.ch[i])
      bad == \E i \in 1..Kap : ans(i)[1] = 1
      \* D5: the parity of the revealed root's square decides instead of the bit
      coded == \A i \in 1..Kap : ans(i)[1] # 1 /\ (Sq(ans(i)[1], M) % 2 = ans(i)[2])
  IN /\ pr.st = "ok" /\ pr.one = bad /\ vr.st \in {"ok", "rej"}
     /\ \A i \in 1..Kap : MOComOK(Key, t, pr.out[2 * i - 1], pr.out[2 * i])
     /\ (vr.st = "ok") <=> (IF MaskOneAsCoded THEN coded ELSE ~bad)

MOsThm ==
  LET L == Lv(x.ch)
      C == CoinsBM(x.bs, x.rs)
      pg == PGuessMO(Key, a.t, x.g, L, C, S0)
      vg == VMO(Key, a.t, Kap, pg.out, CoinsB(x.ch), S0)
      fits == Mask(Key, 1, x.r, x.b) = a.t
      pw == PMO(Key, x.r, x.b, L, C, S0)
      vw == VMO(Key, a.t, Kap, pw.out, CoinsB(x.ch), S0)
  IN /\ (Jac(a.t, Key) = -1 /\ ~MaskOneAsCoded) => ((vg.st = "ok") <=> (x.ch = x.g))
     /\ (Jac(a.t, Key) = -1 /\ MaskOneAsCoded) => ((vg.st = "ok") => (x.ch = x.g))
     /\ (~fits /\ Kap > 0) => (vw.st = "rej" /\ vw.ci = 1)              \* R S = t fails before any challenge

MOcan(c) == \E v \in Zm, bit \in {0, 1} : MOAnsOK(Key, x.R, x.S, c, v, bit)
MOxThm == (MOcan(0) /\ MOcan(1)) => MOTrue(Key, a.t)

MObThm ==
  LET t == Mask(Key, 1, x.r, a.b)
      L == Lv(x.ch)
      pr == PMO(Key, x.r, a.b, L, CoinsBM(x.bs, x.rs), S0)
      rl == MutSeq(pr.out, x.pos, x.mu)
      vr == VMO(Key, t, Kap, rl, CoinsB(x.ch), S0)
      eq(p) == IF p > Len(pr.out) \/ p > Len(rl) THEN FALSE
               ELSE IF p <= 2 * Kap THEN pr.out[p] % M = rl[p] % M
               ELSE IF (p - 2 * Kap) % 2 = 1 THEN Sq(pr.out[p], M) = Sq(rl[p], M) /\ rl[p] # 1
               ELSE MaskOneAsCoded \/ pr.out[p] % 2 = rl[p] % 2                       \* D5
  IN (x.pos <= Len(pr.out) /\ vr.st = "ok") => eq(x.pos)

(***************************************************************************)
(* y is no square (perfect zero knowledge); the inner MaskOne runs Kap rounds too *)
(***************************************************************************)
PZKCoinsV == LET per(i) == <<[k |-> "b", v |-> x.b[i]], [k |-> "m", v |-> x.r[i], mod |-> M]>> \o
                            <<[k |-> "b", v |-> x.bi[i]], [k |-> "m", v |-> x.ri[i], mod |-> M]>>
                 RECURSIVE Cat(_)
                 Cat(i) == IF i > Kap THEN <<>> ELSE per(i) \o Cat(i + 1)
             IN Cat(1)
\* with Kap = 1 the two parties' lines can be computed in order: kappa, x, kappa', (R, S), c, (v, bit), answer
PZKThm ==
  LET key == a.key
      xv == Mask(key, 1, x.r[1], x.b[1])
      k == MOCom(key, x.r[1], x.b[1], x.ri[1], x.bi[1])
      an == MOAns(key, x.r[1], x.b[1], x.ri[1], x.bi[1], x.ch[1])
      inner == MOAnsOK(key, k.R, k.S, x.ch[1], an[1], an[2])
      LP == <<1, xv, k.R, k.S, an[1], an[2]>>                                 \* what the prover reads
      pr == PPZK(key, 1, LP, CoinsB(x.ch), S0)
      LVf == <<1, x.ch[1], PZKAnswer(key, xv)>>                               \* what the verifier reads when the inner proof passes
      vr == VPZK(key, 1, IF inner THEN LVf ELSE <<1, x.ch[1]>>, PZKCoinsV, S0)
  IN Kap = 1 =>
       /\ pr.out = (IF inner THEN LVf ELSE <<1, x.ch[1]>>) /\ vr.out = LP
       /\ ~inner => vr.st = "exc"                                               \* the prover stopped: nothing to read
       /\ (inner /\ YisNQR(key)) => vr.st = "ok"                                \* y is no square: always convinced
       /\ (inner /\ ~YisNQR(key)) => ((vr.st = "ok") <=> x.b[1] = 0)            \* y a square: convinced iff the hidden bit was 0
       /\ ~MaskOneAsCoded => (inner <=> an[1] # 1)

(***************************************************************************)
(* card level, two players (m = 21, m = 77), one type bit, one round         *)
(***************************************************************************)
CardC == OpenCard(CardKeys, 1, a.t)
CardCC == MaskCard(CardKeys, CardC, x.sec)
CardCoinsP == <<[k |-> "b", v |-> x.bs[1]], [k |-> "m", v |-> x.rs[1], mod |-> 21], [k |-> "b", v |-> x.bs[2]], [k |-> "m", v |-> x.rs[2], mod |-> 77]>>
CardMaskRun ==
  LET L == <<1, x.ch[1], 1, x.ch[2]>>
      pr == PMaskCard(CardKeys, CardC, CardCC, x.sec, L, CardCoinsP, S0)
      vr == VMaskCard(CardKeys, CardC, CardCC, 1, pr.out, CoinsB(x.ch), S0)
  IN [pr |-> pr, vr |-> vr]
CardThm ==
  LET run == CardMaskRun
      key == CardKeys[x.idx]
      row == CardCC[x.idx]
      root == CHOOSE s \in Roots(IF IsQR(row[1], key) THEN row[1] ELSE NQRBar(key, row[1]), key) : TRUE
      r0 == x.rs[x.idx]
      L == <<1, x.ch[1]>>
      C == <<[k |-> "m", v |-> r0, mod |-> key.m]>>
      po == PCardSecret(key, row, <<root>>, L, C, S0)
      vo == VCardSecret(key, row, 1, po.out, CoinsB(<<x.ch[1]>>), S0)
      pl == PCardSecretLie(key, row, <<root>>, 1, <<x.ch[2]>>, L, C, S0)
      vl == VCardSecret(key, row, 1, pl.out, CoinsB(<<x.ch[1]>>), S0)
  IN \* D4: the mask proof is accepted whether or not the secret preserves the type (unless D1 / D3 strike)
     /\ (run.pr.st = "ok" /\ ~run.pr.one) => run.vr.st = "ok"
     /\ (run.pr.st = "abort") <=> (\E k \in 1..2 : CardCC[k][1] = CardC[k][1])
     /\ NeutralSecret(x.sec) <=> (TypeOfCard(CardKeys, CardCC) = TypeOfCard(CardKeys, CardC))
     \* opening of a row: accepted unless the coin hits the root; the stored bit is the residuosity bit
     /\ (r0 # root) => (vo.st = "ok" /\ VCSBits(key, row, 1, po.out, CoinsB(<<x.ch[1]>>), 1, S0) = RowBits(key, row))
     /\ (r0 = root) => (po.st = "abort" /\ vo.st = "exc")
     \* an opening that claims the other bit: accepted iff the challenge is the prepared one
     /\ (vl.st = "ok") <=> (x.ch[1] = x.ch[2])
\* what the property demands (a mask that changes the type is refused); TLC must find the counterexample
GapD4Thm ==
  LET run == CardMaskRun IN
  (run.vr.st = "ok") => (TypeOfCard(CardKeys, CardCC) = TypeOfCard(CardKeys, CardC))

Thm ==
  ph = 1 =>
    CASE Part = "QRc" -> QRcThm [] Part = "QRs" -> QRsThm [] Part = "QRx" -> QRxThm [] Part = "QRb" -> QRbThm
      [] Part = "MVc" -> MVcThm [] Part = "MVs" -> MVsThm [] Part = "MVx" -> MVxThm [] Part = "MVb" -> MVbThm
      [] Part = "MOc" -> MOcThm [] Part = "MOs" -> MOsThm [] Part = "MOx" -> MOxThm [] Part = "MOb" -> MObThm
      [] Part = "PZK" -> PZKThm [] Part = "Card" -> CardThm
      [] Part = "GapD4" -> GapD4Thm
\* ---- the instance sets of the configurations MC_QRProof_<name>.cfg (q: quick tier, t: thorough, d: MaskOne as defined)
Insts_C01_q ==
  {<<"Card", 21, 1, TRUE>>}
Insts_C03_q ==
  {<<"QRc", 21, 1, FALSE>>,
   <<"MVc", 21, 1, FALSE>>,
   <<"MOc", 21, 1, FALSE>>,
   <<"PZK", 21, 1, FALSE>>,
   <<"QRc", 21, 2, TRUE>>,
   <<"MVc", 21, 2, TRUE>>,
   <<"MOc", 21, 2, TRUE>>,
   <<"QRc", 77, 1, TRUE>>,
   <<"MVc", 77, 1, TRUE>>,
   <<"MOc", 77, 1, TRUE>>,
   <<"PZK", 77, 1, TRUE>>}
Insts_C03_qd ==
  {<<"MOc", 21, 1, FALSE>>,
   <<"PZK", 21, 1, FALSE>>,
   <<"MOc", 21, 2, TRUE>>}
Insts_C04_q ==
  {<<"QRs", 21, 1, FALSE>>,
   <<"QRx", 21, 1, FALSE>>,
   <<"MVx", 21, 1, FALSE>>,
   <<"MOs", 21, 1, FALSE>>,
   <<"MOx", 21, 1, FALSE>>,
   <<"Card", 21, 1, TRUE>>,
   <<"MVs", 21, 1, TRUE>>,
   <<"QRs", 21, 2, TRUE>>,
   <<"QRs", 77, 1, TRUE>>,
   <<"QRx", 77, 1, TRUE>>,
   <<"MVs", 77, 1, TRUE>>}
Insts_C04_qd ==
  {<<"MOs", 21, 1, FALSE>>,
   <<"MOx", 21, 1, FALSE>>}
Insts_C04_gap ==
  {<<"GapD4", 21, 1, FALSE>>}
Insts_C05_q ==
  {<<"QRb", 21, 1, FALSE>>,
   <<"MOb", 21, 1, FALSE>>,
   <<"MVb", 21, 1, TRUE>>,
   <<"QRb", 77, 1, TRUE>>}
Insts_C05_qd ==
  {<<"MOb", 21, 1, FALSE>>}
Insts_C03_t ==
  {<<"QRc", 21, 1, FALSE>>,
   <<"MVc", 21, 1, FALSE>>,
   <<"MOc", 21, 1, FALSE>>,
   <<"PZK", 21, 1, FALSE>>,
   <<"QRc", 21, 2, FALSE>>,
   <<"MVc", 21, 2, FALSE>>,
   <<"MOc", 21, 2, FALSE>>,
   <<"QRc", 21, 3, FALSE>>,
   <<"QRc", 77, 1, FALSE>>,
   <<"MOc", 77, 1, FALSE>>,
   <<"PZK", 77, 1, FALSE>>,
   <<"MVc", 77, 1, TRUE>>,
   <<"QRc", 77, 2, TRUE>>,
   <<"MVc", 77, 2, TRUE>>,
   <<"MOc", 77, 2, TRUE>>}
Insts_C03_td ==
  {<<"MOc", 21, 1, FALSE>>,
   <<"PZK", 21, 1, FALSE>>,
   <<"MOc", 21, 2, FALSE>>,
   <<"MOc", 77, 1, FALSE>>,
   <<"PZK", 77, 1, FALSE>>}
Insts_C04_t ==
  {<<"QRs", 21, 1, FALSE>>,
   <<"QRx", 21, 1, FALSE>>,
   <<"MVx", 21, 1, FALSE>>,
   <<"MVs", 21, 1, FALSE>>,
   <<"MOs", 21, 1, FALSE>>,
   <<"MOx", 21, 1, FALSE>>,
   <<"Card", 21, 1, FALSE>>,
   <<"QRs", 21, 2, FALSE>>,
   <<"MOs", 21, 2, FALSE>>,
   <<"MVs", 21, 2, TRUE>>,
   <<"QRs", 21, 3, TRUE>>,
   <<"QRs", 77, 1, FALSE>>,
   <<"QRx", 77, 1, FALSE>>,
   <<"MOx", 77, 1, FALSE>>,
   <<"MVx", 77, 1, TRUE>>,
   <<"MVs", 77, 1, TRUE>>,
   <<"QRs", 77, 2, TRUE>>}
Insts_C04_td ==
  {<<"MOs", 21, 1, FALSE>>,
   <<"MOx", 21, 1, FALSE>>,
   <<"MOs", 21, 2, TRUE>>,
   <<"MOx", 77, 1, FALSE>>,
   <<"MOs", 77, 1, TRUE>>}
Insts_C05_t ==
  {<<"QRb", 21, 1, FALSE>>,
   <<"MVb", 21, 1, FALSE>>,
   <<"MOb", 21, 1, FALSE>>,
   <<"QRb", 21, 2, FALSE>>,
   <<"MVb", 21, 2, TRUE>>,
   <<"MOb", 21, 2, TRUE>>,
   <<"QRb", 77, 1, FALSE>>,
   <<"MVb", 77, 1, TRUE>>,
   <<"MOb", 77, 1, TRUE>>}
Insts_C05_td ==
  {<<"MOb", 21, 1, FALSE>>,
   <<"MOb", 21, 2, TRUE>>,
   <<"MOb", 77, 1, TRUE>>}
=============================================================================
