SPECIFICATION ToySpec
CONSTANTS
 Tier = "thorough"
 Ops = {"verify", "decrypt", "check"}
 MaxPrime = 47
INVARIANT ToyEmit
CHECK_DEADLOCK FALSE
