INIT InitRuns
NEXT NextRuns
INVARIANTS InvRuns
CONSTANTS
 P = 23
 Q = 11
 Gg = 2
 Hh = 3
 Ns = {2, 3}
 CoinSet = {0}
 ChSet <- AllQ
 Wide = FALSE
 PowM <- TabPowM
CHECK_DEADLOCK FALSE
