SPECIFICATION Spec
CONSTANTS
 MaxP = 47
 MaxQ = 23
 MaxK = 7
 Margin = 4
 Variants <- A_twoq
 NaiveMaxP = 11
 NaiveVariants <- D_two
 AccMaxP = 1000
 NbrMaxP = 31
 NbrVariants <- A_twoq
 Mode = "nbr"
 CheckArith = FALSE
 SortedBases = TRUE
INVARIANTS BlockIsDefinition BlockSound Sound Complete Shape Elements Emit
CHECK_DEADLOCK FALSE
