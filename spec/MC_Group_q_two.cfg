SPECIFICATION Spec
CONSTANTS
 MaxP = 47
 MaxQ = 23
 MaxK = 7
 Margin = 4
 Variants <- A_two
 NaiveMaxP = 11
 NaiveVariants <- D_two
 NbrMaxP = 31
 NbrVariants <- N_two
 Mode = "nbr"
 CheckArith = FALSE
 SortedBases = TRUE
INVARIANTS BlockIsDefinition BlockSound Sound Complete Shape Elements Emit
CHECK_DEADLOCK FALSE
