SPECIFICATION Spec
CONSTANTS
 Fam = "powT"
 P <- PQuick
INVARIANTS Theorems Emit
CHECK_DEADLOCK FALSE
