----------------------------- MODULE VTMFTrace -----------------------------
(***************************************************************************)
(* Trace validation of the discrete-log card encoding.  harness/drv_vtmf.cc *)
(* logs every public call on real BarnettSmartVTMF_dlog / SchindelhauerTMCG *)
(* objects in a small Schnorr group: arguments, coins drawn, hash-oracle     *)
(* calls (hook H1), emitted proof text, verdicts, resulting keys and cards.  *)
(* Here every logged value is recomputed from the coins with the operators   *)
(* of VTMF.tla, every verdict is derived from the proof equations and the    *)
(* oracle discipline (the challenge must be the hash of exactly the          *)
(* prescribed tuple), and TLC has to consume the whole log.                  *)
(***************************************************************************)
EXTENDS VTMF, Json, IOUtils, TLC, TLCExt

TraceFile == IF "TRACE" \in DOMAIN IOEnv THEN IOEnv.TRACE ELSE "trace.ndjson"
TraceLog == ndJsonDeserialize(TraceFile)

VARIABLES G,      \* [p, q, g]
          cfg,    \* [np, w, hb, kind, eb]  players, type bits, hash bits, kind of group object, exponent bits (qr)
          pl,     \* pl[i] = [x, hi, h, hj, d, X, fp]  key share, own key, common key, stored foreign keys,
                  \*         decryption accumulator, ghost: sum of the shares behind h, fingerprint id of hi
          fps,    \* fingerprints seen: set of <<key, id>>
          l
vars == <<G, cfg, pl, fps, l>>

Ev == TraceLog[l]
IsEv(name) == l <= Len(TraceLog) /\ Ev.e = name
Exc == "exc" \in DOMAIN Ev
NoExc == ~Exc
\* reading a missing number makes the library's stream operator throw std::runtime_error - a clean refusal, allowed
\* only when the message really is too short; the receiver's state must be untouched
TooShort(n) == Exc /\ Len(Ev.msg) < n /\ Ev.hc = pl[Ev.i].h /\ Ev.nk = Cardinality(pl[Ev.i].hj) /\ Ev.d = pl[Ev.i].d
NT == 2 ^ cfg.w

\* ---- transmitted numbers: [id, sg, bits, mq, mo, mp, sm]
IsSmall(n) == n.sm >= 0
Val(n) == n.sg * n.sm                              \* the integer itself (when small)
ExpN(n) == IF n.sg >= 0 THEN n.mo ELSE -n.mo       \* as exponent of an element coprime to p
ResP(n) == IF n.sg >= 0 THEN n.mp ELSE (G.p - n.mp) % G.p   \* residue mod p
IsMember(n) == n.sg = 1 /\ IsSmall(n) /\ Member(G, n.sm)
AbsBelowQ(n) == IsSmall(n) /\ n.sm < G.q           \* |r| < q
\* the oracle was asked for exactly this tuple (a sequence of non-negative small integers) and answered c
\* a tuple is a sequence of encoded integers: E(x) for a computed non-negative value, EN(n) for a literal
E(x) == <<IF x = 0 THEN 0 ELSE 1, x>>
EN(n) == IF n.sm >= 0 THEN <<n.sg, n.sm>> ELSE <<n.sg, n.id>>
ES(t) == [k \in 1..Len(t) |-> E(t[k])]
Asked(tuple, c) ==
  \E k \in 1..Len(Ev.h) :
     /\ "in" \in DOMAIN Ev.h[k]
     /\ Len(Ev.h[k]["in"]) = Len(tuple)
     /\ \A j \in 1..Len(tuple) : EN(Ev.h[k]["in"][j]) = tuple[j]
     /\ Ev.h[k].out.id = c.id
QCoins == SelectSeq(Ev.coins, LAMBDA c : c.k = "q")
WCoins == SelectSeq(Ev.coins, LAMBDA c : c.k = "w")
QDraws == [k \in 1..Len(QCoins) |-> QCoins[k].v]
WDraws == [k \in 1..Len(WCoins) |-> WCoins[k].v]
NewFps == {<<Ev.h[k]["in"][1].sm, Ev.h[k].out.id>> : k \in {j \in 1..Len(Ev.h) :
              "in" \in DOMAIN Ev.h[j] /\ Len(Ev.h[j]["in"]) = 1 /\ Ev.h[j]["in"][1].sm >= 0}}

\* the oracle was asked for this tuple at all
AskedAny(tuple) ==
  \E k \in 1..Len(Ev.h) :
     /\ "in" \in DOMAIN Ev.h[k]
     /\ Len(Ev.h[k]["in"]) = Len(tuple)
     /\ \A j \in 1..Len(tuple) : EN(Ev.h[k]["in"][j]) = tuple[j]
\* Chaum-Pedersen verifier CP(x, y, gg, hh) on transmitted <<c, r>> under common key h
CPPre(msg) == Len(msg) = 2 /\ msg[1].bits <= cfg.hb /\ AbsBelowQ(msg[2])
\* gg is a literal (Lit(x) for a computed value): it is hashed as given and used modulo p
Lit(x) == [sm |-> x, sg |-> IF x = 0 THEN 0 ELSE 1, mp |-> x % G.p, mo |-> x % (G.p - 1), mq |-> x % G.q, bits |-> 0, id |-> ""]
CPTuple(h, x, y, gg, hh, msg) ==
  LET ce == ExpN(msg[1])  re == Val(msg[2])
      ggv == ResP(gg)
      ggE == EN(gg)
  IN ES(<<G.p, G.q, G.g, h, CPa(G, ggv, x, ce, re), CPa(G, hh, y, ce, re), x, y>>) \o <<ggE, E(hh)>>
CPVerify(h, x, y, gg, hh, msg) == CPPre(msg) /\ Asked(CPTuple(h, x, y, gg, hh, msg), msg[1])
\* a verifier whose preliminary checks pass can only decide by hashing exactly the prescribed tuple (C05)
CPDecides(pre, h, x, y, gg, hh, msg) == (pre /\ CPPre(msg)) => AskedAny(CPTuple(h, x, y, gg, hh, msg))
\* Chaum-Pedersen prover with commitment coin om and witness alpha
CPProve(h, x, y, gg, hh, om, alpha, msg) ==
  /\ Len(msg) = 2
  /\ Asked(ES(<<G.p, G.q, G.g, h, Exp(G, gg, om), Exp(G, hh, om), x, y, gg, hh>>), msg[1])
  /\ msg[2].sg >= 0 /\ msg[2].sm = SchnorrResp(G, om, msg[1].mq, alpha)

TInit == /\ l = 1 /\ G = [p |-> 23, q |-> 11, g |-> 2] /\ cfg = [np |-> 0, w |-> 1, hb |-> 256, kind |-> "plain", eb |-> 0]
         /\ pl = <<>> /\ fps = {}

TReset ==
  /\ IsEv("Reset") /\ NoExc
  /\ G' = [p |-> Ev.grp[1], q |-> Ev.grp[2], g |-> Ev.grp[3]]
  /\ cfg' = [np |-> Ev.np, w |-> Ev.w, hb |-> Ev.hbits, kind |-> Ev.kind, eb |-> Ev.E]
  /\ pl' = [i \in 0..(Ev.np - 1) |-> [x |-> 0, hi |-> 1, h |-> 1, hj |-> {}, d |-> 0, X |-> 0, fp |-> ""]]
  /\ fps' = {}
  \* CheckGroup of the library agrees with the definition of a Schnorr group (sizes are met by construction)
  /\ LET p == Ev.grp[1]  q == Ev.grp[2]  g == Ev.grp[3]  k == Ev.grp[4]
         Schnorr == /\ p = k * q + 1 /\ IsPrime(p) /\ IsPrime(q) /\ GCD(q, k) = 1
                    /\ g > 1 /\ g < p - 1 /\ PowM(g, q, p) = 1
         \* verifiably derived generator: candidates H(U_0)^k, H(U_1)^k, ... in the order asked; the first one
         \* that generates the subgroup is the generator, and no further candidate is asked for
         Cand(j) == PowM(Ev.h[j].out.mp, k, p)
         Good(c) == c > 1 /\ c < p - 1 /\ PowM(c, q, p) = 1
         Derived == /\ Len(Ev.h) >= 1
                    /\ \A j \in 1..(Len(Ev.h) - 1) : ~Good(Cand(j))
                    /\ Good(Cand(Len(Ev.h))) /\ Cand(Len(Ev.h)) = g
     IN CASE Ev.kind = "plain" -> Ev.okgrp = Schnorr
          [] Ev.kind = "canon" -> Schnorr /\ Ev.okgrp /\ Derived      \* the library generated this group itself
          \* quadratic residues modulo a safe prime p = 7 mod 8 (2 is a residue); the generator 2 is shifted by
          \* |p| - E squarings so that exponents of E bits suffice [KK04]; exponents are never longer than |p|
          [] Ev.kind = "qr" -> Ev.okgrp = (/\ k = 2 /\ p = 2 * q + 1 /\ IsPrime(p) /\ IsPrime(q) /\ p % 8 = 7
                                          /\ Ev.E <= BitLen(p)
                                          /\ g = PowM(2, 2 ^ (BitLen(p) - Ev.E), p)
                                          /\ g > 1 /\ g < p - 1 /\ PowM(g, q, p) = 1)
  /\ l' = l + 1

TGenKey ==
  /\ IsEv("GenKey") /\ NoExc
  /\ Len(QDraws) = 1
  /\ LET x == QDraws[1]  hi == PubKey(G, x) IN
     /\ Ev.x = x /\ Ev.hi = hi /\ Ev.hc = hi
     /\ \E f \in NewFps : f[1] = hi
     /\ pl' = [pl EXCEPT ![Ev.i] = [x |-> x, hi |-> hi, h |-> hi, hj |-> {}, d |-> 0, X |-> x,
                                    fp |-> (CHOOSE f \in NewFps : f[1] = hi)[2]]]
  /\ fps' = fps \cup NewFps
  /\ UNCHANGED <<G, cfg>> /\ l' = l + 1

TPubKey ==
  /\ IsEv("PubKey") /\ NoExc
  /\ Len(QDraws) = 1 /\ Len(Ev.msg) = 3
  /\ LET me == pl[Ev.i]  v == QDraws[1]  t == Exp(G, G.g, v) IN
     /\ Ev.msg[1].sg >= 0 /\ Ev.msg[1].sm = me.hi
     /\ Asked(ES(<<G.p, G.q, G.g, me.hi, t>>), Ev.msg[2])
     /\ Ev.msg[3].sg >= 0 /\ Ev.msg[3].sm = SchnorrResp(G, v, Ev.msg[2].mq, me.x)
  /\ UNCHANGED <<G, cfg, pl, fps>> /\ l' = l + 1

KeyPre(msg) == Len(msg) = 3 /\ IsMember(msg[1]) /\ msg[2].bits <= cfg.hb /\ AbsBelowQ(msg[3])
KeyTuple(msg) == ES(<<G.p, G.q, G.g, msg[1].sm, SchnorrT(G, msg[1].sm, ExpN(msg[2]), Val(msg[3]))>>)
KeyProofOK(msg) == KeyPre(msg) /\ Asked(KeyTuple(msg), msg[2])

TUpdKey ==
  /\ IsEv("UpdKey")
  /\ IF Exc THEN TooShort(3) /\ pl' = pl ELSE
     LET me == pl[Ev.i]  acc == KeyProofOK(Ev.msg) IN
     /\ Len(Ev.msg) >= 3
     /\ KeyPre(Ev.msg) => AskedAny(KeyTuple(Ev.msg))
     /\ Ev.res = acc
     \* C03: the sender's own, unchanged message is accepted
     /\ (Ev.mut = "none" \/ ~Ev.applied) => acc
     /\ IF acc
        THEN LET key == Ev.msg[1].sm IN
             /\ key = pl[Ev.from].hi            \* only the sender's real key can carry a valid proof
             /\ pl' = [pl EXCEPT ![Ev.i].h = Mul(G, me.h, key), ![Ev.i].hj = me.hj \cup {key},
                                 ![Ev.i].X = (me.X + pl[Ev.from].x) % G.q]
        ELSE pl' = pl                           \* a refused contribution leaves the key untouched
     /\ Ev.hc = pl'[Ev.i].h /\ Ev.nk = Cardinality(pl'[Ev.i].hj)
  /\ fps' = fps \cup NewFps
  /\ UNCHANGED <<G, cfg>> /\ l' = l + 1

\* ---- interactive (private-coin) proof of knowledge of a key share [Schnorr]: m1 = g^v, challenge c, m2 = v + c x mod q;
\* the verifier accepts iff m1 is a group element, |m2| < q (refused, not reduced) and m1 = g^m2 key^-c.
\* The challenge is the verifier's only coin; the driver fixes it first, so prover and verifier run one after the other.
IKeyAccept(key, c, msg) ==
  /\ Len(msg) >= 2 /\ IsMember(msg[1]) /\ AbsBelowQ(msg[2])
  /\ (c = 0 \/ ResP(key) # 0)                     \* key^c must be invertible
  /\ msg[1].sm = Mul(G, Exp(G, G.g, Val(msg[2])), IF c = 0 THEN 1 ELSE Exp(G, ResP(key), 0 - c))
TIKey ==
  /\ IsEv("IKey")
  /\ LET prover == pl[Ev.from]  pq == SelectSeq(Ev.pcoins, LAMBDA k : k.k = "q") IN
     \* the prover's two messages are what the protocol prescribes for its coin v and the challenge (C03, C05)
     /\ Ev.pres /\ Len(pq) = 1 /\ Len(Ev.honest) = 2 /\ Ev.x = prover.x
     /\ Ev.honest[1].sg >= 0 /\ Ev.honest[1].sm = Exp(G, G.g, pq[1].v)
     /\ Ev.honest[2].sg >= 0 /\ Ev.honest[2].sm = (pq[1].v + Ev.c * prover.x) % G.q
     /\ Ev.c >= 0 /\ Ev.c < G.q
  /\ IF Exc THEN Len(Ev.msg) < 2 /\ Ev.hc = pl[Ev.i].h /\ Ev.nk = Cardinality(pl[Ev.i].hj)
     ELSE LET acc == IKeyAccept(Ev.key, Ev.c, Ev.msg) IN
          /\ Ev.res = acc
          \* the verifier drew exactly one coin, the challenge, and sent it once it had a group element m1
          /\ (Len(Ev.msg) >= 1 /\ IsMember(Ev.msg[1])) => (Len(QDraws) = 1 /\ QDraws[1] = Ev.c /\ Len(Ev.vsent) = 1 /\ Ev.vsent[1].sm = Ev.c)
          /\ ~(Len(Ev.msg) >= 1 /\ IsMember(Ev.msg[1])) => (Len(QDraws) = 0 /\ Len(Ev.vsent) = 0)
          \* C03: the unchanged session is accepted
          /\ (Ev.mut = "none" \/ ~Ev.applied) => acc
          /\ Ev.hc = pl[Ev.i].h /\ Ev.nk = Cardinality(pl[Ev.i].hj)      \* the proof does not touch the key state
  /\ UNCHANGED <<G, cfg, pl, fps>> /\ l' = l + 1

TRemKey ==
  /\ IsEv("RemKey")
  /\ IF Exc THEN TooShort(3) /\ pl' = pl ELSE
     LET me == pl[Ev.i]
         acc == Len(Ev.msg) = 3 /\ Ev.msg[1].sg = 1 /\ IsSmall(Ev.msg[1]) /\ Ev.msg[1].sm \in me.hj
     IN
     /\ Ev.res = acc
     /\ IF acc
        THEN LET key == Ev.msg[1].sm
                 j == CHOOSE k \in DOMAIN pl : pl[k].hi = key
             IN pl' = [pl EXCEPT ![Ev.i].h = Div(G, me.h, key), ![Ev.i].hj = me.hj \ {key},
                                 ![Ev.i].X = (me.X - pl[j].x) % G.q]
        ELSE pl' = pl
     /\ Ev.hc = pl'[Ev.i].h /\ Ev.nk = Cardinality(pl'[Ev.i].hj)
  /\ fps' = fps \cup NewFps
  /\ UNCHANGED <<G, cfg>> /\ l' = l + 1

TFin == IsEv("Fin") /\ NoExc /\ Ev.hc = pl[Ev.i].h /\ UNCHANGED <<G, cfg, pl, fps>> /\ l' = l + 1

\* ---- cards
Card2(c) == <<c[1], c[2]>>
TOpen ==
  /\ IsEv("Open") /\ NoExc
  /\ Card2(Ev.card) = OpenCard(G, Ev.t)
  /\ TrueType(G, Card2(Ev.card), pl[Ev.i].X, NT) = Ev.t
  /\ UNCHANGED <<G, cfg, pl, fps>> /\ l' = l + 1

\* the masking value is the first draw outside {0,1}; exactly that many draws are made
\* (quadratic-residue class with shortened exponents: the draws are E-bit integers, not residues modulo q)
ShortExp == cfg.kind = "qr" /\ cfg.eb < BitLen(G.p)
MaskCoin == LET k == FirstGood(QDraws, 1) IN
            IF k > 0 /\ k = Len(QDraws) /\ (\A j \in 1..Len(QCoins) : ("short" \in DOMAIN QCoins[j]) = ShortExp)
                     /\ (ShortExp => QDraws[k] < 2 ^ cfg.eb) /\ (~ShortExp => QDraws[k] < G.q)
            THEN QDraws[k] ELSE -1

TPriv ==
  /\ IsEv("Priv") /\ NoExc
  /\ LET r == MaskCoin IN
     /\ r >= 2 /\ Ev.r = r
     /\ Card2(Ev.card) = MaskNew(G, pl[Ev.i].h, Ev.t, r)
     /\ TrueType(G, Card2(Ev.card), pl[Ev.i].X, NT) = Ev.t      \* C01: a private card contains its type
  /\ UNCHANGED <<G, cfg, pl, fps>> /\ l' = l + 1

TMask ==
  /\ IsEv("Mask") /\ NoExc
  /\ LET r == MaskCoin IN
     /\ r >= 2 /\ Ev.r = r
     /\ Card2(Ev.card) = Remask(G, pl[Ev.i].h, Card2(Ev["in"]), r)
     \* C01: masking never changes the type
     /\ TrueType(G, Card2(Ev.card), pl[Ev.i].X, NT) = TrueType(G, Card2(Ev["in"]), pl[Ev.i].X, NT)
  /\ UNCHANGED <<G, cfg, pl, fps>> /\ l' = l + 1

TPMask ==
  /\ IsEv("PMask") /\ NoExc
  /\ Len(QDraws) = 1
  /\ LET me == pl[Ev.i]
         x == Div(G, Ev.card[1], Ev["in"][1])  y == Div(G, Ev.card[2], Ev["in"][2])
     IN CPProve(me.h, x, y, G.g, me.h, QDraws[1], Ev.r, Ev.msg)
  /\ UNCHANGED <<G, cfg, pl, fps>> /\ l' = l + 1

TPPriv ==
  /\ IsEv("PPriv") /\ NoExc
  /\ Len(QDraws) = 1
  /\ LET me == pl[Ev.i]
         x == Ev.card[1]  y == Div(G, Ev.card[2], TypeElem(G, Ev.t))
     IN CPProve(me.h, x, y, G.g, me.h, QDraws[1], Ev.r, Ev.msg)
  /\ UNCHANGED <<G, cfg, pl, fps>> /\ l' = l + 1

TVMask ==
  /\ IsEv("VMask")
  /\ LET me == pl[Ev.i]
         pre == /\ IsMember(Ev.card[1]) /\ IsMember(Ev.card[2])
                /\ HasInv(ResP(Ev["in"][1]), G.p) /\ HasInv(ResP(Ev["in"][2]), G.p)
         x == Div(G, Ev.card[1].sm, ResP(Ev["in"][1]))
         y == Div(G, Ev.card[2].sm, ResP(Ev["in"][2]))
     IN IF Exc THEN TooShort(2) ELSE
        /\ Ev.res = (pre /\ CPVerify(me.h, x, y, Lit(G.g), me.h, Ev.msg))
        /\ CPDecides(pre, me.h, x, y, Lit(G.g), me.h, Ev.msg)
        \* C03: an unchanged honest proof is accepted by everybody who holds the same common key
        /\ ((Ev.mut = "none" \/ ~Ev.applied) /\ pl[Ev.by].h = me.h) => Ev.res
  /\ UNCHANGED <<G, cfg, pl, fps>> /\ l' = l + 1

TVPriv ==
  /\ IsEv("VPriv")
  /\ LET me == pl[Ev.i]
         pre == IsMember(Ev.card[1]) /\ IsMember(Ev.card[2])
         x == Ev.card[1].sm
         y == Div(G, Ev.card[2].sm, TypeElem(G, Ev.t))
     IN IF Exc THEN TooShort(2) ELSE
        /\ Ev.res = (pre /\ CPVerify(me.h, x, y, Lit(G.g), me.h, Ev.msg))
        /\ CPDecides(pre, me.h, x, y, Lit(G.g), me.h, Ev.msg)
        /\ ((Ev.mut = "none" \/ ~Ev.applied) /\ pl[Ev.by].h = me.h) => Ev.res
  /\ UNCHANGED <<G, cfg, pl, fps>> /\ l' = l + 1

\* ---- opening
TSelf ==
  /\ IsEv("Self") /\ NoExc
  /\ LET d == Share(G, Card2(Ev.card), pl[Ev.i].x) IN
     /\ Ev.d = d
     /\ pl' = [pl EXCEPT ![Ev.i].d = d]
  /\ UNCHANGED <<G, cfg, fps>> /\ l' = l + 1

TPSec ==
  /\ IsEv("PSec") /\ NoExc
  /\ Len(QDraws) = 1 /\ Len(Ev.msg) = 4
  /\ LET me == pl[Ev.i]  c1 == Ev.card[1]  di == Exp(G, c1, me.x) IN
     /\ Ev.msg[1].sg >= 0 /\ Ev.msg[1].sm = di
     /\ Ev.msg[2].id = me.fp
     /\ CPProve(me.h, di, me.hi, c1, G.g, QDraws[1], me.x, <<Ev.msg[3], Ev.msg[4]>>)
  /\ UNCHANGED <<G, cfg, pl, fps>> /\ l' = l + 1

TVSec ==
  /\ IsEv("VSec")
  /\ LET me == pl[Ev.i]
         known == Len(Ev.msg) >= 2 /\ \E f \in fps : f[2] = Ev.msg[2].id /\ f[1] \in me.hj
         key == (CHOOSE f \in fps : f[2] = Ev.msg[2].id /\ f[1] \in me.hj)[1]
         c1 == Ev.card[1]
         acc == /\ Len(Ev.msg) = 4 /\ known
                /\ IsMember(Ev.msg[1])
                /\ CPVerify(me.h, Ev.msg[1].sm, key, c1, G.g, <<Ev.msg[3], Ev.msg[4]>>)
     IN
     IF Exc THEN TooShort(4) /\ pl' = pl ELSE
     /\ Ev.res = acc
     /\ (Len(Ev.msg) = 4 /\ known /\ IsMember(Ev.msg[1])) =>
            CPDecides(TRUE, me.h, Ev.msg[1].sm, key, c1, G.g, <<Ev.msg[3], Ev.msg[4]>>)
     \* C03: an unchanged honest share is accepted when both sides hold the same common key and the key is known
     /\ ((Ev.mut = "none" \/ ~Ev.applied) /\ pl[Ev.from].h = me.h /\ pl[Ev.from].hi \in me.hj) => acc
     /\ pl' = IF acc THEN [pl EXCEPT ![Ev.i].d = Mul(G, me.d, Ev.msg[1].sm)] ELSE pl
     /\ Ev.d = pl'[Ev.i].d
     \* C04/C05: an accepted share is the sender's real share of this card
     /\ acc => (Ev.msg[1].sm = Exp(G, ResP(c1), pl[Ev.from].x) /\ key = pl[Ev.from].hi)
  /\ UNCHANGED <<G, cfg, fps>> /\ l' = l + 1

TType ==
  /\ IsEv("Type") /\ NoExc
  /\ LET me == pl[Ev.i]  c == Card2(Ev.card) IN
     /\ Ev.res = TypeOfElem(G, Plain(G, c, me.d), NT)
     \* C01: with every share behind the common key contributed, the card opens to what it contains
     /\ (me.d = Exp(G, c[1], me.X)) => Ev.res = TrueType(G, c, me.X, NT)
  /\ UNCHANGED <<G, cfg, pl, fps>> /\ l' = l + 1

\* ---- stacks
RECURSIVE TakeGood(_, _, _)            \* masking values for n cards out of a draw sequence: <<values, draws used>>
TakeGood(draws, from, n) ==
  IF n = 0 THEN <<<<>>, from - 1>>
  ELSE LET k == FirstGood(draws, from) IN
       IF k = 0 THEN <<<<>>, -1>>
       ELSE LET rest == TakeGood(draws, k + 1, n - 1) IN <<<<draws[k]>> \o rest[1], rest[2]>>

Swap(f, a, b) == [f EXCEPT ![a] = f[b], ![b] = f[a]]
RECURSIVE FY(_, _, _, _)               \* Fisher-Yates over positions 0..n-1 with raw words w (1-based sequence)
FY(pi, i, n, w) == IF i >= n - 1 THEN pi ELSE FY(Swap(pi, i, i + (w[i + 1] % (n - i))), i + 1, n, w)
PermOf(n, cyclic, w) ==
  IF cyclic THEN [i \in 0..(n - 1) |-> ((w[1] % n) + i) % n]
  ELSE FY([i \in 0..(n - 1) |-> i], 0, n, w)

TSSec ==
  /\ IsEv("SSec") /\ NoExc
  /\ LET n == Ev.n
         nw == IF Ev.cyclic THEN 1 ELSE n - 1
         pi == PermOf(n, Ev.cyclic, WDraws)
         rs == TakeGood(QDraws, 1, n)
     IN /\ Len(WDraws) = nw /\ \A k \in 1..nw : WDraws[k] >= 0
        /\ rs[2] = Len(QDraws) /\ Len(rs[1]) = n
        /\ Len(Ev.ss) = n
        /\ \A k \in 1..n : Ev.ss[k].pi = pi[k - 1] /\ Ev.ss[k].r = rs[1][k]
        /\ Ev.ret = (IF Ev.cyclic THEN (n - (WDraws[1] % n)) % n ELSE 0)
        \* C02: the index component is a bijection (a cyclic shift by the reported offset when requested)
        /\ {Ev.ss[k].pi : k \in 1..n} = 0..(n - 1)
        /\ Ev.cyclic => \A k \in 1..n : Ev.ss[k].pi = ((k - 1) + (n - Ev.ret)) % n
  /\ UNCHANGED <<G, cfg, pl, fps>> /\ l' = l + 1

MixSpec(h, s, ss) == [k \in 1..Len(s) |-> Remask(G, h, Card2(s[ss[k].pi + 1]), ss[ss[k].pi + 1].r)]
TMix ==
  /\ IsEv("Mix") /\ NoExc
  /\ LET me == pl[Ev.i]  s == Ev["in"]  ss == Ev.ss  o == MixSpec(me.h, s, ss) IN
     /\ Len(Ev.out) = Len(s) /\ Len(ss) = Len(s)
     /\ \A k \in 1..Len(s) : Card2(Ev.out[k]) = o[k]
     \* C02: the k-th output card contains the type of the input card designated by the k-th index
     /\ \A k \in 1..Len(s) : TrueType(G, Card2(Ev.out[k]), me.X, NT) = TrueType(G, Card2(s[ss[k].pi + 1]), me.X, NT)
  /\ UNCHANGED <<G, cfg, pl, fps>> /\ l' = l + 1

\* composition of two shuffles: first sigma, then pi  (Mix(Mix(s, sigma), pi) = Mix(s, Glue(sigma, pi)))
GlueSpec(sigma, pi) ==
  LET n == Len(sigma)
      inv(j) == CHOOSE k \in 1..n : sigma[k].pi = j      \* position (1-based) of index j in sigma
  IN [k \in 1..n |-> [pi |-> sigma[pi[k].pi + 1].pi,
                      r |-> (sigma[k].r + pi[inv(k - 1)].r) % G.q]]
TGlue ==
  /\ IsEv("Glue") /\ NoExc
  /\ LET o == GlueSpec(Ev.sigma, Ev.pi) IN
     /\ Len(Ev.out) = Len(Ev.sigma)
     /\ \A k \in 1..Len(o) : Ev.out[k].pi = o[k].pi /\ Ev.out[k].r = o[k].r
  /\ UNCHANGED <<G, cfg, pl, fps>> /\ l' = l + 1

TSubst == IsEv("Subst") /\ NoExc /\ UNCHANGED <<G, cfg, pl, fps>> /\ l' = l + 1

\* C02: a received stack secret is accepted iff its index component is a bijection on 0..n-1
TImportSS ==
  /\ IsEv("ImportSS") /\ NoExc
  /\ LET n == Len(Ev.pi) IN
     Ev.res = (n >= 1 /\ {Ev.pi[k] : k \in 1..n} = 0..(n - 1))
  /\ UNCHANGED <<G, cfg, pl, fps>> /\ l' = l + 1

\* ---- cut-and-choose proof of a shuffle (TMCG_ProveStackEquality / TMCG_VerifyStackEquality), kappa rounds
IsShift(ss) == \A k \in 2..Len(ss) : ss[k].pi = (ss[1].pi + (k - 1)) % Len(ss)
Cards(s) == [k \in 1..Len(s) |-> Card2(s[k])]
\* the stack the prover committed to with the value com (the hash is taken over the exported stack)
Committed(com) == LET c == CHOOSE k \in 1..Len(Ev.hp) : "stack" \in DOMAIN Ev.hp[k] /\ Ev.hp[k].out.id = com.id
                  IN Cards(Ev.hp[c].stack)
HasCommitted(com) == \E k \in 1..Len(Ev.hp) : "stack" \in DOMAIN Ev.hp[k] /\ Ev.hp[k].out.id = com.id
TCC ==
  /\ IsEv("CC")
  /\ "crash" \notin DOMAIN Ev          \* whatever the prover sends, the verifier must survive it (C12)
  /\ NoExc
  /\ LET vf == pl[Ev.j]  n == Len(Ev.s)  kap == Ev.kappa
         pre == Len(Ev.s) = Len(Ev.s2) /\ \A k \in 1..Len(Ev.s2) : Member(G, Ev.s2[k][1]) /\ Member(G, Ev.s2[k][2])
         base(r) == IF Ev.bits[r] = 1 THEN Cards(Ev.s2) ELSE Cards(Ev.s)
         sizeok(r) == r <= Len(Ev.rounds) /\ Len(Ev.rounds[r].rev) = n /\ n >= 1
         mixed(r) == MixSpec(vf.h, base(r), Ev.rounds[r].rev)
         ok(r) == /\ sizeok(r)
                  /\ HasCommitted(Ev.rounds[r].com) /\ mixed(r) = Committed(Ev.rounds[r].com)
                  /\ (Ev.cyclic => IsShift(Ev.rounds[r].rev))
         reached == IF pre THEN {r \in 1..kap : \A r2 \in 1..(r - 1) : ok(r2)} ELSE {}
         acc == pre /\ \A r \in 1..kap : ok(r)
     IN
     /\ Ev.res = acc
     \* the verifier announces kappa and then one challenge bit per round it reaches - the dictated coins
     /\ Len(Ev.vout) = 1 + Cardinality(reached) /\ Ev.vout[1] = kap
     /\ \A r \in reached : Ev.vout[r + 1] = Ev.bits[r]
     \* it decides by hashing exactly the re-mixed stack (C05)
     /\ \A r \in reached : sizeok(r) =>
            \E k \in 1..Len(Ev.h) : "stack" \in DOMAIN Ev.h[k] /\ Cards(Ev.h[k].stack) = mixed(r)
     \* C03: an honest proof of a true statement is accepted for every coin string
     /\ (Ev.mode = "honest" /\ "ss" \in DOMAIN Ev /\ pl[Ev.i].h = vf.h
           /\ Len(Ev.ss) = n /\ MixSpec(vf.h, Cards(Ev.s), Ev.ss) = Cards(Ev.s2) /\ (Ev.cyclic => IsShift(Ev.ss))) => acc
     \* C04: a prover who prepared for the guessed string is accepted for that string ...
     /\ (Ev.mode = "guess" /\ pre /\ pl[Ev.i].h = vf.h /\ Ev.bits = Ev.guess) => acc
     \* ... and, the statement being false, for no other (the types under the secret keys differ)
     /\ (Ev.mode = "guess" /\ pre /\ acc /\ kap > 0 /\ Ev.bits # Ev.guess) =>
            \E pi \in {f \in [1..n -> 1..n] : \A a, b \in 1..n : a # b => f[a] # f[b]} :
               \A k \in 1..n : TrueType(G, Card2(Ev.s2[k]), vf.X, NT) = TrueType(G, Card2(Ev.s[pi[k]]), vf.X, NT)
  /\ UNCHANGED <<G, cfg, pl, fps>> /\ l' = l + 1

TStack == IsEv("Stack") /\ NoExc /\ UNCHANGED <<G, cfg, pl, fps>> /\ l' = l + 1

TNext == TReset \/ TGenKey \/ TPubKey \/ TUpdKey \/ TIKey \/ TRemKey \/ TFin \/ TOpen \/ TPriv \/ TMask \/ TPMask \/ TPPriv
         \/ TVMask \/ TVPriv \/ TSelf \/ TPSec \/ TVSec \/ TType \/ TSSec \/ TMix \/ TGlue \/ TStack
         \/ TSubst \/ TImportSS \/ TCC
TSpec == TInit /\ [][TNext]_vars

\* C08: the common key a player holds is g^(sum of the key shares it accepted) - a sum, hence independent of
\* the order of the contributions; removal subtracts, refusal changes nothing (see TUpdKey / TRemKey)
KeyIsPower == \A i \in DOMAIN pl : pl[i].h = Exp(G, G.g, pl[i].X)

Accepted == TLCGet("stats").diameter = Len(TraceLog) + 1
=============================================================================
