SPECIFICATION MCSpec
CONSTANTS
 CN = 2
 CAuth = TRUE
 CEnc = TRUE
 CChunked = FALSE
 CVariant = "select"
 CMACLEN = 2
 CBLK = 2
 CBUFSZ = 6
 Delim = 63
 NoVal <- NoValMC
 Rcv = 1
 Prog <- Prog1_3
 MaxFault = 0
 Kinds <- AllKinds
 Scheds = {1,3}
 ArrSize = 0
 TagNL <- TagNLa
 IvNL = {}
INVARIANTS InOrderI CompleteAlways AuthSafeI NothingForged FramesFit 
PROPERTIES StoppedStays
CHECK_DEADLOCK FALSE
