---------------------------- MODULE MC_RabinKey ----------------------------
(***************************************************************************)
(* Exhaustive part of property C10.                                         *)
(*                                                                          *)
(* AlgSpec  - the theorems of part 1 of RabinKey.tla for every Blum pair in *)
(*            a box, and the soundness fractions for bad moduli.            *)
(* ToySpec  - (also prints, per key size, whether the paddings fit)         *)
(*            for the same pairs every residue with its square-root set and *)
(*            quadratic character is printed; harness/drv_key.cc runs       *)
(*            TMCG_SecretKey::precompute, tmcg_mpz_qrmn_p and               *)
(*            tmcg_mpz_sqrtmn_fast_all (the routines sign/decrypt use) on   *)
(*            them.                                                         *)
(* Spec     - the behaviours Generate -> Sign | Encrypt | Export ->         *)
(*            Tamper(field, mutation) -> Verify | Decrypt | Check over      *)
(*            symbolic keys: TLC enumerates every (operation, key, data     *)
(*            class, root, field, mutation, verifier key, data relation),   *)
(*            evaluates the theorems of the property in every final state   *)
(*            and prints the case with the verdict the specification        *)
(*            expects; drv_key concretises each on real keys.               *)
(***************************************************************************)
EXTENDS RabinKey, Json

CONSTANTS Tier,      \* "quick" | "thorough"
          MaxPrime,  \* box of the algebra: primes up to MaxPrime
          Ops        \* the operations whose cases are enumerated (one TLC run per operation)

VARIABLE st
T == Tier = "thorough"

--------------------------------------------------------------------------
(* algebra                                                                 *)
BlumPairs == {pq \in (3..MaxPrime) \X (3..MaxPrime) : pq[1] < pq[2] /\ BlumPair(pq[1], pq[2])}
BadSquare == {9 * 7, 3 * 49, 9 * 11, 25 * 3, 27 * 7, 9 * 19, 49 * 11} \cup (IF T THEN {9 * 49, 25 * 7, 121 * 3, 9 * 23, 49 * 19} ELSE {})
BadThree == {3 * 7 * 11, 3 * 7 * 19, 3 * 11 * 23, 7 * 11 * 19} \cup (IF T THEN {3 * 7 * 23, 7 * 11 * 23, 3 * 19 * 23, 11 * 19 * 23} ELSE {})
AlgInit == st = [k |-> 0]
AlgNext == st.k = 0 /\ \/ \E pq \in BlumPairs : st' = [k |-> 1, p |-> pq[1], q |-> pq[2]]
                       \/ \E m \in BadSquare : st' = [k |-> 2, m |-> m]
                       \/ \E m \in BadThree : st' = [k |-> 3, m |-> m]
AlgSpec == AlgInit /\ [][AlgNext]_st
AlgInv == /\ st.k = 1 => AlgTheorems(st.p, st.q)
          /\ st.k = 2 => ThUnsoundSquare(st.m)
          /\ st.k = 3 => ThUnsoundThree(st.m)
ASSUME Cardinality(BlumPairs) >= 5

\* toy cases for the square-root routines behind sign() and decrypt(): one line per modulus
ToyPairs == {pq \in BlumPairs : pq[1] * pq[2] <= (IF T THEN 2100 ELSE 700)}
ToyLine(p, q) == LET m == p * q  Q == QRsOf(m) IN
  [toy |-> 1, p |-> p, q |-> q, y |-> SmallestY(p, q), pre |-> (GCD(m, Phi(p, q)) = 1),
   qr |-> [a \in 1..(m - 1) |-> IF a \in Q THEN 1 ELSE 0],
   roots |-> [a \in 1..(m - 1) |-> IF a \in Q THEN RootsOf(a, m) ELSE {}]]
\* key sizes: which of them can be generated (generation signs the key, so the PRab encoding must fit the modulus of
\* size+1 or size+2 bits) and which moduli admit SAEP
Sizes == IF T THEN (416..704) \cup (1018..1030) \cup {2046, 2048} ELSE (420..431) \cup (668..681)
SizeLine(n) == [sizes |-> 1, size |-> n, fit |-> <<PRabFits(n + 1), PRabFits(n + 2)>>, saep |-> <<SAEPFits(n + 1), SAEPFits(n + 2)>>]
ToyNext == st.k = 0 /\ \/ \E pq \in ToyPairs : st' = [k |-> 1, p |-> pq[1], q |-> pq[2]]
                       \/ \E n \in Sizes : st' = [k |-> 4, n |-> n]
ToySpec == AlgInit /\ [][ToyNext]_st
ToyEmit == /\ st.k = 1 => PrintT(ToJson(ToyLine(st.p, st.q)))
           /\ st.k = 4 => PrintT(ToJson(SizeLine(st.n)))

--------------------------------------------------------------------------
(* symbolic keys, objects and the mutation catalogue                       *)
KeyAttr == [A |-> [ix |-> 0, size |-> 672, nizk |-> TRUE],     \* the smallest size that fits both paddings
            B |-> [ix |-> 1, size |-> 424, nizk |-> FALSE],    \* the smallest size that fits PRab (no SAEP)
            C |-> [ix |-> 2, size |-> 672, nizk |-> FALSE],
            D |-> [ix |-> 3, size |-> 1024, nizk |-> TRUE],
            E |-> [ix |-> 4, size |-> 2048, nizk |-> TRUE],    \* the default size
            F |-> [ix |-> 5, size |-> 680, nizk |-> FALSE],
            G |-> [ix |-> 6, size |-> 1000, nizk |-> FALSE]]
KeyNames == IF T THEN {"A", "B", "C", "D", "E", "F", "G"} ELSE {"A", "B", "C"}
OtherKey(k) == IF k = "A" THEN "C" ELSE "A"                    \* the "different key" of the property
BitsOf(k) == KeyAttr[k].size + 1                               \* generated moduli have size+1 or size+2 bits
ASSUME \A k \in DOMAIN KeyAttr : /\ PRabFits(BitsOf(k)) = PRabFits(BitsOf(k) + 1)
                                 /\ SAEPFits(BitsOf(k)) = SAEPFits(BitsOf(k) + 1)
ASSUME PRabFits(425) /\ ~PRabFits(424) /\ ~PRabFits(417) /\ SAEPFits(673) /\ ~SAEPFits(671) /\ ~SAEPFits(426)

\* ---- texts of numbers (only tails matter: key ids)
Unrelated == [i \in 1..12 |-> 65 + i]
RECURSIVE TextOf(_)
TextOf(v) ==
  CASE v.t = "root" -> LET b == <<97 + KeyAttr[v.x.k].ix, 97 + v.rho, 98 + v.s, 97 + v.x.salt>> IN b \o b \o b
    [] v.t = "fmt" -> IF v.f = "lead0" THEN <<48>> \o TextOf(v.v)
                      ELSE LET x == TextOf(v.v) IN <<Head(x), 32>> \o Tail(x)
    [] v.t = "neg" -> <<45>> \o TextOf(v.v)
    [] OTHER -> Unrelated

\* ---- proofs: counts and answers.  ver = 0: the proof made by generate(); ver > 0: a proof the owner makes again
\* (other counts, other y) - its challenges are another chain, its answers unrelated to those of version 0
Num(n) == [t |-> "cst", n |-> n]
AnswerT(k, g, stage, ver) == IF stage = 1 THEN Inv1(k, g, ver) ELSE Root(ChT(k, g, stage, ver), 0, 1)
ProofFor(k, cn, ver) ==
  <<Num(cn[1])>> \o [g \in 1..cn[1] |-> AnswerT(k, g, 1, ver)]
  \o <<Num(cn[2])>> \o [g \in 1..cn[2] |-> AnswerT(k, cn[1] + g, 2, ver)]
  \o <<Num(cn[3])>> \o [g \in 1..cn[3] |-> AnswerT(k, cn[1] + cn[2] + g, 3, ver)]
GenProof(k) == IF KeyAttr[k].nizk THEN ProofFor(k, Rounds, 0) ELSE <<Num(Rounds[1]), Num(Rounds[2]), Num(Rounds[3])>>
\* what a token is for the checker of a statement whose honest proof is version ver: see RabinKey!AnswerOK
TokOf(M, same, ver, tx) ==
  LET r == Res(M, tx)  iv == IntId(tx)
      isinv == r.c = "inv" /\ r.ver = ver
      isroot == r.c = "root" /\ r.x.t = "ch" /\ r.x.salt = ver
      rel == same /\ (isinv \/ isroot)
  IN [n |-> IF iv.t = "cst" THEN iv.n ELSE -1,
      i |-> IF ~rel THEN 0 ELSE IF isinv THEN r.g ELSE r.x.d,
      st |-> IF ~rel THEN 0 ELSE IF isinv THEN 1 ELSE r.x.st,
      c |-> IF ~rel THEN "no"
            ELSE IF isinv THEN (IF r.s = 1 THEN "eq" ELSE "sq")
            ELSE (IF r.rho = 0 /\ r.s = 1 THEN "eq" ELSE "sq")]

\* ---- key objects
DataId(O) == [t |-> "keydata", name |-> O.name, email |-> O.email, ty |-> O.ty, m |-> IntId(O.m), y |-> IntId(O.y),
              nzmagic |-> O.nzmagic, nz |-> O.nz]
SelfSigOver(k, did, salt) ==
  LET v == Root(PadT(k, did, salt), 0, 1) IN [nf |-> 3, magic |-> "sig", kid |-> IdText(TextOf(v), IdLen), v |-> v]
KeyBody(k) == [k |-> k, nf |-> 10, magic |-> "pub", name |-> "n", email |-> "e", ref |-> [m |-> Mk(k), y |-> Yk(k), ver |-> 0],
               ty |-> [size |-> KeyAttr[k].size, nizk |-> KeyAttr[k].nizk, alt |-> FALSE],
               m |-> Mk(k), y |-> Yk(k), nzmagic |-> "nzk", nz |-> GenProof(k)]
KeyObj(k) == KeyBody(k) @@ [sig |-> SelfSigOver(k, DataId(KeyBody(k)), 0)]
SidOf(k) == TextOf(Root(PadT(k, 0, 0), 0, 1))          \* the text of the self-signature value of KeyObj(k)
KView(k) == [mid |-> Mk(k), bits |-> BitsOf(k), sid |-> SidOf(k), sidok |-> TRUE]

JacClass(O) ==      \* Jacobi symbol of the presented y modulo the presented m; 2 = not determined by the symbols
  LET yi == IntId(O.y) IN
  IF IntId(O.m) # Mk(O.k) THEN 2
  ELSE CASE yi = Yk(O.k) -> 1
         [] yi.t \in {"shift", "comp", "neg"} -> IF IntId(yi.v) = Yk(O.k) THEN 1 ELSE 2
         [] yi.t = "cst" -> yi.n
         [] yi.t = "mod" -> IF yi.d = -1 THEN 1 ELSE 0
         [] yi.t = "gen" -> IF yi.g \in {"times4", "four"} THEN 1 ELSE IF yi.g = "jm1" THEN -1 ELSE 2
         [] OTHER -> 2
OddClass(O) == LET mi == IntId(O.m) IN
  CASE mi = Mk(O.k) -> TRUE
    [] mi.t = "gen" -> mi.g \notin {"plus1", "double"}
    [] mi.t = "cst" -> mi.n = 1
    [] mi.t = "neg" -> TRUE
    [] OTHER -> TRUE
KeyProj(O, jac) ==
  LET M == IntId(O.m)
      same == M = O.ref.m /\ IntId(O.y) = O.ref.y
  IN [nf |-> O.nf, magic |-> O.magic, mnum |-> IsNum(O.m), ynum |-> IsNum(O.y),
      jac |-> jac, odd |-> OddClass(O), prime |-> FALSE, tnizk |-> O.ty.nizk,
      mid |-> M, bits |-> IF M.t = "cst" THEN 1 ELSE BitsOf(O.k), did |-> DataId(O),
      nzmagic |-> O.nzmagic, nz |-> [j \in 1..Len(O.nz) |-> TokOf(M, same, O.ref.ver, O.nz[j])],
      sig |-> [nf |-> O.sig.nf, magic |-> O.sig.magic, kid |-> O.sig.kid, val |-> ValProj(M, O.sig.v)],
      sid |-> TextOf(O.sig.v), sidok |-> O.sig.nf >= 3 /\ O.sig.magic = "sig"]

\* ---- positions of the proof text
CntPos(k, s) == IF ~KeyAttr[k].nizk THEN s
                ELSE IF s = 1 THEN 1 ELSE IF s = 2 THEN 2 + Rounds[1] ELSE 3 + Rounds[1] + Rounds[2]
EntPos(k, s, last) == CntPos(k, s) + (IF last THEN Rounds[s] ELSE 1)
Without(sq, j) == SubSeq(sq, 1, j - 1) \o SubSeq(sq, j + 1, Len(sq))

\* ---- mutations of a key text: f field, mu mutation
\* the owner proves again: other round counts (fewer than required must be refused, more are fine), another
\* admissible y (4y), or the same statement once more
ReproveCounts == [same |-> Rounds, newy |-> Rounds,
                  short1 |-> <<Rounds[1] - 1, Rounds[2], Rounds[3]>>, short2 |-> <<Rounds[1], Rounds[2] - 1, Rounds[3]>>,
                  short3 |-> <<Rounds[1], Rounds[2], Rounds[3] - 1>>, one1 |-> <<1, Rounds[2], Rounds[3]>>,
                  long1 |-> <<Rounds[1] + 1, Rounds[2], Rounds[3]>>, long2 |-> <<Rounds[1], Rounds[2] + 1, Rounds[3]>>,
                  long3 |-> <<Rounds[1], Rounds[2], Rounds[3] + 1>>]
KeyNumMutsM == {"lead0", "space", "plus1", "otherres", "zero", "one", "neg", "double", "oversized", "half", "empty",
                "nonnum", "foreign"}
KeyNumMutsY == {"lead0", "space", "plusm", "comp", "neg", "zero", "one", "mm1", "m", "times4", "four", "jm1",
                "plus1", "oversized", "empty", "nonnum"}
EntMuts == {"lead0", "space", "plusm", "minusm", "comp", "neg", "otherroot", "zero", "one", "mm1", "plus1", "double",
            "half", "oversized", "empty", "nonnum", "swapnext", "drop"}
CntMuts == {"dec", "deconly", "inconly", "zero", "nonnum", "lead0", "minus1"}
SigValMuts == {"lead0", "space", "neg", "comp", "plusm", "plus1", "otherroot", "zero", "empty"}
KeyFields == {"magic", "name", "email", "type", "m", "y", "nzmagic", "cnt1", "cnt2", "cnt3",
              "ent1f", "ent1l", "ent2f", "ent2l", "ent3f", "ent3l", "proof", "sig.magic", "sig.kid", "sig.val", "sig", "struct"}
StageOfField(f) == IF f \in {"cnt1", "ent1f", "ent1l"} THEN 1 ELSE IF f \in {"cnt2", "ent2f", "ent2l"} THEN 2 ELSE 3
KeyMutsOf(k, f) ==
  CASE f = "magic" -> {"alt", "empty"}
    [] f \in {"name", "email"} -> {"alt"}
    [] f = "type" -> {"alt"} \cup (IF KeyAttr[k].nizk THEN {"dropnizk"} ELSE {"addnizk"})
    [] f = "m" -> KeyNumMutsM
    [] f = "y" -> KeyNumMutsY
    [] f = "nzmagic" -> {"alt"}
    [] f \in {"cnt1", "cnt2", "cnt3"} -> IF KeyAttr[k].nizk THEN CntMuts ELSE CntMuts \ {"dec"}
    [] f \in {"ent1f", "ent1l"} -> IF KeyAttr[k].nizk THEN EntMuts \ {"otherroot"} ELSE {}
    [] f \in {"ent2f", "ent2l", "ent3f", "ent3l"} -> IF KeyAttr[k].nizk THEN EntMuts ELSE {}
    [] f = "proof" -> IF KeyAttr[k].nizk THEN DOMAIN ReproveCounts ELSE {}
    [] f = "sig.magic" -> {"alt"}
    [] f = "sig.kid" -> {"chrL", "short4", "id0"}
    [] f = "sig.val" -> SigValMuts
    [] f = "sig" -> {"negfix", "otherrootfix", "drop", "foreign"}
    [] f = "struct" -> {"trunc6", "nodelim"}
Resignable(f) == f \in {"name", "email", "type", "y", "nzmagic", "cnt1", "cnt2", "cnt3", "proof",
                        "ent1f", "ent1l", "ent2f", "ent2l", "ent3f", "ent3l"}
MutKey(O, f, mu) ==
  LET k == O.k IN
  CASE f = "magic" -> [O EXCEPT !.magic = IF mu = "alt" THEN "pux" ELSE ""]
    [] f = "name" -> [O EXCEPT !.name = "n2"]
    [] f = "email" -> [O EXCEPT !.email = "e2"]
    [] f = "type" -> IF mu = "alt" THEN [O EXCEPT !.ty.alt = TRUE] ELSE [O EXCEPT !.ty.nizk = ~O.ty.nizk]
    [] f = "m" -> [O EXCEPT !.m = MutNum(O.m, mu, k)]
    [] f = "y" -> [O EXCEPT !.y = MutNum(O.y, mu, k)]
    [] f = "nzmagic" -> [O EXCEPT !.nzmagic = "nzx"]
    [] f \in {"cnt1", "cnt2", "cnt3"} ->
         LET s == StageOfField(f)  p == CntPos(k, s)  c == O.nz[p].n IN
         CASE mu = "dec" -> [O EXCEPT !.nz = Without([O.nz EXCEPT ![p] = Num(c - 1)], p + c)]
           [] mu = "deconly" -> [O EXCEPT !.nz[p] = Num(c - 1)]
           [] mu = "inconly" -> [O EXCEPT !.nz[p] = Num(c + 1)]
           [] mu = "zero" -> [O EXCEPT !.nz[p] = Num(0)]
           [] mu = "lead0" -> [O EXCEPT !.nz[p] = MutNum(O.nz[p], "lead0", k)]
           [] mu = "minus1" -> [O EXCEPT !.nz[p] = [t |-> "neg", v |-> Num(1)]]
           [] OTHER -> [O EXCEPT !.nz[p] = MutNum(O.nz[p], "nonnum", k)]
    [] f \in {"ent1f", "ent1l", "ent2f", "ent2l", "ent3f", "ent3l"} ->
         LET s == StageOfField(f)  last == f \in {"ent1l", "ent2l", "ent3l"}  p == EntPos(k, s, last)
             nb == IF last THEN p - 1 ELSE p + 1 IN
         CASE mu = "swapnext" -> [O EXCEPT !.nz = [O.nz EXCEPT ![p] = O.nz[nb], ![nb] = O.nz[p]]]
           [] mu = "drop" -> [O EXCEPT !.nz = Without(O.nz, p)]
           [] OTHER -> [O EXCEPT !.nz[p] = MutNum(O.nz[p], mu, k)]
    [] f = "proof" ->
         LET y2 == IF mu = "newy" THEN MutNum(O.y, "times4", k) ELSE O.y IN
         [O EXCEPT !.y = y2, !.ref = [m |-> Mk(k), y |-> IntId(y2), ver |-> 1], !.nz = ProofFor(k, ReproveCounts[mu], 1)]
    [] f = "sig.magic" -> [O EXCEPT !.sig.magic = "sih"]
    [] f = "sig.kid" -> LET sid == TextOf(O.sig.v) IN
         CASE mu = "chrL" -> [O EXCEPT !.sig.kid = SubSeq(O.sig.kid, 1, Len(O.sig.kid) - 1) \o <<33>>]
           [] mu = "short4" -> [O EXCEPT !.sig.kid = IdText(sid, 4)]
           [] OTHER -> [O EXCEPT !.sig.kid = IdText(sid, 0)]
    [] f = "sig.val" -> [O EXCEPT !.sig.v = MutNum(O.sig.v, mu, k)]
    [] f = "sig" ->
         CASE mu = "negfix" -> LET v == MutNum(O.sig.v, "comp", k) IN [O EXCEPT !.sig.v = v, !.sig.kid = IdText(TextOf(v), IdLen)]
           [] mu = "otherrootfix" -> LET v == MutNum(O.sig.v, "otherroot", k) IN [O EXCEPT !.sig.v = v, !.sig.kid = IdText(TextOf(v), IdLen)]
           [] mu = "drop" -> [O EXCEPT !.nf = 7, !.sig = [nf |-> 0, magic |-> "", kid |-> <<>>, v |-> [t |-> "bad", g |-> "empty"]]]
           [] OTHER -> [O EXCEPT !.sig = KeyObj(OtherKey(k)).sig]
    [] f = "struct" -> IF mu = "trunc6" THEN [O EXCEPT !.nf = 6] ELSE [O EXCEPT !.nf = 9, !.sig.nf = 2]
Resign(O) == [O EXCEPT !.sig = SelfSigOver(O.k, DataId(O), 1)]

\* ---- signatures and ciphertexts on the wire
DataClasses == {[c |-> x] : x \in IF T THEN {"empty", "one", "short", "pipe", "nul", "long"} ELSE {"empty", "short", "pipe", "nul", "long"}}
Short == [c |-> "short"]
DataRels == {"same", "flip", "append", "chop", "empty"}
IsLen(d) == DOMAIN d = {"len"}
DName(d) == IF IsLen(d) THEN "len" ELSE d.c
DLen(d) == IF IsLen(d) THEN d.len ELSE -1
RelApplies(d, rel) == (DName(d) = "empty" \/ DLen(d) = 0) => rel \in {"same", "append"}
Did(d, rel) == [t |-> "data", d |-> d, rel |-> rel]          \* d: a class name or [len |-> n] (n bytes)
SigObj(k, d, salt, rho, s) == [nf |-> 3, magic |-> "sig", kid |-> IdText(SidOf(k), IdLen), v |-> Root(PadT(k, Did(d, "same"), salt), rho, s)]
\* all message lengths: the hashed string is data || salt (20 bytes); lengths around the block boundaries of the hash
Lengths == IF T THEN 0..200 ELSE {0, 1, 2, 3, 35, 36, 43, 44, 45, 99, 100, 107, 108}
EncObj(k, v, r) == [nf |-> 3, magic |-> "enc", kid |-> IdText(SidOf(k), IdLen), v |-> SqV(EncT(k, v, r))]
WireProj(M, W) == [nf |-> W.nf, magic |-> W.magic, kid |-> W.kid, val |-> ValProj(M, W.v)]

WireFields == {"magic", "kid", "val", "struct"}
KidMuts == {"chr1", "chrL", "short4", "id1", "id0", "long9", "full", "toolong", "sizemis", "nocaret", "lower",
            "otherkey", "empty", "lead0"}
WireMutsOf(f, sq) ==
  CASE f = "magic" -> {"alt", "swapkind", "empty", "case"}
    [] f = "kid" -> KidMuts
    [] f = "val" -> (NumMuts \ {"none"}) \ (IF sq THEN {"otherroot"} ELSE {})
    [] f = "struct" -> {"trunc0", "trunc1", "trunc2", "nodelim", "swap", "extra", "dupdelim"}
\* "enc": the encoding itself is altered by somebody who can extract roots (the owner of the key) or who knows the
\* SAEP block (the encryptor): one byte of it (pos, counted from the most significant byte of the n-byte encoding), or
\* the bits above it ("top": the number encoding + 2^(8n), still below the modulus).  The result is a square that is
\* no encoding; for a signature its root is presented, for a ciphertext the square.  Bytes of the message part of a
\* SAEP block are not in the catalogue: altering them gives the encryption of another plaintext.
AltT(x, mu, pos) == [t |-> "alt", k |-> x.k, d |-> x, salt |-> 2 * pos + (IF mu = "top" THEN 1 ELSE 0)]
EncBytes(k) == BitsOf(k) \div 8
EncPositions(k, sq) == IF sq THEN S0..(EncBytes(k) - 1) ELSE 0..(EncBytes(k) - 1)
MutWire(W, f, mu, k, pos) ==
  LET sid == SidOf(k)  n == Len(sid) IN
  CASE f = "enc" -> [W EXCEPT !.v = IF W.v.t = "root" THEN Root(AltT(W.v.x, mu, pos), 0, 1) ELSE SqV(AltT(W.v.x, mu, pos))]
    [] f = "magic" -> [W EXCEPT !.magic = CASE mu = "alt" -> "xxx"
                                           [] mu = "swapkind" -> (IF W.magic = "sig" THEN "enc" ELSE "sig")
                                           [] mu = "empty" -> ""
                                           [] OTHER -> "UPPER"]
    [] f = "kid" -> [W EXCEPT !.kid =
         CASE mu = "chr1" -> LET t == Suffix(sid, IdLen) IN <<73, 68>> \o Dec(IdLen) \o <<94>> \o <<33>> \o Tail(t)
           [] mu = "chrL" -> SubSeq(W.kid, 1, Len(W.kid) - 1) \o <<33>>
           [] mu = "short4" -> IdText(sid, 4)
           [] mu = "id1" -> IdText(sid, 1)
           [] mu = "id0" -> IdText(sid, 0)
           [] mu = "long9" -> IdText(sid, 9)
           [] mu = "full" -> IdText(sid, n)
           [] mu = "toolong" -> <<73, 68>> \o Dec(n + 1) \o <<94, 48>> \o sid
           [] mu = "sizemis" -> <<73, 68>> \o Dec(IdLen - 1) \o <<94>> \o Suffix(sid, IdLen)
           [] mu = "nocaret" -> <<73, 68>> \o Dec(IdLen) \o Suffix(sid, IdLen)
           [] mu = "lower" -> <<105, 100>> \o Dec(IdLen) \o <<94>> \o Suffix(sid, IdLen)
           [] mu = "otherkey" -> IdText(SidOf(OtherKey(k)), IdLen)
           [] mu = "empty" -> <<>>
           [] OTHER -> <<73, 68, 48>> \o Dec(IdLen) \o <<94>> \o Suffix(sid, IdLen)]
    [] f = "val" -> [W EXCEPT !.v = MutNum(W.v, mu, k)]
    [] f = "struct" ->
         CASE mu = "trunc0" -> [W EXCEPT !.nf = 0]
           [] mu = "trunc1" -> [W EXCEPT !.nf = 1]
           [] mu = "trunc2" -> [W EXCEPT !.nf = 2]
           [] mu = "nodelim" -> [W EXCEPT !.nf = 2]
           [] mu = "swap" -> [W EXCEPT !.kid = <<63>>, !.v = [t |-> "bad", g |-> "nonnum"]]
           [] mu = "extra" -> [W EXCEPT !.nf = 4]
           [] OTHER -> [W EXCEPT !.nf = 4, !.kid = <<>>, !.v = [t |-> "bad", g |-> "nonnum"]]

--------------------------------------------------------------------------
(* the cases                                                               *)
Roots4 == {<<0, 1>>, <<0, -1>>, <<1, 1>>, <<1, -1>>}
RootIx(r) == 2 * r[1] + (IF r[2] = 1 THEN 0 ELSE 1)

\* op verify: c = [k, d, salt, root, f, mu, kv, rel]
VerifyCase(c) ==
  LET k == c.k  W == SigObj(k, c.d, 0, c.root[1], c.root[2])
      W2 == IF c.mu = "none" THEN W ELSE MutWire(W, c.f, c.mu, k, c.pos)
      kv == IF c.kv = "same" THEN k ELSE OtherKey(k)
      pad == {<<Mk(k), PadId(k, Did(c.d, "same"), 0), Did(c.d, "same")>>,
              <<Mk(OtherKey(k)), PadId(OtherKey(k), Did(c.d, "same"), 0), Did(c.d, "same")>>}
      acc == VerifyOK(pad, KView(kv), Did(c.d, c.rel), WireProj(Mk(kv), W2))
  IN [op |-> "verify", key |-> k, size |-> KeyAttr[k].size, nizk |-> KeyAttr[k].nizk,
      okey |-> OtherKey(k), osize |-> KeyAttr[OtherKey(k)].size, onizk |-> KeyAttr[OtherKey(k)].nizk,
      d |-> DName(c.d), dlen |-> DLen(c.d), salt |-> c.salt, root |-> RootIx(c.root), f |-> c.f, mu |-> c.mu, pos |-> c.pos, kv |-> c.kv, rel |-> c.rel,
      exp |-> IF acc THEN "acc" ELSE "ref",
      eqv |-> c.mu # "none" /\ acc,
      thm |-> /\ (c.mu = "none" /\ c.kv = "same" /\ c.rel = "same") => acc              \* signatures verify
              /\ acc => /\ c.kv = "same" /\ c.rel = "same"                              \* same key, same data
                        /\ IsNum(W2.v) /\ SameSquare(Mk(k), W2.v, W.v)                  \* same square
              /\ (c.f = "val" /\ c.mu \in {"comp", "neg", "otherroot", "plusm", "minusm", "lead0", "space"}
                    /\ c.kv = "same" /\ c.rel = "same") => acc                          \* all four roots verify
              /\ (c.f = "val" /\ c.mu \in {"plus1", "otherres", "zero", "one", "mm1", "m", "double", "oversized",
                                           "half", "pub", "foreign", "empty", "nonnum"}) => ~acc
              /\ c.f = "enc" => ~acc]                                                   \* no other square is an encoding

\* op decrypt: c = [k, pt, r, f, mu, kv]
DecryptCase(c) ==
  LET k == c.k  fits == SAEPFits(BitsOf(k))
      W == EncObj(k, c.pt, c.r)
      W2 == IF c.mu = "none" THEN W ELSE MutWire(W, c.f, c.mu, k, c.pos)
      kv == IF c.kv = "same" THEN k ELSE OtherKey(k)
      enc == IF fits THEN {<<Mk(k), Res(Mk(k), W.v), c.pt>>} ELSE {}     \* no honest ciphertext exists under a small key
      acc == DecryptOK(enc, KView(kv), WireProj(Mk(kv), W2))
  IN [op |-> "decrypt", key |-> k, size |-> KeyAttr[k].size, nizk |-> KeyAttr[k].nizk,
      okey |-> OtherKey(k), osize |-> KeyAttr[OtherKey(k)].size, onizk |-> KeyAttr[OtherKey(k)].nizk,
      pt |-> c.pt, r |-> c.r, fab |-> ~fits, f |-> c.f, mu |-> c.mu, pos |-> c.pos, kv |-> c.kv,
      exp |-> IF acc THEN "acc" ELSE "ref",
      out |-> IF acc THEN DecryptVal(enc, KView(kv), WireProj(Mk(kv), W2)) ELSE "",
      eqv |-> c.mu # "none" /\ acc,
      thm |-> /\ (c.mu = "none" /\ c.kv = "same" /\ fits) => acc
              /\ acc => /\ c.kv = "same" /\ fits /\ IsNum(W2.v) /\ SameResidue(Mk(k), W2.v, W.v)
                        /\ DecryptVal(enc, KView(kv), WireProj(Mk(kv), W2)) = c.pt    \* the value that was encrypted
              /\ (c.f = "val" /\ c.mu \in {"plusm", "minusm", "lead0", "space"} /\ c.kv = "same" /\ fits) => acc
              /\ (c.f = "val" /\ c.mu \in {"comp", "neg", "plus1", "otherres", "zero", "one", "mm1", "m", "double",
                                           "oversized", "half", "pub", "foreign", "empty", "nonnum"}) => ~acc
              /\ c.f = "enc" => ~acc]

\* op check: c = [k, f, mu, resign]
CheckCase(c) ==
  LET k == c.k  O == KeyObj(k)
      O1 == IF c.mu = "none" THEN O ELSE MutKey(O, c.f, c.mu)
      O2 == IF c.resign THEN Resign(O1) ELSE O1
      pad == {<<Mk(k), PadId(k, DataId(O), 0), DataId(O)>>,
              <<Mk(OtherKey(k)), PadId(OtherKey(k), DataId(KeyObj(OtherKey(k))), 0), DataId(KeyObj(OtherKey(k)))>>}
             \cup (IF c.resign THEN {<<Mk(k), PadId(k, DataId(O1), 1), DataId(O1)>>} ELSE {})
      jc == JacClass(O2)
      accj(j) == CheckOK(pad, KeyProj(O2, j))
      known == jc # 2 \/ (accj(1) = accj(-1) /\ accj(1) = accj(0))
      acc == IF jc # 2 THEN accj(jc) ELSE accj(1)
      proofEquivalent ==           \* the counts are the required ones and every answer is the generated one up to the
        /\ Len(O2.nz) = Len(O.nz)  \* equivalence of its stage: same residue (stage 1), same square (stages 2, 3)
        /\ \A j \in 1..Len(O.nz) :
             \/ IntId(O2.nz[j]) = IntId(O.nz[j])
             \/ O.nz[j].t = "inv" /\ SameResidue(Mk(k), O2.nz[j], O.nz[j])
             \/ O.nz[j].t = "root" /\ SameSquare(Mk(k), O2.nz[j], O.nz[j])
  IN [op |-> "check", key |-> k, size |-> KeyAttr[k].size, nizk |-> KeyAttr[k].nizk,
      okey |-> OtherKey(k), osize |-> KeyAttr[OtherKey(k)].size, onizk |-> KeyAttr[OtherKey(k)].nizk,
      f |-> c.f, mu |-> c.mu, resign |-> c.resign,
      exp |-> IF ~known THEN "?" ELSE IF acc THEN "acc" ELSE "ref",
      eqv |-> c.mu # "none" /\ known /\ acc,
      thm |-> /\ c.mu = "none" => acc                                               \* generated keys are accepted
              /\ (known /\ acc /\ ~c.resign) =>                                     \* what third parties can alter
                    /\ O2.magic = "pub" /\ O2.name = O.name /\ O2.email = O.email /\ O2.ty = O.ty
                    /\ IntId(O2.m) = Mk(k) /\ IntId(O2.y) = Yk(k) /\ O2.nzmagic = O.nzmagic /\ O2.nz = O.nz
                    /\ SameSquare(Mk(k), O2.sig.v, O.sig.v)
              /\ (known /\ acc /\ O2.ty.nizk /\ c.f # "proof") =>                    \* what the owner can alter
                    /\ IntId(O2.m) = Mk(k) /\ IntId(O2.y) = Yk(k) /\ O2.nzmagic = "nzk" /\ proofEquivalent
              /\ c.f = "proof" => (acc <=> \A s \in 1..3 : ReproveCounts[c.mu][s] >= Rounds[s])   \* fewer rounds are refused
              /\ (acc /\ jc # 2) => jc = 1
              /\ IntId(O2.m) # Mk(k) => (known /\ ~acc)                              \* an altered modulus is refused
              /\ (c.f \in {"cnt1", "cnt2", "cnt3"} /\ c.mu \in {"dec", "deconly", "zero"} /\ O2.ty.nizk) => ~acc]

\* ---- the tree of cases: root -> (op, key) -> object -> case
SaltClasses == {"rnd", "topzero"}
PtClasses == {"zero", "ff", "rnd", "text"}
RClasses == {"rnd", "zero", "ff", "topzero"}
LenObjects(k) == IF k = "A" THEN {[d |-> [len |-> n], salt |-> "rnd", root |-> <<n % 2, 1 - 2 * ((n \div 2) % 2)>>] : n \in Lengths} ELSE {}
VObjects(k) ==          \* objects: [d, salt, root]
  LenObjects(k) \cup
  IF T THEN {[d |-> d, salt |-> s, root |-> r] : d \in DataClasses, s \in SaltClasses, r \in Roots4}
  ELSE {[d |-> Short, salt |-> "rnd", root |-> r] : r \in Roots4}
       \cup {[d |-> d, salt |-> "rnd", root |-> r] : d \in DataClasses, r \in {<<0, 1>>, <<1, -1>>}}
       \cup {[d |-> Short, salt |-> "topzero", root |-> r] : r \in {<<0, -1>>, <<1, 1>>}}
\* uses of an object: [f, mu, kv, rel]; "full" objects get the whole catalogue, the others a selection
VUses(k, o, full) ==
  LET rels == {r \in DataRels : RelApplies(o.d, r)}
      none == {[f |-> "val", mu |-> "none", pos |-> -1, kv |-> kv, rel |-> rel] : kv \in {"same", "other"}, rel \in rels}
      cat == UNION {{[f |-> f, mu |-> mu] : mu \in WireMutsOf(f, FALSE)} : f \in WireFields}
      light == {x \in cat : x.f = "val" /\ x.mu \in {"comp", "neg", "otherroot", "plus1", "plusm", "double"}}
  IN none
     \cup {[f |-> x.f, mu |-> x.mu, pos |-> -1, kv |-> "same", rel |-> "same"] : x \in IF full THEN cat ELSE light}
     \cup (IF full THEN {[f |-> x.f, mu |-> x.mu, pos |-> -1, kv |-> "other", rel |-> "same"] :
                            x \in {z \in cat : T \/ z.f = "kid" \/ z.mu \in {"comp", "plusm"}}} ELSE {})
     \cup (IF full THEN {[f |-> "val", mu |-> mu, pos |-> -1, kv |-> "same", rel |-> rel] : mu \in {"comp", "plus1"}, rel \in rels} ELSE {})
     \cup (IF full /\ (T \/ o.root = <<0, 1>>)
          THEN {[f |-> "enc", mu |-> "byte", pos |-> p, kv |-> "same", rel |-> "same"] : p \in EncPositions(k, FALSE)}
               \cup {[f |-> "enc", mu |-> "top", pos |-> 0, kv |-> "same", rel |-> "same"]}
          ELSE {})
VFull(k, o) == ~IsLen(o.d) /\ (T \/ (o.d = Short /\ o.salt = "rnd" /\ o.root \in {<<0, 1>>, <<1, -1>>} /\ k \in {"A", "B"}))

DObjects(k) == IF T THEN {[pt |-> p, r |-> r] : p \in PtClasses, r \in RClasses}
               ELSE {[pt |-> p, r |-> "rnd"] : p \in PtClasses} \cup {[pt |-> "rnd", r |-> r] : r \in RClasses}
DUses(k, o, full) ==
  LET none == {[f |-> "val", mu |-> "none", pos |-> -1, kv |-> kv] : kv \in {"same", "other"}}
      cat == UNION {{[f |-> f, mu |-> mu] : mu \in WireMutsOf(f, TRUE)} : f \in WireFields}
      light == {x \in cat : x.f = "val" /\ x.mu \in {"plusm", "comp", "plus1", "double"}}
  IN none
     \cup {[f |-> x.f, mu |-> x.mu, pos |-> -1, kv |-> "same"] : x \in IF full THEN cat ELSE light}
     \cup (IF full THEN {[f |-> x.f, mu |-> x.mu, pos |-> -1, kv |-> "other"] : x \in {z \in cat : T \/ z.f = "kid" \/ z.mu = "plusm"}} ELSE {})
     \cup (IF full /\ SAEPFits(BitsOf(k))
          THEN {[f |-> "enc", mu |-> "byte", pos |-> p, kv |-> "same"] : p \in EncPositions(k, TRUE)}
               \cup {[f |-> "enc", mu |-> "top", pos |-> 0, kv |-> "same"]}
          ELSE {})
DFull(k, o) == T \/ (o.pt = "rnd" /\ o.r = "rnd")

CUses(k) ==
  {[f |-> "none", mu |-> "none", resign |-> FALSE], [f |-> "none", mu |-> "none", resign |-> TRUE]} \cup
  {[f |-> f, mu |-> mu, resign |-> rs] : f \in KeyFields, mu \in UNION {KeyMutsOf(k, g) : g \in KeyFields}, rs \in BOOLEAN}
CUseOK(k, u) == u.mu = "none" \/ (u.mu \in KeyMutsOf(k, u.f) /\ (u.resign => Resignable(u.f)) /\ (u.f = "proof" => u.resign))
\* quick tier: the expensive refusals late in the proof are sampled for the smallest key only
CQuick(k, u) == T \/ k = "A" \/ u.f \notin {"ent1f", "ent1l", "ent2f", "ent2l", "ent3f", "ent3l"}

Init == st = [k |-> 0]
Next ==
  \/ st.k = 0 /\ \E op \in Ops, k \in KeyNames : st' = [k |-> 1, op |-> op, key |-> k]
  \/ st.k = 1 /\ st.op = "verify" /\ \E o \in VObjects(st.key) : st' = [k |-> 2, op |-> st.op, key |-> st.key, o |-> o]
  \/ st.k = 1 /\ st.op = "decrypt" /\ \E o \in DObjects(st.key) : st' = [k |-> 2, op |-> st.op, key |-> st.key, o |-> o]
  \/ st.k = 1 /\ st.op = "check" /\ \E u \in {x \in CUses(st.key) : CUseOK(st.key, x) /\ CQuick(st.key, x)} :
        st' = [k |-> 3, c |-> CheckCase([k |-> st.key, f |-> u.f, mu |-> u.mu, resign |-> u.resign])]
  \/ st.k = 2 /\ st.op = "verify" /\ \E u \in VUses(st.key, st.o, VFull(st.key, st.o)) :
        st' = [k |-> 3, c |-> VerifyCase([k |-> st.key, d |-> st.o.d, salt |-> st.o.salt, root |-> st.o.root,
                                               f |-> u.f, mu |-> u.mu, pos |-> u.pos, kv |-> u.kv, rel |-> u.rel])]
  \/ st.k = 2 /\ st.op = "decrypt" /\ \E u \in DUses(st.key, st.o, DFull(st.key, st.o)) :
        st' = [k |-> 3, c |-> DecryptCase([k |-> st.key, pt |-> st.o.pt, r |-> st.o.r, f |-> u.f, mu |-> u.mu, pos |-> u.pos, kv |-> u.kv])]
Spec == Init /\ [][Next]_st

Theorems == st.k = 3 => st.c.thm
Emit == st.k = 3 => PrintT(ToJson(st.c))
=============================================================================
