----------------------------- MODULE MC_Coin -----------------------------
(* bounded instances of Coin.tla for TLC: all coins of the honest parties,  *)
(* every message of a bounded alphabet from the adversary at every moment,  *)
(* channel closed at every moment.  The GEN configs print every maximal     *)
(* schedule of two honest parties (direction A: executed on the real code). *)
EXTENDS Coin, TLC, Json

CONSTANTS P, Q, Gg, Hh,   \* the group
          Hon,            \* honest parties
          Budget,         \* number of messages the adversary may send
          ASet,           \* shares of the honest parties
          RSet,           \* commitment randomness of the honest parties (the adversary of the model cannot
                          \* use it; the full range is explored in the all-honest configs)
          Early,          \* TRUE: the broken protocol that opens without waiting (negative control)
          Gen             \* TRUE: keep the schedule as history and print it when everybody is through

VARIABLE hist
mcvars == <<vars, hist>>

Grp == [p |-> P, q |-> Q, g |-> Gg, h |-> Hh]

\* what the adversary may send in the place of the commitment / of an opening value: every residue and the
\* first values outside the range on both sides, a non-number, numbers too large for the model
AdvC == {Num(x) : x \in (-2)..(P + 1)} \cup {Junk, Big(1), Big(-1)}
AdvO == {Num(x) : x \in (-(Q + 1))..(Q + 1)} \cup {Junk, Big(1), Big(-1)}

ASSUME GoodGroup(Grp)
ASSUME Hiding(Grp)
ASSUME NegEquiv(Grp)
ASSUME Fair(Grp)
ASSUME Controllable(Grp)

MCInit == InitWith(Grp, Hon, Budget) /\ hist = <<>>
MCNext ==
  \/ \E i \in Hon :
        /\ \/ \E a \in ASet, r \in RSet : SendCommit(i, a, r)
           \/ RecvCommit(i) \/ SendOpenA(i, Early) \/ SendOpenR(i) \/ RecvA(i) \/ RecvR(i)
        /\ hist' = IF Gen THEN Append(hist, i) ELSE hist
  \/ /\ \E to \in Party : \E m \in (IF advLeft = Budget THEN AdvC ELSE AdvO) : AdvSend(to, m)
     /\ UNCHANGED hist
  \/ /\ \E to \in Party : AdvClose(to)
     /\ UNCHANGED hist
MCSpec == MCInit /\ [][MCNext]_mcvars

AllR == 0..(Q - 1)
R1 == {3}
A1 == {2}
A2 == {0, 3}
H01 == {0, 1}
H0 == {0}
H1 == {1}

\* generator: one line per maximal behaviour of the honest parties
GenPrint == (Gen /\ \A i \in Hon : pc[i] \in Final) =>
               PrintT(ToJson([sched |-> hist, out |-> [i \in Hon |-> out[i]]]))

\* vacuity guards: these must be violated (the check requires TLC to find a counterexample)
NeverDone == \A i \in Hon : pc[i] # "done"
NeverRejectsOpening == \A i \in Hon : ~(pc[i] = "rej" /\ Len(peerO[i]) = 2)
=============================================================================
