------------------------------ MODULE QRTrace ------------------------------
(* recorded calls of the QR card encoding (harness/drv_qr.cc) recomputed with QRCard.tla *)
EXTENDS QRCard, Json, IOUtils, TLC, TLCExt
TraceFile == IF "TRACE" \in DOMAIN IOEnv THEN IOEnv.TRACE ELSE "trace.ndjson"
TraceLog == ndJsonDeserialize(TraceFile)
VARIABLES l, keys, W
vars == <<l, keys, W>>
Ev == TraceLog[l]
IsEv(name) == l <= Len(TraceLog) /\ Ev.e = name /\ "exc" \notin DOMAIN Ev
NP == Len(keys)

TInit == l = 1 /\ keys = <<>> /\ W = 1
TReset == IsEv("Reset") /\ keys' = Ev.keys /\ W' = Ev.w /\ l' = l + 1

TOpen == /\ IsEv("Open")
         /\ Ev.card = OpenCard(keys, W, Ev.t)
         /\ TypeOfCard(keys, Ev.card) = Ev.t
         /\ UNCHANGED <<keys, W>> /\ l' = l + 1

\* TMCG_CreateCardSecret(cs, ring, index): per entry a unit r (draws repeated until coprime), a random bit except in
\* row `index`, whose bits complete every column to XOR 0.  Walks the logged draws in the library's order.
RECURSIVE Walk(_, _, _, _, _, _)
\* returns <<ok, r, b, next>> filling entries in order k = 1..NP, w = 1..W
Walk(coins, pos, k, w, idx, acc) ==
  IF k > NP THEN <<TRUE, acc, pos>>
  ELSE IF w > W THEN Walk(coins, pos, k + 1, 1, idx, acc)
  ELSE IF pos > Len(coins) \/ coins[pos].k # "m" \/ coins[pos].mod # keys[k].m THEN <<FALSE, acc, pos>>
  ELSE IF GCD(coins[pos].v, keys[k].m) # 1 THEN Walk(coins, pos + 1, k, w, idx, acc)     \* rejected draw
  ELSE LET r == coins[pos].v IN
       IF k = idx THEN Walk(coins, pos + 1, k, w + 1, idx, Append(acc, [k |-> k, w |-> w, r |-> r, b |-> 0]))
       ELSE IF pos + 1 > Len(coins) \/ coins[pos + 1].k # "b" THEN <<FALSE, acc, pos>>
       ELSE Walk(coins, pos + 2, k, w + 1, idx, Append(acc, [k |-> k, w |-> w, r |-> r, b |-> coins[pos + 1].v]))
SecretFrom(coins, from, idx) ==
  LET res == Walk(coins, from, 1, 1, idx, <<>>)
      ent(k, w) == CHOOSE e \in {res[2][j] : j \in 1..Len(res[2])} : e.k = k /\ e.w = w
      rr == [k \in 1..NP |-> [w \in 1..W |-> ent(k, w).r]]
      b0 == [k \in 1..NP |-> [w \in 1..W |-> ent(k, w).b]]
      fix(w) == XorAll([k \in 1..NP |-> IF k = idx THEN 0 ELSE b0[k][w]])
      bb == [k \in 1..NP |-> [w \in 1..W |-> IF k = idx THEN fix(w) ELSE b0[k][w]]]
  IN [ok |-> res[1] /\ Len(res[2]) = NP * W, r |-> rr, b |-> bb, next |-> res[3]]

TCSec == /\ IsEv("CSec")
         /\ LET s == SecretFrom(Ev.coins, 1, Ev.i + 1) IN
            /\ s.ok /\ s.next = Len(Ev.coins) + 1
            /\ Ev.sec.r = s.r /\ Ev.sec.b = s.b
            /\ NeutralSecret(Ev.sec)                      \* C01/C02: a fresh card secret never changes the type
         /\ UNCHANGED <<keys, W>> /\ l' = l + 1

TMask == /\ IsEv("Mask")
         /\ Ev.card = MaskCard(keys, Ev["in"], Ev.sec)
         /\ NeutralSecret(Ev.sec) => TypeOfCard(keys, Ev.card) = TypeOfCard(keys, Ev["in"])
         /\ UNCHANGED <<keys, W>> /\ l' = l + 1

TSelf == /\ IsEv("Self")
         /\ Ev.row = RowBits(keys[Ev.i + 1], Ev.card[Ev.i + 1])
         /\ UNCHANGED <<keys, W>> /\ l' = l + 1

TType == /\ IsEv("Type")
         /\ Ev.res = TypeOfBits(Ev.bits)
         /\ Ev.res = TypeOfCard(keys, Ev.card)
         /\ Ev.res = Ev.t                                 \* C01: the type the card was created with
         /\ UNCHANGED <<keys, W>> /\ l' = l + 1

\* stack secret: permutation from the raw words (Fisher-Yates / rotation as in Sampler.tla), then n card secrets
Swap(f, a, b) == [f EXCEPT ![a] = f[b], ![b] = f[a]]
RECURSIVE FY(_, _, _, _)
FY(pi, i, n, w) == IF i >= n - 1 THEN pi ELSE FY(Swap(pi, i, i + (w[i + 1] % (n - i))), i + 1, n, w)
TSSec ==
  /\ IsEv("SSec")
  /\ LET n == Ev.n
         nw == IF Ev.cyclic THEN 1 ELSE n - 1
         wd == [k \in 1..nw |-> Ev.coins[k].v]
         pi == IF Ev.cyclic THEN [i \in 0..(n - 1) |-> ((wd[1] % n) + i) % n] ELSE FY([i \in 0..(n - 1) |-> i], 0, n, wd)
         RECURSIVE Secs(_, _)
         Secs(j, from) == IF j > n THEN <<>> ELSE LET s == SecretFrom(Ev.coins, from, Ev.i + 1) IN <<s>> \o Secs(j + 1, s.next)
         secs == Secs(1, nw + 1)
     IN /\ \A k \in 1..nw : Ev.coins[k].k = "w" /\ Ev.coins[k].v >= 0
        /\ Len(Ev.ss) = n
        /\ \A j \in 1..n : /\ secs[j].ok /\ Ev.ss[j].pi = pi[j - 1] /\ Ev.ss[j].r = secs[j].r /\ Ev.ss[j].b = secs[j].b
                          /\ NeutralSecret(Ev.ss[j])
        /\ secs[n].next = Len(Ev.coins) + 1
        /\ {Ev.ss[j].pi : j \in 1..n} = 0..(n - 1)
        /\ Ev.ret = (IF Ev.cyclic THEN (n - (wd[1] % n)) % n ELSE 0)
        /\ Ev.cyclic => \A j \in 1..n : Ev.ss[j].pi = ((j - 1) + (n - Ev.ret)) % n
  /\ UNCHANGED <<keys, W>> /\ l' = l + 1

TMix ==
  /\ IsEv("Mix")
  /\ LET n == Len(Ev["in"]) IN
     /\ Len(Ev.out) = n /\ Len(Ev.ss) = n
     /\ \A j \in 1..n : Ev.out[j] = MaskCard(keys, Ev["in"][Ev.ss[j].pi + 1], Ev.ss[Ev.ss[j].pi + 1])
     \* C02: position j holds the type of the input card the j-th index designates
     /\ \A j \in 1..n : TypeOfCard(keys, Ev.out[j]) = TypeOfCard(keys, Ev["in"][Ev.ss[j].pi + 1])
  /\ UNCHANGED <<keys, W>> /\ l' = l + 1

TNext == TReset \/ TOpen \/ TCSec \/ TMask \/ TSelf \/ TType \/ TSSec \/ TMix
TSpec == TInit /\ [][TNext]_vars
Accepted == TLCGet("stats").diameter = Len(TraceLog) + 1
=============================================================================
