------------------------------ MODULE PGPFrame ------------------------------
(* OpenPGP framing functions, written from the text of RFC 4880 (and the    *)
(* cited extensions RFC 6637 / draft rfc4880bis for v5 and AEAD), NOT from  *)
(* the C++ code.  This module is the oracle of property C19: every octet    *)
(* string the library emits is compared with what these operators compute,  *)
(* and every decoder result with the fields these operators recover.        *)
(*                                                                          *)
(* Octets are integers 0..255, octet strings and texts are sequences of     *)
(* them (texts: US-ASCII codes).  TLC integers are 32 bit: a number that    *)
(* may exceed 2^31-1 (a four-octet length) is a pair <<hi, lo>> of 16-bit   *)
(* halves.  Hash functions are oracles: the spec fixes the octet string     *)
(* that must be handed to the hash ("framing") and how the digest is used.  *)
(*                                                                          *)
(* Two choices the RFC leaves to the implementation are constants here:     *)
(* LineLen (RFC 4880 6.3: "no more than 76 characters"; GnuPG and LibTMCG   *)
(* use 64) and the line ending EOL (CR LF, the network-normal form).        *)
EXTENDS Integers, Sequences, FiniteSets, Bitwise, TLC

LineLen == 64
EOL == <<13, 10>>
ASSUME LineLen <= 76 /\ LineLen % 4 = 0 /\ LineLen > 0

Byte == 0..255
Min(a, b) == IF a < b THEN a ELSE b
Max(a, b) == IF a < b THEN b ELSE a

RECURSIVE Flat(_)
Flat(ss) == IF ss = <<>> THEN <<>> ELSE Head(ss) \o Flat(Tail(ss))
(* TLC keeps [i \in 1..n |-> e] as an unevaluated lambda; `\o <<>>` turns it into an explicit tuple once *)
Tup(f) == f \o <<>>
Rep(x, n) == Tup([i \in 1..n |-> x])
Take(s, n) == SubSeq(s, 1, Min(n, Len(s)))
Drop(s, n) == SubSeq(s, n + 1, Len(s))

(* big-endian k-octet scalar (RFC 4880 3.1), n < 2^31, k <= 4 *)
BE(n, k) == Tup([i \in 1..k |-> (n \div (256 ^ (k - i))) % 256])
(* four-octet scalar of the number hi*65536+lo *)
BE32(hi, lo) == BE(hi, 2) \o BE(lo, 2)
(* eight-octet scalar of a number < 2^31 *)
BE8(n) == <<0, 0, 0, 0>> \o BE(n, 4)
(* value of a big-endian string; only used where it is < 2^31 *)
RECURSIVE Val(_)
Val(bs) == IF bs = <<>> THEN 0 ELSE Val(SubSeq(bs, 1, Len(bs) - 1)) * 256 + bs[Len(bs)]
Pair(n) == <<n \div 65536, n % 65536>>

-----------------------------------------------------------------------------
(* 6.3/6.4  Radix-64: the input is taken in 24-bit groups, each group as    *)
(* four 6-bit values indexing the table A-Z a-z 0-9 + /; an incomplete last *)
(* group is zero-padded and the sextets that carry no data bit are "=".     *)
R64Code(v) == IF v < 26 THEN 65 + v
              ELSE IF v < 52 THEN 97 + (v - 26)
              ELSE IF v < 62 THEN 48 + (v - 52)
              ELSE IF v = 62 THEN 43 ELSE 47
PadChar == 61
IsR64Char(c) == (c >= 65 /\ c <= 90) \/ (c >= 97 /\ c <= 122) \/ (c >= 48 /\ c <= 57) \/ c = 43 \/ c = 47
R64Value(c) == IF c >= 65 /\ c <= 90 THEN c - 65
               ELSE IF c >= 97 /\ c <= 122 THEN c - 97 + 26
               ELSE IF c >= 48 /\ c <= 57 THEN c - 48 + 52
               ELSE IF c = 43 THEN 62 ELSE 63
ByteAt(bs, i) == IF i <= Len(bs) THEN bs[i] ELSE 0
R64Char(bs, k) ==
  LET g == (k - 1) \div 4
      j == (k - 1) % 4
      m == Min(3, Len(bs) - 3 * g)                   \* data octets in this group (1..3)
      v == ByteAt(bs, 3*g + 1) * 65536 + ByteAt(bs, 3*g + 2) * 256 + ByteAt(bs, 3*g + 3)
      sx == (v \div (64 ^ (3 - j))) % 64
  IN IF 6 * j >= 8 * m THEN PadChar ELSE R64Code(sx)
Radix64(bs) == Tup([k \in 1..(4 * ((Len(bs) + 2) \div 3)) |-> R64Char(bs, k)])

(* line structure: lines of exactly LineLen characters, the last one 1..LineLen *)
NLines(cs) == (Len(cs) + LineLen - 1) \div LineLen
Line(cs, i) == SubSeq(cs, (i - 1) * LineLen + 1, Min(i * LineLen, Len(cs)))
Lines(cs) == Tup([i \in 1..NLines(cs) |-> Line(cs, i)])
(* lines separated by EOL (no EOL after the last line) *)
RECURSIVE Join(_, _)
Join(ls, sep) == IF ls = <<>> THEN <<>>
                 ELSE IF Len(ls) = 1 THEN ls[1] ELSE ls[1] \o sep \o Join(Tail(ls), sep)
Radix64Wrapped(bs) == Join(Lines(Radix64(bs)), EOL)

(* decoding: characters outside the alphabet (line ends, white space, pad) carry no data; *)
(* n data characters give floor(6n/8) octets                                              *)
R64Filter(cs) == SelectSeq(cs, IsR64Char)
Radix64Decode(cs) ==
  LET d == R64Filter(cs)
      n == (Len(d) * 6) \div 8
      Sx(i) == IF i <= Len(d) THEN R64Value(d[i]) ELSE 0
      Oct(i) == LET g == (i - 1) \div 3  r == (i - 1) % 3
                    v == Sx(4*g + 1) * 262144 + Sx(4*g + 2) * 4096 + Sx(4*g + 3) * 64 + Sx(4*g + 4)
                IN (v \div (256 ^ (2 - r))) % 256
  IN Tup([i \in 1..n |-> Oct(i)])

(* 6.1  CRC-24: generator 0x864CFB (with the leading bit 0x1864CFB), init 0xB704CE,       *)
(* i.e. the remainder of the message polynomial, most significant bit first               *)
CRC24Init == 11994318
CRC24Poly == 25578747
CrcBit(c) == LET s == c * 2 IN IF s >= 16777216 THEN s ^^ CRC24Poly ELSE s
CrcOctet(c, b) == CrcBit(CrcBit(CrcBit(CrcBit(CrcBit(CrcBit(CrcBit(CrcBit(c ^^ (b * 65536)))))))))
RECURSIVE CrcFold(_, _, _)
CrcFold(c, bs, i) == IF i > Len(bs) THEN c ELSE CrcFold(CrcOctet(c, bs[i]), bs, i + 1)
CRC24(bs) == CrcFold(CRC24Init, bs, 1) % 16777216
CRC24Octets(bs) == BE(CRC24(bs), 3)
(* "=" followed by the radix-64 of the three CRC octets *)
ChecksumLine(bs) == <<PadChar>> \o Radix64(CRC24Octets(bs))

(* 6.2  armor: header line, armor headers, blank line, data, checksum, tail *)
Dashes == <<45, 45, 45, 45, 45>>
ArmorTypes == {1, 2, 5, 6}     \* the library's enum: MESSAGE, SIGNATURE, PRIVATE KEY BLOCK, PUBLIC KEY BLOCK
\* "PGP MESSAGE" etc. as ASCII
TxtPGP == <<80, 71, 80, 32>>
TypeText(t) == TxtPGP \o
  (CASE t = 1 -> <<77, 69, 83, 83, 65, 71, 69>>
     [] t = 2 -> <<83, 73, 71, 78, 65, 84, 85, 82, 69>>
     [] t = 5 -> <<80, 82, 73, 86, 65, 84, 69, 32, 75, 69, 89, 32, 66, 76, 79, 67, 75>>
     [] t = 6 -> <<80, 85, 66, 76, 73, 67, 32, 75, 69, 89, 32, 66, 76, 79, 67, 75>>)
TxtBEGIN == <<66, 69, 71, 73, 78, 32>>
TxtEND == <<69, 78, 68, 32>>
HeaderLine(t) == Dashes \o TxtBEGIN \o TypeText(t) \o Dashes
TailLine(t) == Dashes \o TxtEND \o TypeText(t) \o Dashes
(* an armor header "Key: Value" *)
TxtComment == <<67, 111, 109, 109, 101, 110, 116>>
ArmorHeader(key, value) == key \o <<58, 32>> \o value
(* hs: sequence of armor header lines (already "Key: Value"); data non-empty *)
Armor(t, hs, data) ==
  HeaderLine(t) \o EOL
  \o Flat([i \in 1..Len(hs) |-> hs[i] \o EOL])
  \o EOL
  \o Radix64Wrapped(data) \o EOL
  \o ChecksumLine(data) \o EOL
  \o TailLine(t) \o EOL

-----------------------------------------------------------------------------
(* 4.2  packet headers *)
TagNew(t) == 192 + t                                  \* bit 7 and bit 6 set, tag 0..63
TagOld(t, lt) == 128 + 4 * t + lt                      \* tag 0..15, length-type 0..3
TagDecode(o) == IF o < 128 THEN [ok |-> FALSE, new |-> FALSE, tag |-> 0, lt |-> 0]
                ELSE IF o >= 192 THEN [ok |-> TRUE, new |-> TRUE, tag |-> o - 192, lt |-> 0]
                ELSE [ok |-> TRUE, new |-> FALSE, tag |-> (o - 128) \div 4, lt |-> o % 4]

(* 4.2.2  new-format body lengths, n < 2^31 *)
LenNew(n) == IF n < 192 THEN <<n>>
             ELSE IF n < 8384 THEN <<((n - 192) \div 256) + 192, (n - 192) % 256>>
             ELSE <<255>> \o BE(n, 4)
(* ... and for a length given as <<hi, lo>> *)
LenNewP(p) == IF p[1] = 0 /\ p[2] < 8384 THEN LenNew(p[2]) ELSE <<255>> \o BE32(p[1], p[2])
(* decoding of a new-format length header at the start of os: [hl, len = <<hi,lo>>, part] ; hl = 0: refused *)
NoLen == [hl |-> 0, len |-> <<0, 0>>, part |-> FALSE]
LenNewDecode(os) ==
  IF Len(os) < 1 THEN NoLen
  ELSE LET o == os[1] IN
    IF o < 192 THEN [hl |-> 1, len |-> <<0, o>>, part |-> FALSE]
    ELSE IF o < 224 THEN (IF Len(os) < 2 THEN NoLen
                          ELSE [hl |-> 2, len |-> <<0, (o - 192) * 256 + os[2] + 192>>, part |-> FALSE])
    ELSE IF o = 255 THEN (IF Len(os) < 5 THEN NoLen
                          ELSE [hl |-> 5, len |-> <<os[2] * 256 + os[3], os[4] * 256 + os[5]>>, part |-> FALSE])
    ELSE [hl |-> 1, len |-> Pair(2 ^ (o % 32)), part |-> TRUE]      \* 224..254: 1 << (o & 0x1F), 1 .. 2^30
(* 4.2.1 old-format lengths: length-type 0,1,2 = 1,2,4 octets; 3 = indeterminate (to the end of input) *)
LenOldDecode(os, lt) ==
  CASE lt = 0 -> IF Len(os) < 1 THEN NoLen ELSE [hl |-> 1, len |-> <<0, os[1]>>, part |-> FALSE]
    [] lt = 1 -> IF Len(os) < 2 THEN NoLen ELSE [hl |-> 2, len |-> <<0, os[1] * 256 + os[2]>>, part |-> FALSE]
    [] lt = 2 -> IF Len(os) < 4 THEN NoLen
                 ELSE [hl |-> 4, len |-> <<os[1] * 256 + os[2], os[3] * 256 + os[4]>>, part |-> FALSE]
    [] OTHER -> NoLen
(* a complete new-format packet *)
Packet(t, body) == <<TagNew(t)>> \o LenNew(Len(body)) \o body

(* 4.2.2.4 partial body lengths.  chunks: sequence of [part |-> BOOLEAN, n |-> Nat]; the body is cut accordingly.   *)
(* A partial chunk of n = 2^e octets is announced by the octet 224+e.                                                *)
Log2(n) == CHOOSE e \in 0..30 : 2 ^ e = n
RECURSIVE Chunked(_, _)
Chunked(body, chunks) ==
  IF chunks = <<>> THEN <<>>
  ELSE LET c == Head(chunks) IN
       (IF c.part THEN <<224 + Log2(c.n)>> ELSE LenNew(c.n))
       \o Take(body, c.n) \o Chunked(Drop(body, c.n), Tail(chunks))
PartialPacket(t, body, chunks) == <<TagNew(t)>> \o Chunked(body, chunks)
(* rules: only the data packets (8, 9, 11, 18) may use partial lengths, the first partial chunk has at least 512 *)
(* octets, the last chunk is not partial, and the chunks cover the body exactly                                   *)
RECURSIVE SumN(_)
SumN(chunks) == IF chunks = <<>> THEN 0 ELSE Head(chunks).n + SumN(Tail(chunks))
PartialAllowedTag(t) == t \in {8, 9, 11, 18}
ChunkingValid(t, body, chunks) ==
  /\ chunks # <<>>
  /\ ~chunks[Len(chunks)].part
  /\ SumN(chunks) = Len(body)
  /\ (\E i \in 1..Len(chunks) : chunks[i].part) => (PartialAllowedTag(t) /\ chunks[1].part /\ chunks[1].n >= 512)

(* 3.2  multiprecision integers.  The integer is given as a big-endian octet string (possibly with leading  *)
(* zero octets): two-octet bit count, then the minimal big-endian representation.                          *)
RECURSIVE StripZ(_)
StripZ(bs) == IF bs # <<>> /\ bs[1] = 0 THEN StripZ(Tail(bs)) ELSE bs
BitLen8(b) == IF b = 0 THEN 0 ELSE CHOOSE k \in 1..8 : 2 ^ (k - 1) <= b /\ b < 2 ^ k
MPIBits(bs) == LET s == StripZ(bs) IN IF s = <<>> THEN 0 ELSE 8 * (Len(s) - 1) + BitLen8(s[1])
MPI(bs) == BE(MPIBits(bs), 2) \o StripZ(bs)
(* reading an MPI at the start of os: consumed octets (0 = refused) and the value as minimal octet string *)
MPIDecode(os) ==
  IF Len(os) < 2 THEN [used |-> 0, val |-> <<>>]
  ELSE LET n == (os[1] * 256 + os[2] + 7) \div 8 IN
       IF Len(os) < 2 + n THEN [used |-> 0, val |-> <<>>]
       ELSE [used |-> 2 + n, val |-> StripZ(SubSeq(os, 3, 2 + n))]
(* the two-octet checksum used with secret key material and session keys: sum of the octets mod 65536 *)
RECURSIVE SumOctets(_)
SumOctets(bs) == IF bs = <<>> THEN 0 ELSE (Head(bs) + SumOctets(Tail(bs))) % 65536

(* 3.7.1.3  iterated and salted S2K: coded count  (16 + (c & 15)) << ((c >> 4) + 6) *)
S2KCount(c) == (16 + (c % 16)) * (2 ^ ((c \div 16) + 6))
(* the octets one hash context is given: preload zeros, then salt||passphrase repeated up to `count` octets, *)
(* but at least once in full; described as [zeros, unit, total] (total counts unit octets only)               *)
S2KStream(j, salt, pass, iterated, c) ==
  LET unit == salt \o pass
  IN [zeros |-> j, unit |-> unit,
      total |-> IF iterated THEN Max(S2KCount(c), Len(unit)) ELSE Len(unit)]
S2KContexts(sklen, hashlen) == (sklen + hashlen - 1) \div hashlen
(* octet at position i (1-based) of such a stream *)
StreamAt(st, i) == IF i <= st.zeros THEN 0 ELSE st.unit[((i - st.zeros - 1) % Len(st.unit)) + 1]

-----------------------------------------------------------------------------
(* 12.2  fingerprints and key ids; 5.2.4 signature hashing.  What must be handed to the hash function. *)
HashSHA1 == 2
HashSHA256 == 8
FprInputV4(key) == <<153>> \o BE(Len(key), 2) \o key            \* 0x99, two-octet length, key packet body
FprInputV5(key) == <<154>> \o BE(Len(key), 4) \o key            \* 0x9A, four-octet length
KeyIdV4(digest) == SubSeq(digest, 13, 20)                          \* low-order 64 bits of the 160-bit fingerprint
KeyIdV5(digest) == SubSeq(digest, 1, 8)                            \* high-order 64 bits
(* signature trailers: hashed = the signature packet body from the version octet through the hashed subpackets *)
TrailerV3(hashed) == hashed                                        \* type octet and four-octet time, given by the caller
TrailerV4(hashed) == hashed \o <<4, 255>> \o BE(Len(hashed), 4)
TrailerV5(hashed) == hashed \o <<5, 255>> \o BE8(Len(hashed))
Trailer(v, hashed) == CASE v = 3 -> TrailerV3(hashed) [] v = 4 -> TrailerV4(hashed) [] v = 5 -> TrailerV5(hashed)
KeyFrame(v, key) == IF v = 5 THEN FprInputV5(key) ELSE FprInputV4(key)
(* user id / user attribute in a certification: v3 the bare contents, v4/v5 0xB4 / 0xD1 and a four-octet length *)
UidFrame(v, uid) == IF v = 3 THEN uid ELSE <<180>> \o BE(Len(uid), 4) \o uid
UatFrame(v, uat) == IF v = 3 THEN uat ELSE <<209>> \o BE(Len(uat), 4) \o uat
(* canonical text: every line ending becomes CR LF (a LF not preceded by CR gets one) *)
RECURSIVE Canon(_, _)
Canon(d, last) == IF d = <<>> THEN <<>>
                  ELSE (IF d[1] = 10 /\ last # 13 THEN <<13, 10>> ELSE <<d[1]>>) \o Canon(Tail(d), d[1])
CanonText(d) == Canon(d, 0)
SigHashInput(kind, v, a, b, hashed) ==
  CASE kind = "binary"   -> a \o Trailer(v, hashed)
    [] kind = "text"     -> CanonText(a) \o Trailer(v, hashed)
    [] kind = "alone"    -> Trailer(v, hashed)
    [] kind = "key"      -> KeyFrame(v, a) \o Trailer(v, hashed)
    [] kind = "subkey"   -> KeyFrame(v, a) \o KeyFrame(v, b) \o Trailer(v, hashed)
    [] kind = "certuid"  -> KeyFrame(v, a) \o UidFrame(v, b) \o Trailer(v, hashed)
    [] kind = "certuat"  -> KeyFrame(v, a) \o UatFrame(v, b) \o Trailer(v, hashed)
(* the two "left" octets stored in the signature packet *)
Left16(digest) == SubSeq(digest, 1, 2)

(* RFC 6637 section 7/8: KDF input  00 00 00 01 || ZB || Param,                                              *)
(* Param = curve OID (with its length octet) || 18 (ECDH) || 03 01 KDF-hash KEK-algo || "Anonymous Sender    " *)
(*         || 20 octets of the recipient's fingerprint (the leftmost 20 of a v5 fingerprint)                  *)
AnonymousSender == <<65, 110, 111, 110, 121, 109, 111, 117, 115, 32, 83, 101, 110, 100, 101, 114, 32, 32, 32, 32>>
KdfParam(oidWithLen, hash, sym, fpr) == oidWithLen \o <<18, 3, 1, hash, sym>> \o AnonymousSender \o Take(fpr, 20)
KdfInput(zb, oidWithLen, hash, sym, fpr) == <<0, 0, 0, 1>> \o zb \o KdfParam(oidWithLen, hash, sym, fpr)

-----------------------------------------------------------------------------
(* 5.x  packet bodies, field by field.  MPIs are given as octet strings.                                   *)
SubPkt(type, critical, data) == LenNew(Len(data) + 1) \o <<type + (IF critical THEN 128 ELSE 0)>> \o data
BodyPKESK(keyid, algo, fields) == <<3>> \o keyid \o <<algo>> \o fields
PktPKESK_RSA(keyid, me) == Packet(1, BodyPKESK(keyid, 1, MPI(me)))
PktPKESK_ELG(keyid, gk, myk) == Packet(1, BodyPKESK(keyid, 16, MPI(gk) \o MPI(myk)))
PktPKESK_ECDH(keyid, epk, rkw) == Packet(1, BodyPKESK(keyid, 18, MPI(epk) \o <<Len(rkw)>> \o rkw))
(* v4 signature: hashed part (version .. hashed subpackets) as prepared, empty unhashed area, left 16 bits, MPIs *)
PktSig(hashed, left, mpis) == Packet(2, hashed \o <<0, 0>> \o left \o Flat([i \in 1..Len(mpis) |-> MPI(mpis[i])]))
SigHashedArea(type, pkalgo, hashalgo, subpkts) == <<4, type, pkalgo, hashalgo>> \o BE(Len(subpkts), 2) \o subpkts
(* 5.2.3.1 signature subpacket lengths: like the new-format lengths, but the two-octet form has first octet *)
(* 192..254 (lengths up to 16319) and there is no partial form                                                *)
SubLenDecode(os) ==
  IF Len(os) < 1 THEN NoLen
  ELSE LET o == os[1] IN
    IF o < 192 THEN [hl |-> 1, len |-> <<0, o>>, part |-> FALSE]
    ELSE IF o < 255 THEN (IF Len(os) < 2 THEN NoLen
                          ELSE [hl |-> 2, len |-> <<0, (o - 192) * 256 + os[2] + 192>>, part |-> FALSE])
    ELSE (IF Len(os) < 5 THEN NoLen
          ELSE [hl |-> 5, len |-> <<os[2] * 256 + os[3], os[4] * 256 + os[5]>>, part |-> FALSE])
(* a subpacket length n written in the one-, two- or five-octet form (where that form can express n) *)
SubLenForm(form, n) == CASE form = 1 -> <<n>>
                         [] form = 2 -> <<((n - 192) \div 256) + 192, (n - 192) % 256>>
                         [] form = 5 -> <<255>> \o BE(n, 4)
SubPktForm(form, type, critical, data) ==
  SubLenForm(form, Len(data) + 1) \o <<type + (IF critical THEN 128 ELSE 0)>> \o data
(* a subpacket area cut into its subpackets *)
RECURSIVE ParseSubs(_)
ParseSubs(os) ==
  IF os = <<>> THEN [ok |-> TRUE, subs |-> <<>>]
  ELSE LET d == SubLenDecode(os)  n == d.len[2] IN
       IF d.hl = 0 \/ d.len[1] # 0 \/ n < 1 \/ Len(os) < d.hl + n THEN [ok |-> FALSE, subs |-> <<>>]
       ELSE LET t == os[d.hl + 1]
                rest == ParseSubs(Drop(os, d.hl + n))
            IN [ok |-> rest.ok,
                subs |-> <<[type |-> t % 128, critical |-> t >= 128, data |-> SubSeq(os, d.hl + 2, d.hl + n)]>> \o rest.subs]
(* 5.2.3.x: body sizes of the subpacket types that have a fixed layout *)
SubBodyOk(sp) ==
  LET n == Len(sp.data) IN
  CASE sp.type \in {2, 3, 9} -> n = 4
    [] sp.type \in {4, 7, 25} -> n = 1 /\ sp.data[1] \in {0, 1}
    [] sp.type = 5 -> n = 2
    [] sp.type = 12 -> n = 22 /\ sp.data[1] \in {128, 192}          \* class octet: 0x80 must be set, 0x40 = sensitive
    [] sp.type = 16 -> n = 8
    [] sp.type = 20 -> n >= 8 /\ n = 8 + (sp.data[5] * 256 + sp.data[6]) + (sp.data[7] * 256 + sp.data[8])
    [] sp.type = 29 -> n >= 1
    [] sp.type = 31 -> n >= 2
    [] sp.type = 33 -> n >= 1 /\ ((sp.data[1] = 4 /\ n = 21) \/ (sp.data[1] = 5 /\ n = 33))
    [] OTHER -> TRUE
(* the part of a v4/v5 signature that is prepared for hashing: version, type, algorithms, count, hashed subpackets *)
ParseHashed(os) ==
  IF Len(os) < 6 THEN [ok |-> FALSE, v |-> 0, type |-> 0, pk |-> 0, hash |-> 0, subs |-> <<>>]
  ELSE LET cnt == os[5] * 256 + os[6]
           ps == ParseSubs(Drop(os, 6))
       IN [ok |-> Len(os) = 6 + cnt /\ ps.ok, v |-> os[1], type |-> os[2], pk |-> os[3], hash |-> os[4], subs |-> ps.subs]
SubIdx(subs, t) == {k \in 1..Len(subs) : subs[k].type = t}
HasOne(subs, t, data) == Cardinality(SubIdx(subs, t)) = 1 /\ \A k \in SubIdx(subs, t) : subs[k].data = data
HasNone(subs, t) == SubIdx(subs, t) = {}
(* a complete v4 signature packet body *)
BodySigV4(type, pkalgo, hashalgo, hashedsubs, unhashedsubs, left, mpis) ==
  <<4, type, pkalgo, hashalgo>> \o BE(Len(hashedsubs), 2) \o hashedsubs \o BE(Len(unhashedsubs), 2) \o unhashedsubs
  \o left \o Flat([i \in 1..Len(mpis) |-> MPI(mpis[i])])

(* public key / subkey bodies *)
BodyPubV4(time, algo, material) == <<4>> \o BE32(time[1], time[2]) \o <<algo>> \o material
BodyPubV5(time, algo, material) == <<5>> \o BE32(time[1], time[2]) \o <<algo>> \o BE(Len(material), 4) \o material
MPIs(ms) == Flat([i \in 1..Len(ms) |-> MPI(ms[i])])
ECMaterial(algo, oid, point, kdfhash, kdfsym) ==
  <<Len(oid)>> \o oid \o MPI(point) \o (IF algo = 18 THEN <<3, 1, kdfhash, kdfsym>> ELSE <<>>)
(* 5.5.3 secret key / secret subkey bodies: the public key body, then the secret part.                       *)
(* usage octet 0: secret MPIs in the clear, two-octet sum of their octets;                                     *)
(* usage octet 254: cipher, S2K specifier (3 = iterated+salted, hash, 8 salt octets, coded count), IV,         *)
(*                  CFB-encrypted (secret MPIs || 20-octet SHA-1 of them)                                      *)
SecretClear(ms) == <<0>> \o MPIs(ms) \o BE(SumOctets(MPIs(ms)), 2)
SecretS2K254Head(sym, hash, salt, count, iv) == <<254, sym, 3, hash>> \o salt \o <<count>> \o iv
PktUid(uid) == Packet(13, uid)
PktLit(time, data) == Packet(11, <<98, 0>> \o BE32(time[1], time[2]) \o data)     \* 'b', no file name, date
PktSed(data) == Packet(9, data)
PktSeipd(data) == Packet(18, <<1>> \o data)
PktMdc(hash) == <<TagNew(19), 20>> \o hash                                         \* fixed 0xD3 0x14
PktAead(sk, aead, chunk, iv, data) == Packet(20, <<1, sk, aead, chunk>> \o iv \o data)
=============================================================================
