SPECIFICATION Spec
CONSTANTS
 Fam = "powT"
 P <- PThorough
INVARIANTS Theorems Emit
CHECK_DEADLOCK FALSE
