SPECIFICATION Spec
CONSTANTS
 P = 23
 Q = 11
 N = 3
 LE = 2
 Kind = "c04_skc"
 CoinSet = {1, 7}
 RSet = {0}
 PowM <- TabPowM
INVARIANT Theorem
CHECK_DEADLOCK FALSE
