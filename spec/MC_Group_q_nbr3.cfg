SPECIFICATION Spec
CONSTANTS
 MaxP = 31
 MaxQ = 15
 MaxK = 7
 Margin = 4
 Variants <- N_two
 NaiveMaxP = 0
 Mode = "nbr"
 CheckArith = FALSE
 SortedBases = TRUE
INVARIANTS BlockIsDefinition Sound Complete Shape Elements Emit
CHECK_DEADLOCK FALSE
