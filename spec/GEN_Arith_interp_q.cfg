SPECIFICATION Spec
CONSTANTS
 Fams = {"ip"}
 P <- PQuick
INVARIANTS Theorems Emit
CHECK_DEADLOCK FALSE
