SPECIFICATION Spec
CONSTANTS
 Fams = {"ip", "big"}
 P <- PQuick
INVARIANTS Theorems Emit
CHECK_DEADLOCK FALSE
