SPECIFICATION Spec
CONSTANTS
 Fams = {"sqp", "sqn", "ip", "big"}
 P <- PThorough
INVARIANTS Theorems Emit
CHECK_DEADLOCK FALSE
