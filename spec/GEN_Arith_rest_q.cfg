SPECIFICATION Spec
CONSTANTS
 Fams = {"sqp", "sqn", "ip", "big"}
 P <- PQuick
INVARIANTS Theorems Emit
CHECK_DEADLOCK FALSE
