SPECIFICATION MCSpec
CONSTANTS
 P = 11
 Q = 5
 Gg = 4
 Hh = 3
 Hon <- H0
 Budget = 3
 ASet <- A2
 RSet <- R1
 Early = FALSE
 Gen = FALSE
INVARIANTS C17_Order C17_Agreement C17_Complete C17_Sum C17_Reject C17_NoOutput
CHECK_DEADLOCK FALSE
