------------------------------- MODULE MC_QR -------------------------------
(* Theorems about QRCard.tla checked exhaustively for tiny Blum moduli: every type, every unit r, every bit      *)
(* pattern: a card secret whose columns XOR to zero preserves the type (C01), any other secret changes it; open    *)
(* cards decode to their type; masking twice composes.                                                            *)
EXTENDS QRCard, TLC
CONSTANTS NPl, Wd
K1 == [m |-> 21, y |-> 5, p |-> 3, q |-> 7]      \* 5 is a non-residue mod 3 and mod 7
K2 == [m |-> 77, y |-> 6, p |-> 7, q |-> 11]     \* 6 is a non-residue mod 7 and mod 11
Keys == IF NPl = 1 THEN <<K1>> ELSE <<K1, K2>>
VARIABLES t, sec, n
vars == <<t, sec, n>>
Bits == [1..NPl -> [1..Wd -> {0, 1}]]
RSet(k) == IF k = 1 THEN Units(21) ELSE {1, 2, 3, 5, 10, 76}
Init == t \in 0..(2 ^ Wd - 1) /\ n = 0 /\ sec = [r |-> [k \in 1..NPl |-> [w \in 1..Wd |-> 1]], b |-> [k \in 1..NPl |-> [w \in 1..Wd |-> 0]]]
Next == /\ n = 0 /\ n' = 1 /\ t' = t
        /\ \E b \in Bits, r1 \in RSet(1), r2 \in RSet(2) :
              sec' = [r |-> [k \in 1..NPl |-> [w \in 1..Wd |-> IF k = 1 THEN r1 ELSE r2]], b |-> [k \in 1..NPl |-> [w \in 1..Wd |-> b[k][w]]]]
Spec == Init /\ [][Next]_vars
KeysOK == \A k \in 1..NPl : LET key == Keys[k] IN key.m = key.p * key.q /\ ~IsQRp(key.y, key.p) /\ ~IsQRp(key.y, key.q)
OpenDecodes == TypeOfCard(Keys, OpenCard(Keys, Wd, t)) = t
MaskTheorem == LET c == OpenCard(Keys, Wd, t)  c2 == MaskCard(Keys, c, sec) IN
               (NeutralSecret(sec) <=> TypeOfCard(Keys, c2) = t)
MaskTwice == LET c == OpenCard(Keys, Wd, t)  c2 == MaskCard(Keys, c, sec)  c3 == MaskCard(Keys, c2, sec) IN
             TypeOfCard(Keys, c3) = t          \* the same secret twice: bits cancel, squares stay squares
=============================================================================
