SPECIFICATION MCSpec
CONSTANTS
 P = 47
 Q = 23
 Gg = 2
 Hh = 3
 Hon <- H0
 Budget = 3
 ASet <- A1
 RSet <- R1
 Early = FALSE
 Gen = FALSE
INVARIANTS C17_Order C17_Agreement C17_Complete C17_Sum C17_Reject C17_NoOutput
CHECK_DEADLOCK FALSE
