--------------------------------- MODULE OT ---------------------------------
(***************************************************************************)
(* Naor-Pinkas oblivious transfer (SODA 2001, Protocol 4.1 and the remarks  *)
(* of section 4.1) in a Schnorr group G = [p, q, g]  (g of prime order q in *)
(* the units mod p), written from the paper and property C18, not the C++.  *)
(*                                                                          *)
(*   chooser (index sigma, coins a, b, c_i):                                *)
(*        x = g^a, y = g^b, z_sigma = g^(ab), z_i = g^(c_i) elsewhere       *)
(*        optimised 1-of-N: only z_0 = g^(ab) / g^sigma is sent and         *)
(*        z_i = z_0 g^i is derived by the sender                            *)
(*   sender (messages M_i, fresh coins (s_i, r_i) per message):             *)
(*        refuses unless x, y, z_i are group elements and the z_i are       *)
(*        pairwise distinct; else w_i = x^(s_i) g^(r_i),                    *)
(*        e_i = M_i z_i^(s_i) y^(r_i)                                       *)
(*   chooser:  M = e_sigma / w_sigma^b                                      *)
(*                                                                          *)
(* Vectors are 1-based sequences: message index i (0-based in the property  *)
(* and in the code) is position i+1.  All numbers stay below 2^31 for       *)
(* p <= 46337.                                                              *)
(***************************************************************************)
EXTENDS Prims, TLC

\* ---------------------------------------------------------------- the group
Member(G, a) == a > 0 /\ a < G.p /\ PowM(a, G.q, G.p) = 1
Elems(G) == {a \in 1..(G.p - 1) : PowM(a, G.q, G.p) = 1}
\* primality by trial division, exact for n <= 46337 = the largest modulus whose products fit TLC's integers
SmallPrime(n) == n > 1 /\ n <= 46337 /\ \A d \in 2..215 : (d < n /\ d * d <= n) => (n % d # 0)
IsSchnorr(G) == /\ SmallPrime(G.p) /\ SmallPrime(G.q) /\ (G.p - 1) % G.q = 0
                /\ G.g # 1 /\ Member(G, G.g)
Zq(G) == 0..(G.q - 1)
Gen(G, e) == PowM(G.g, e % G.q, G.p)                      \* g^e, any integer e
Pow(G, b, e) == PowM(b, e % G.q, G.p)                     \* b^e for a group element b
Mul(G, a, b) == (a * b) % G.p
Inv(G, a) == InvM(a, G.p)
Div(G, a, b) == Mul(G, a, Inv(G, b))
DLog(G, x) == CHOOSE e \in Zq(G) : Gen(G, e) = x          \* small groups only

Variants == {"two", "n", "opt"}
\* parameters of one transfer: [G, var, N, sigma, M]
ParOK(pr) == /\ pr.var \in Variants /\ pr.N >= 2 /\ (pr.var = "two" => pr.N = 2)
             /\ pr.sigma \in 0..(pr.N - 1) /\ Len(pr.M) = pr.N
             /\ \A i \in 1..pr.N : Member(pr.G, pr.M[i])
             /\ (pr.var = "opt" => pr.N <= pr.G.q)           \* z_0 g^i must not wrap around

\* ------------------------------------------------------- chooser, first move
\* a, b in Z_q; c: sequence of N exponents (the entry of the chosen index is not used)
Query(G, var, N, sigma, a, b, c) ==
  LET ab == (a * b) % G.q IN
  IF var = "opt" THEN <<Gen(G, a), Gen(G, b), Div(G, Gen(G, ab), Gen(G, sigma))>>
  ELSE <<Gen(G, a), Gen(G, b)>> \o [i \in 1..N |-> IF i = sigma + 1 THEN Gen(G, ab) ELSE Gen(G, c[i])]
\* the exponent hidden in the i-th query element of an honest chooser
EffC(G, var, sigma, a, b, c, i) ==
  LET ab == (a * b) % G.q IN
  IF var = "opt" THEN (ab - sigma + (i - 1)) % G.q
  ELSE IF i = sigma + 1 THEN ab ELSE c[i] % G.q

\* --------------------------------------------------------------- the sender
QLen(var, N) == IF var = "opt" THEN 3 ELSE N + 2
ZOf(G, var, Q, i) == IF var = "opt" THEN Mul(G, Q[3], Gen(G, i - 1)) ELSE Q[2 + i]
\* the sender answers exactly the queries that can open at most one message
Guards(G, var, N, Q) ==
  /\ Len(Q) >= QLen(var, N)
  /\ \A k \in 1..QLen(var, N) : Member(G, Q[k])
  /\ (var # "opt") => \A i, j \in 1..N : (i < j) => Q[2 + i] # Q[2 + j]
\* one message slot: <<w, e>> for query elements x, y, z, message m, coins s, r
Slot(G, x, y, z, m, s, r) ==
  <<Mul(G, Pow(G, x, s), Gen(G, r)), Mul(G, Mul(G, Pow(G, z, s), Pow(G, y, r)), m % G.p)>>
Answer(G, var, N, Q, M, s, r) ==
  [i \in 1..N |-> Slot(G, Q[1], Q[2], ZOf(G, var, Q, i), M[i], s[i], r[i])]

\* ------------------------------------------------------ chooser, second move
ChooserAccepts(G, N, A) == Len(A) = N /\ \A i \in 1..N : Member(G, A[i][1])
Open(G, b, we) == Div(G, we[2], Pow(G, we[1], b))         \* also the "curious chooser" on any slot

\* ------------------------------------------------------------------ coins
\* Binding convention (which draw of the party is which coin; the only thing here that is an
\* observation about the implementation rather than a consequence of the paper):
\*   chooser "two": a, b, c_(1-sigma);  "n": a, b, c_0 .. c_(N-1) (the draw for sigma is discarded);
\*   "opt": a, b.   sender "two": r_0, s_0, r_1, s_1;  "n"/"opt": s_0, r_0, s_1, r_1, ...
NCC(var, N) == CASE var = "two" -> 3 [] var = "n" -> N + 2 [] var = "opt" -> 2
NSC(N) == 2 * N
CA(cc) == cc[1]
CB(cc) == cc[2]
CC(var, N, cc) == CASE var = "two" -> <<cc[3], cc[3]>>
                    [] var = "n" -> [i \in 1..N |-> cc[2 + i]]
                    [] var = "opt" -> <<>>
SS(var, N, sc) == [i \in 1..N |-> IF var = "two" THEN sc[2 * i] ELSE sc[2 * i - 1]]
SR(var, N, sc) == [i \in 1..N |-> IF var = "two" THEN sc[2 * i - 1] ELSE sc[2 * i]]
QueryOf(pr, cc) == Query(pr.G, pr.var, pr.N, pr.sigma, CA(cc), CB(cc), CC(pr.var, pr.N, cc))
AnswerOf(pr, Q, sc) == Answer(pr.G, pr.var, pr.N, Q, pr.M, SS(pr.var, pr.N, sc), SR(pr.var, pr.N, sc))
\* the exponents hidden in an honest chooser's query elements
EffVec(pr, cc) == LET c == CC(pr.var, pr.N, cc) IN [i \in 1..pr.N |-> EffC(pr.G, pr.var, pr.sigma, CA(cc), CB(cc), c, i)]
Collides(pr, cc) == LET ev == EffVec(pr, cc) IN \E i, j \in 1..pr.N : i < j /\ ev[i] = ev[j]
Flat(A) == [k \in 1..(2 * Len(A)) |-> A[(k + 1) \div 2][2 - (k % 2)]]      \* w_0, e_0, w_1, e_1, ...

\* ------------------------------------------------- malformed first moves (C05 catalogue)
BIG == 1073741824       \* stands for "v + p 2^70": any value >= 2^30 is far above p
MutNames == {"plus1", "otherres", "zero", "one", "pm1", "p", "q", "plusq", "nonmember", "neg", "plusp",
             "oversized", "swap", "dupprev", "dupfirst", "trunc"}
MutApplies(Q, k, m) == CASE m = "swap" -> k < Len(Q) [] m = "dupprev" -> k > 1 [] m = "dupfirst" -> k > 3 [] OTHER -> TRUE
Mutate(G, Q, k, m) ==
  LET v == Q[k] IN
  CASE m = "plus1" -> [Q EXCEPT ![k] = v + 1]
    [] m = "otherres" -> [Q EXCEPT ![k] = Mul(G, v, G.g)]
    [] m = "zero" -> [Q EXCEPT ![k] = 0]
    [] m = "one" -> [Q EXCEPT ![k] = 1]
    [] m = "pm1" -> [Q EXCEPT ![k] = G.p - 1]
    [] m = "p" -> [Q EXCEPT ![k] = G.p]
    [] m = "q" -> [Q EXCEPT ![k] = G.q]
    [] m = "plusq" -> [Q EXCEPT ![k] = v + G.q]
    [] m = "nonmember" -> [Q EXCEPT ![k] = G.p - v]         \* -v: its order is twice that of v
    [] m = "neg" -> [Q EXCEPT ![k] = 0 - v]
    [] m = "plusp" -> [Q EXCEPT ![k] = v + G.p]
    [] m = "oversized" -> [Q EXCEPT ![k] = BIG + v]
    [] m = "swap" -> [Q EXCEPT ![k] = Q[k + 1], ![k + 1] = v]
    [] m = "dupprev" -> [Q EXCEPT ![k] = Q[k - 1]]
    [] m = "dupfirst" -> [Q EXCEPT ![k] = Q[3]]
    [] m = "trunc" -> SubSeq(Q, 1, k - 1)

\* ---------------------------------------------------------------- theorems
\* (evaluated exhaustively by TLC in small groups: MC_OT.tla)
\* one message slot seen by a chooser that knows a, b and put g^c into the query
ThSlot(G, a, b, c, Msgs) ==
  LET x == Gen(G, a)  y == Gen(G, b)  z == Gen(G, c)
      d == (c - a * b) % G.q
  IN /\ \A s, r \in Zq(G), m \in Msgs :
          LET we == Slot(G, x, y, z, m, s, r) IN
          /\ Member(G, we[1]) /\ Member(G, we[2])
          /\ Open(G, b, we) = Mul(G, m, Gen(G, s * d))        \* the algebra of the protocol
          /\ (Open(G, b, we) = m) <=> ((s * d) % G.q = 0)
     \* sender's security (information theoretic): for c # ab the pair (w, key) is uniform on G x G,
     \* for c = ab the key is determined by w (that is why the chooser can open this slot)
     /\ Cardinality({Slot(G, x, y, z, 1, s, r) : s, r \in Zq(G)}) = IF d = 0 THEN G.q ELSE G.q * G.q
     /\ (d = 0) => \A s, r \in Zq(G) : LET we == Slot(G, x, y, z, 1, s, r) IN we[2] = Pow(G, we[1], b)

\* a query that passes the guards opens at most one message, whoever made it
OpensAtMostOne(G, var, N, Q) ==
  Guards(G, var, N, Q) =>
     Cardinality({i \in 1..N : ZOf(G, var, Q, i) = Pow(G, Q[2], DLog(G, Q[1]))}) <= 1
=============================================================================
