INIT InitRotS
NEXT NextRotS
INVARIANTS InvRotS
CONSTANTS
 P = 47
 Q = 23
 Gg = 2
 Hh = 3
 Ns = {2, 3}
 CoinSet = {0}
 ChSet <- AllQ
 Wide = FALSE
 PowM <- TabPowM
CHECK_DEADLOCK FALSE
