SPECIFICATION TSpec
CONSTANTS
 N = 4
 T = 1
 Honest = {0,1,3}
 FixF3 = FALSE
 FixF4 = FALSE
 FixF15 = FALSE
INVARIANTS Agreement NoDuplicate Integrity
PROPERTIES DeliveryStepT
POSTCONDITION Accepted
CHECK_DEADLOCK FALSE
