------------------------------ MODULE MC_GJKR ------------------------------
(***************************************************************************)
(* GJKR.tla run as a protocol: N parties, the reliable broadcast and the    *)
(* private links as sequences, synchronous phases (a party takes its k-th   *)
(* step when every other live party has taken k-1 steps, i.e. has sent what *)
(* the step reads - the synchrony assumption of [GJKR07]), and at most one  *)
(* deviating party.  The deviating party runs the honest program; before    *)
(* its messages of a phase go out the adversary may rewrite them (that is   *)
(* also how harness/drv_gjkr.cc makes a real object deviate):               *)
(*   commitments   one C_k multiplied by g                                  *)
(*   shares        a wrong s or s' to one recipient                         *)
(*   complaints    a complaint without cause                                *)
(*   answers       the answer to one complainer withheld, or with a wrong s *)
(*   extraction    a wrong A_k (another group element, or A_k + 1);         *)
(*                 a complaint without cause carrying the pair really held  *)
(*                 or a damaged one                                          *)
(*   reconstruction a wrong share published                                  *)
(*   any phase     silence from that phase on                                *)
(* at most MaxDev rewritten phases per run.  Wrong values keep the other     *)
(* component, so that no rewritten pair opens a commitment a second time     *)
(* (the adversary does not know log_g h).                                    *)
(***************************************************************************)
EXTENDS GJKR

CONSTANTS N, T, GP, GQ, GG, GH,
          BadSet,      \* who may deviate (N stands for "nobody")
          CoefA,       \* range of the coefficients a_k of the deviating party (all others are fixed, see HonestPoly)
          Deltas,      \* offsets of wrong values
          MaxDev, Canonical

GRP == [p |-> GP, q |-> GQ, g |-> GG, h |-> GH]
P == 0..(N - 1)
HonestPoly(i) == [a |-> [k \in 1..(T + 1) |-> (3 * i + 2 * k + 1) % GQ], b |-> [k \in 1..(T + 1) |-> (i + 4 * k) % GQ]]

VARIABLES W, poly, ps, step, cur, bc, ln, adv
vars == <<W, poly, ps, step, cur, bc, ln, adv>>

Bad == W.bad
Honest == P \ Bad
Live(i) == ps[i].pc # "done"

Init ==
  /\ \E f \in BadSet, fa \in [1..(T + 1) -> CoefA] :
        /\ (f = N) => (fa = HonestPoly(0).a)
        /\ W = [n |-> N, t |-> T, G |-> GRP, bad |-> IF f = N THEN {} ELSE {f}]
        /\ poly = [i \in P |-> IF i = f THEN [a |-> fa, b |-> HonestPoly(i).b] ELSE HonestPoly(i)]
  /\ ps = [i \in P |-> Fresh(W, i)]
  /\ step = [i \in P |-> 0]
  /\ cur = [i \in P |-> [g |-> [j \in P |-> 0], r |-> [j \in P |-> 0], p |-> [j \in P |-> 0]]]
  /\ bc = (ChG :> [j \in P |-> <<>>])
  /\ ln = [j \in P |-> [i \in P |-> <<>>]]
  /\ adv = [used |-> 0, silent |-> FALSE]

Items(s) == TLCEval([k \in 1..Len(s) |-> [ok |-> TRUE, v |-> s[k]]])
After(s, c) == SubSeq(s, c + 1, Len(s))
NetF(i) ==
  LET st == ps[i] IN
  TLCEval(IF st.pc = "rdS" THEN [j1 \in 1..N |-> Items(After(ln[j1 - 1][i], cur[i].p[j1 - 1]))]
  ELSE IF st.pc = "rec" THEN [j1 \in 1..N |-> IF st.D \in DOMAIN bc THEN Items(After(bc[st.D][j1 - 1], cur[i].r[j1 - 1])) ELSE <<>>]
  ELSE [j1 \in 1..N |-> Items(After(bc[ChG][j1 - 1], cur[i].g[j1 - 1]))])
CountOk(reads, j, ch) == Cardinality({k \in 1..Len(reads) : reads[k].from = j /\ reads[k].ok /\ reads[k].ch = ch})

\* ------------------------------------------------------------------ the adversary's catalogue
ReplaceAt(s, k, m) == [s EXCEPT ![k] = m]
InsertBefore(s, k, ins) == SubSeq(s, 1, k - 1) \o ins \o SubSeq(s, k, Len(s))
DropRange(s, a, b) == SubSeq(s, 1, a - 1) \o SubSeq(s, b + 1, Len(s))
Victims(f) == P \ {f}
Rewrites(f, st, out) ==         \* st: the state after the step, out: its honest messages
  LET q == GQ  g == GG  p == GP IN
  CASE st.pc = "rdC" -> { ReplaceAt(out, k, [out[k] EXCEPT !.v = (@ * g) % p]) : k \in 1..Len(out) }
    [] st.pc = "rdS" -> { ReplaceAt(out, k, [out[k] EXCEPT !.v = (@ + d) % q]) : k \in 1..Len(out), d \in Deltas }
    [] st.pc = "rdK" -> { InsertBefore(out, Len(out), <<MsgB(ChG, v)>>) : v \in {w \in Victims(f) : \A k \in 1..Len(out) : out[k].v # w} }
    [] st.pc = "rdN" -> { DropRange(out, 3 * m - 2, 3 * m) : m \in 1..((Len(out) - 1) \div 3) }
                         \cup { ReplaceAt(out, 3 * m - 1, [out[3 * m - 1] EXCEPT !.v = (@ + d) % q]) : m \in 1..((Len(out) - 1) \div 3), d \in Deltas }
    [] st.pc = "rdA" -> { ReplaceAt(out, k, [out[k] EXCEPT !.v = (@ * g) % p]) : k \in 1..Len(out) }
                         \cup { ReplaceAt(out, k, [out[k] EXCEPT !.v = @ + 1]) : k \in 1..Len(out) }
    [] st.pc = "rdX" -> { InsertBefore(out, Len(out), <<MsgB(ChG, v), MsgB(ChG, (st.s[v + 1] + d) % q), MsgB(ChG, st.sp[v + 1])>>) :
                              v \in (st.qual \ {f}), d \in Deltas \cup {0} }
    [] st.pc = "rec" -> IF out = <<>> THEN {} ELSE { ReplaceAt(out, 1, [out[1] EXCEPT !.v = (@ + d) % q]) : d \in Deltas }
    [] OTHER -> {}

\* ------------------------------------------------------------------ one step of party i
Ready(i) ==
  /\ Live(i)
  /\ \A j \in P \ {i} : ~Live(j) \/ step[j] >= step[i]
  /\ Canonical => \A j \in P : (j < i /\ Live(j)) => step[j] > step[i]

Flush(i, out) ==        \* the messages go onto the channels
  LET bs == SelectSeq(out, LAMBDA m : m.kind = "B")
      chs == {bs[k].ch : k \in 1..Len(bs)}
      bc1 == [c \in (DOMAIN bc) \cup chs |-> IF c \in DOMAIN bc THEN bc[c] ELSE [j \in P |-> <<>>]]
      RECURSIVE PutB(_, _)
      PutB(k, b) == IF k > Len(bs) THEN b ELSE PutB(k + 1, [b EXCEPT ![bs[k].ch][i] = Append(@, bs[k].v)])
      ss == SelectSeq(out, LAMBDA m : m.kind = "S")
      RECURSIVE PutS(_, _)
      PutS(k, l) == IF k > Len(ss) THEN l ELSE PutS(k + 1, [l EXCEPT ![i][ss[k].to] = Append(@, ss[k].v)])
  IN /\ bc' = PutB(1, bc1)
     /\ ln' = PutS(1, ln)

StepWith(i, st, r, ch) ==      \* r: what the phase operator yields for party i in state st (an argument: evaluated once)
  /\ ps' = [ps EXCEPT ![i] = r.st]
  /\ step' = [step EXCEPT ![i] = @ + 1]
  /\ cur' = [cur EXCEPT ![i] = IF st.pc = "init" THEN @
                               ELSE IF ch = ChP THEN [@ EXCEPT !.p = [j \in P |-> @[j] + CountOk(r.reads, j, ch)]]
                               ELSE IF ch = ChG THEN [@ EXCEPT !.g = [j \in P |-> @[j] + CountOk(r.reads, j, ch)]]
                               ELSE [@ EXCEPT !.r = [j \in P |-> @[j] + CountOk(r.reads, j, ch)]]]
  /\ IF i \notin Bad
     THEN Flush(i, r.out) /\ UNCHANGED adv
     ELSE IF adv.silent THEN Flush(i, <<>>) /\ UNCHANGED adv
     ELSE \/ Flush(i, r.out) /\ UNCHANGED adv
          \/ /\ adv.used < MaxDev
             /\ \/ \E o \in Rewrites(i, r.st, r.out) : Flush(i, o) /\ adv' = [adv EXCEPT !.used = @ + 1]
                \/ r.out # <<>> /\ Flush(i, <<>>) /\ adv' = [used |-> adv.used + 1, silent |-> TRUE]
  /\ UNCHANGED <<W, poly>>
Step(i) ==
  /\ Ready(i)
  /\ StepWith(i, ps[i], IF ps[i].pc = "init" THEN Deal(W, i, poly[i].a, poly[i].b) ELSE Phase(W, ps[i], NetF(i)), ReadCh(ps[i]))

Next == \E i \in P : Step(i)
Spec == Init /\ [][Next]_vars

\* ------------------------------------------------------------------ the property
AllDone == \A i \in Honest : ~Live(i)
Inv_Complete == AllDone => PComplete(W, Honest, ps)
Inv_Agree == AllDone => PAgree(W, Honest, ps)
Inv_HonestQualified == AllDone => PHonestQualified(W, Honest, ps)
Inv_ShareV == (AllDone /\ PComplete(W, Honest, ps)) => PShareV(W, Honest, ps)
Inv_SharePedersen == (AllDone /\ PComplete(W, Honest, ps)) => PSharePedersen(W, Honest, ps)
Inv_DealerConsistent == (AllDone /\ PComplete(W, Honest, ps)) => PDealerConsistent(W, Honest, ps)
Inv_OneSecret == (AllDone /\ PComplete(W, Honest, ps)) => POneSecret(W, Honest, ps)
Inv_HonestContribute == (AllDone /\ PComplete(W, Honest, ps)) => PHonestContribute(W, Honest, ps)
Inv_HonestNotReconstructed == AllDone => PHonestNotReconstructed(W, Honest, ps)
\* vacuity guards (expected to be VIOLATED: used by the check to see that the interesting situations are reached)
Reach_Disqualified == ~(AllDone /\ \E i \in Honest : ps[i].qual # P /\ ps[i].ret)
Reach_Reconstruction == ~(AllDone /\ \E i \in Honest : ps[i].D # <<>> /\ ps[i].ret)
Reach_Adoption == ~(AllDone /\ \E i \in Honest : ps[i].adopted # {} /\ ps[i].ret)
=============================================================================
