SPECIFICATION Spec
CONSTANTS
 Insts <- Insts_C04_qd
 MaskOneAsCoded = FALSE
INVARIANT Thm
CHECK_DEADLOCK FALSE
