---------------------------- MODULE ArithTrace ----------------------------
(***************************************************************************)
(* Trace validation for property C09 (direction B).  harness/drv_arith.cc  *)
(* "record" logs one event per call of the real routines (seeded inputs    *)
(* up to 46337, so that every product stays below 2^31): power variants,   *)
(* square roots modulo primes and products of two primes, interpolation,   *)
(* prime generators, mpz <-> gcry_mpi conversion, and operation sequences  *)
(* on plain and secure TMCG_Bigint registers.  TLC reads the log, judges   *)
(* every event with the operators of Arith.tla and keeps the register file *)
(* of the wrapper as specification state.  A judged-bad event is printed   *)
(* (one JSON line) and counted; the whole log is always consumed.          *)
(***************************************************************************)
EXTENDS Arith, Json, IOUtils, TLCExt

TraceFile == IF "TRACE" \in DOMAIN IOEnv THEN IOEnv.TRACE ELSE "trace.ndjson"
TraceLog == ndJsonDeserialize(TraceFile)

VARIABLES l,       \* position in the log
          regs,    \* the wrapper's registers as integers (one file: both back ends must show these values)
          live,    \* FALSE after a bad wrapper event: the rest of that execution is skipped
          nbad     \* number of events judged bad
tvars == <<l, regs, live, nbad>>

NReg == 3
Ev == TraceLog[l]
Has(k) == k \in DOMAIN Ev
REFUSED == -2000000000          \* wrapper events: the call threw

Bad(kind) == PrintT(ToJson([bad |-> l, kind |-> kind, ev |-> Ev]))
\* pre: what the harness promised about the input (a failure is a harness problem, not a verdict about the library)
Judge(pre, post) == IF ~pre THEN Bad("pre") /\ nbad' = nbad + 1
                    ELSE IF ~post THEN Bad("post") /\ nbad' = nbad + 1
                    ELSE nbad' = nbad

--------------------------------------------------------------------------
(* prime generators: the defining relations, at least the requested sizes   *)
GenPost ==
  CASE Ev.fn \in {"sprime", "smprime", "sprime_naive", "smprime_naive", "sprime_noninc"} ->
         SafePrimePair(Ev.p, Ev.q) /\ Bits(Ev.q) >= Ev.size
    [] Ev.fn = "sprime2g" -> SafePrimePair(Ev.p, Ev.q) /\ Bits(Ev.q) >= Ev.size /\ Ev.p % 8 = 7
    [] Ev.fn = "sprime3mod4" -> BlumPrime(Ev.p) /\ Bits(Ev.p) >= Ev.size
    [] Ev.fn \in {"oprime", "oprime_noninc"} -> IsPrime(Ev.p) /\ Bits(Ev.p) >= Ev.size
    [] Ev.fn \in {"lprime", "lprime_prefix"} ->
         SchnorrTriple(Ev.p, Ev.q, Ev.k) /\ Bits(Ev.p) >= Ev.psize /\ Bits(Ev.q) >= Ev.qsize
    [] OTHER -> FALSE

(* conversion between the two big-number back ends is lossless (identity of *)
(* the hexadecimal numerals, any length); small values also by value        *)
ConvPost ==
  /\ Ev.ok1 /\ Ev.ok2
  /\ Ev.back = Ev.x
  /\ (Ev.nbits = Ev.bits \/ (Ev.x = "0" /\ Ev.nbits \in {0, 1}))
  /\ Ev.small >= 0 => (Ev.bits = Bits(Ev.small) /\ Ev.ui = Ev.small)

(* power variants.  A negative power is judged by its defining equation     *)
(* out * b^|x| = 1 (no search for the inverse).  out: value, -1 refusal,    *)
(* -2 call not made by the harness (only admissible where a refusal is due) *)
PowPre == Ev.m >= 2 /\ Ev.m <= 46340
PowPost ==
  LET m == Ev.m  b == Ev.b  x == Ev.x  out == Ev.out
      c == IF Ev.fn = "spowm" THEN PowClassOdd(b, x, m) ELSE PowClass(b, x, m)
  IN IF out = -2 THEN c = REFUSE
     ELSE IF x >= 0 THEN OutcomeOK(out, PowSq(b, x, m), c)
     ELSE IF c = MUST THEN out \in 0..(m - 1) /\ (out * PowSq(b, -x, m)) % m = 1 % m
     ELSE out = -1

(* square roots *)
SqrtpPre == IsPrime(Ev.p) /\ Ev.p <= 46340 /\ Ev.a = Sq(Ev.s, Ev.p) /\ Ev.a # 0
SqrtpPost == IsRoot(Ev.out, Ev.a, Ev.p)
SqrtnPre == /\ IsPrime(Ev.p) /\ IsPrime(Ev.q) /\ Ev.p # Ev.q /\ Ev.p <= 46340 /\ Ev.q <= 46340
            /\ Ev.a % Ev.p = Sq(Ev.s % Ev.p, Ev.p) /\ Ev.a % Ev.q = Sq(Ev.s % Ev.q, Ev.q)
            /\ Coprime(Ev.s, Ev.p) /\ Coprime(Ev.s, Ev.q)
SqrtnPost == /\ Len(Ev.outs) \in {1, 4}
             /\ \A i \in 1..Len(Ev.outs) : IsRootCRT(Ev.outs[i], Ev.a, Ev.p, Ev.q)
             /\ \A i, j \in 1..Len(Ev.outs) : i # j => Ev.outs[i] # Ev.outs[j]      \* "all four" roots

(* interpolation: answers "yes" exactly for pairwise distinct abscissae, and then the polynomial passes
   through every point *)
IpPre == IsPrime(Ev.q) /\ Ev.q <= 46340 /\ Len(Ev.a) = Len(Ev.b) /\ Len(Ev.a) >= 1
IpPost == /\ Ev.ret = B01(DistinctMod(Ev.a, Ev.q))
          /\ Ev.ret = 1 => Interpolates(Ev.f, Ev.a, Ev.b, Ev.q) /\ Reduced(Ev.f, Ev.q)

--------------------------------------------------------------------------
(* the wrapper: one register file over Z; Ev itself is the operation instance *)
RegsAfter == OpAfter(Ev, regs)
SameRegs(logged, r) == \A i \in 0..(NReg - 1) : logged[i + 1] = r[i]
Logged(seq) == [i \in 0..(NReg - 1) |-> seq[i + 1]]
BigPre == OpDefined(Ev, regs)
BigPost ==
  LET x == regs[Ev.d] IN
  CASE Ev.op \in UpdatingOps ->
         /\ Ev.pv = OpValue(Ev, regs)
         /\ (Ev.sv = OpValue(Ev, regs) \/ (Ev.op \in PlainOnlyOps /\ Ev.sv = REFUSED))
         /\ SameRegs(Ev.pr, RegsAfter) /\ SameRegs(Ev.sr, RegsAfter)
    [] Ev.op = "cmp" ->
         /\ Ev.pc = CmpWant(x, regs[Ev.s]) /\ Ev.sc = CmpWant(x, regs[Ev.s])
         /\ SameRegs(Ev.pr, regs) /\ SameRegs(Ev.sr, regs)
    [] Ev.op = "obs" ->
         LET want == ObsWant(x, Ev.u)
         IN /\ Ev.pc = want
            /\ \A i \in 1..4 : Ev.sc[i] = want[i]
            /\ Ev.sc[5] \in {want[5], -1}               \* equality with a word is refused on secret values
            /\ Ev.psz = Bits(Abs(x)) /\ Ev.ssz = Bits(Abs(x))
            /\ Ev.pui = x /\ Ev.sui = x /\ Ev.ppr = B01(IsPrime(x))
            /\ SameRegs(Ev.pr, regs) /\ SameRegs(Ev.sr, regs)
    [] OTHER -> FALSE

--------------------------------------------------------------------------
TInit == l = 1 /\ regs = [i \in 0..(NReg - 1) |-> 0] /\ live = TRUE /\ nbad = 0

Step ==
  CASE Ev.e = "Reset" -> regs' = [i \in 0..(NReg - 1) |-> 0] /\ live' = TRUE /\ nbad' = nbad
    [] Ev.e = "gen"   -> Judge(TRUE, GenPost) /\ UNCHANGED <<regs, live>>
    [] Ev.e = "conv"  -> Judge(TRUE, ConvPost) /\ UNCHANGED <<regs, live>>
    [] Ev.e = "pow"   -> Judge(PowPre, PowPost) /\ UNCHANGED <<regs, live>>
    [] Ev.e = "sqrtp" -> Judge(SqrtpPre, SqrtpPost) /\ UNCHANGED <<regs, live>>
    [] Ev.e = "sqrtn" -> Judge(SqrtnPre, SqrtnPost) /\ UNCHANGED <<regs, live>>
    [] Ev.e = "ip"    -> Judge(IpPre, IpPost) /\ UNCHANGED <<regs, live>>
    [] Ev.e = "big"   -> IF ~live THEN UNCHANGED <<regs, live, nbad>>
                         ELSE IF ~InProperty(Ev, regs)
                         THEN \* a negative operand: outside the property, not judged; the logged registers are adopted
                              \* if both back ends still agree, otherwise the rest of the execution is skipped
                              /\ nbad' = nbad
                              /\ live' = (Ev.pr = Ev.sr)
                              /\ regs' = IF Ev.pr = Ev.sr THEN Logged(Ev.pr) ELSE regs
                         ELSE /\ Judge(BigPre, BigPost)
                              /\ live' = (BigPre /\ BigPost)
                              /\ regs' = IF BigPre /\ BigPost THEN RegsAfter ELSE regs
    [] OTHER -> Bad("unknown event") /\ nbad' = nbad + 1 /\ UNCHANGED <<regs, live>>

TNext == l <= Len(TraceLog) /\ Step /\ l' = l + 1
TSpec == TInit /\ [][TNext]_tvars

\* the whole log was consumed (the search is a single path)
Accepted == TLCGet("stats").diameter = Len(TraceLog) + 1
\* for a run that is to fail on a bad event instead of reporting it
NoBad == nbad = 0
=============================================================================
