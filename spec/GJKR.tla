-------------------------------- MODULE GJKR --------------------------------
(***************************************************************************)
(* New-DKG of Gennaro, Jarecki, Krawczyk, Rabin [GJKR07, Fig. 2] as a      *)
(* protocol: what ONE party does, phase by phase, as a function of the      *)
(* messages it reads.  Party j has abscissa j+1; G = [p, q, g, h].          *)
(*                                                                         *)
(*   Generating x                                                          *)
(*   1(a) deal     choose f_i, f'_i of degree t, broadcast                  *)
(*                 C_ik = g^a_ik h^b_ik, send (s_ij, s'_ij) to P_j          *)
(*   1(b) complain check g^s_ji h^s'_ji = prod_k C_jk^((i+1)^k)   (4);      *)
(*                 broadcast a complaint against every j that fails         *)
(*   1(c) answer   a dealer broadcasts the pair of every complainer         *)
(*   1(d) qualify  disqualified: more than t complaints, or an answer that  *)
(*                 falsifies (4) - and, the answer being what keeps a       *)
(*                 complained-about dealer in, a complaint left unanswered   *)
(*   2,3           QUAL; x_i = sum_{j in QUAL} s_ji, x'_i likewise           *)
(*   Extracting y                                                           *)
(*   4(a)          broadcast A_ik = g^a_ik                                  *)
(*   4(b)          check g^s_ji = prod_k A_jk^((i+1)^k)           (5);      *)
(*                 complain by publishing (s_ji, s'_ji)                      *)
(*   4(c)          a complaint is valid when its pair satisfies (4) and not *)
(*                 (5): z_j, f_j are reconstructed in public from t+1       *)
(*                 verified shares; y = prod_{QUAL} A_j0,                    *)
(*                 v_j = prod_{i in QUAL} prod_k A_ik^((j+1)^k)              *)
(*                                                                         *)
(* Channels: a reliable broadcast (per sender one FIFO stream that every    *)
(* party reads identically - property C14) and private links.  A stream is  *)
(* a sequence of integers; reading past its end is the time-out (FAIL).     *)
(* The wire format is the library's: lists are ended by a marker >= n,      *)
(* complaints are bare indices, answers and extraction complaints triples   *)
(* (who, s, s'), the shares published for a reconstruction pairs on a       *)
(* channel named by the sorted list of the parties to reconstruct.          *)
(*                                                                         *)
(* Every phase is an operator  (W, st, F) -> [st, out, reads]:  st the      *)
(* party's state, F[j+1] the items [ok, v] still unread from sender j,      *)
(* `reads' the reads performed, in order, `out' the messages to send next.  *)
(* MC_GJKR.tla feeds F from the modelled network (exhaustive exploration,   *)
(* one deviating party), GJKRTrace.tla from the log of the real code.       *)
(*                                                                         *)
(* Where GennaroJareckiKrawczykRabinDKG::Generate knowingly differs from    *)
(* the paper, the difference is modelled and named:                         *)
(*  D1 reads: a stream that fails or carries an out-of-range value costs     *)
(*     the sender a complaint (phase 1) / its qualification (later); a       *)
(*     repeated complaint disqualifies the complainer; at most n+1 list      *)
(*     items are read per sender.                                            *)
(*  D2 a dealer with more than t complaints is disqualified without its     *)
(*     answers being read.                                                   *)
(*  D3 a published pair that satisfies (4) is adopted by the party it is    *)
(*     for, whether or not that party complained.                            *)
(*  D4 extraction: a complainer whose pair fails (4), or satisfies (5), is  *)
(*     itself put on the list of parties to reconstruct (the paper ignores  *)
(*     such a complaint); more than t entries on that list, or fewer than   *)
(*     t+1 verified shares for an entry, make the party give up.            *)
(*  D5 the first t+1 verified shares in the order (self, ascending index)   *)
(*     are interpolated.                                                     *)
(* Two switches select the behaviour of the pinned code where it departs    *)
(* from the DEFINITION in a way that breaks property C15 (see the findings  *)
(* in checks/gjkr_common.py); TRUE is the definition:                        *)
(*  UnansweredRule  a dealer that leaves a complaint unanswered is           *)
(*                  disqualified (FALSE: it stays qualified - Generate()     *)
(*                  only judges the pairs a dealer chooses to publish)       *)
(*  FreshImage      equation (5) is checked with the share the party holds   *)
(*                  (FALSE: with g^s of the share first received, although   *)
(*                  an adopted pair has replaced it - the cached g__s_ij)    *)
(***************************************************************************)
EXTENDS DKG, TLC

CONSTANTS UnansweredRule, FreshImage

ChG == <<-1>>                   \* the channel of Generate()
ChP == <<-3>>                   \* "channel" tag of the private links in read records
Parties(W) == 0..(W.n - 1)
Abs(v) == IF v < 0 THEN -v ELSE v
IsElem(G, a) == a > 0 /\ a < G.p /\ PowM(a, G.q, G.p) = 1
InRange(G, v) == Abs(v) < G.q
Eval(G, f, z) == LET RECURSIVE E(_) E(k) == IF k > Len(f) THEN 0 ELSE (f[k] * PowM(z % G.q, k - 1, G.q) + E(k + 1)) % G.q IN E(1)
RECURSIVE AscSeq(_)
AscSeq(S) == IF S = {} THEN <<>> ELSE LET m == Min(S) IN <<m>> \o AscSeq(S \ {m})
SetOfSeq(s) == {s[k] : k \in 1..Len(s)}
\* value at x0 of the polynomial of degree < |S| through (j+1, sh[j]), j in S   (mod q)
LagrangeAt(G, S, sh, x0) ==
  LET Coef(j) == LET RECURSIVE F(_) F(T) == IF T = {} THEN 1 ELSE
                       LET m == CHOOSE m \in T : TRUE
                           num == (x0 - (m + 1)) % G.q
                           den == ((j + 1) - (m + 1)) % G.q
                       IN (((num * InvM(den, G.q)) % G.q) * F(T \ {m})) % G.q
                 IN F(S \ {j})
      RECURSIVE Sum(_) Sum(T) == IF T = {} THEN 0 ELSE
            LET j == CHOOSE j \in T : TRUE IN (((Coef(j) * (sh[j] % G.q)) % G.q) + Sum(T \ {j})) % G.q
  IN Sum(S)
RECURSIVE ProdOver(_, _, _)      \* product over the set S of f[j] modulo p
ProdOver(G, S, f) == IF S = {} THEN 1 ELSE LET j == CHOOSE j \in S : TRUE IN GMul(G, f[j], ProdOver(G, S \ {j}, f))

Item(F, j, k) == IF k <= Len(F[j + 1]) THEN F[j + 1][k] ELSE [ok |-> FALSE, v |-> 0]
Rd(ch, j, it) == [from |-> j, ok |-> it.ok, v |-> IF it.ok THEN it.v ELSE 0, ch |-> ch]
MsgB(ch, v) == [kind |-> "B", to |-> -1, v |-> v, ch |-> ch]
MsgS(to, v) == [kind |-> "S", to |-> to, v |-> v, ch |-> ChP]
Zeros(W) == [j \in 1..W.n |-> 0]
ZeroRows(W) == [j \in 1..W.n |-> [k \in 1..(W.t + 1) |-> 0]]

Fresh(W, i) ==
  [i |-> i, pc |-> "init", ch |-> ChG, a |-> <<>>, b |-> <<>>,
   C |-> ZeroRows(W), s |-> Zeros(W), sp |-> Zeros(W), gs |-> [j \in 1..W.n |-> 1],
   cmp |-> {}, cnt |-> Zeros(W), frm |-> {}, accu |-> [j \in 1..W.n |-> {}], adopted |-> {}, dq |-> {}, qual |-> {},
   x |-> 0, xp |-> 0, A |-> ZeroRows(W), xc |-> {}, D |-> <<>>, r |-> 0,
   z |-> Zeros(W), rf |-> [j \in 1..W.n |-> Zeros(W)], y |-> 1, v |-> Zeros(W), yi |-> Zeros(W), ret |-> FALSE]

(***************************************************************************)
(* Style note: every loop of a phase is a (mutually) recursive operator at   *)
(* module level and every intermediate result that is used more than once   *)
(* travels as an operator argument, so that it is evaluated once.            *)
(***************************************************************************)
VZ(G, v) == IF InRange(G, v) THEN v ELSE 0            \* D1: an out-of-range value is replaced by 0 (and held against the sender)
AddRd(acc, ch, j, it) == [acc EXCEPT !.reads = Append(@, Rd(ch, j, it))]
Eq4(G, Crow, at, s, sp) == Pedersen(G, s, sp) = CommitEval(G, Crow, at, 1)      \* equation (4) for the pair (s, s') of the party with index `at'
Eq5(G, Arow, at, gs) == gs = CommitEval(G, Arow, at, 1)                       \* equation (5), gs = g^s

\* ---------------------------------------------------------------- 1(a)
Deal2(W, i, a, b, Ci) ==
  [st |-> [Fresh(W, i) EXCEPT !.pc = "rdC", !.a = a, !.b = b, !.C[i + 1] = Ci, !.z[i + 1] = a[1]],
   out |-> [k \in 1..(W.t + 1) |-> MsgB(ChG, Ci[k])], reads |-> <<>>]
Deal(W, i, a, b) == Deal2(W, i, a, b, [k \in 1..(W.t + 1) |-> Pedersen(W.G, a[k], b[k])])

\* commitments of the others are read; then the shares go out
RECURSIVE CK(_, _, _, _, _), CK1(_, _, _, _, _, _)
CK(W, F, j, k, acc) == IF k > W.t + 1 THEN acc ELSE CK1(W, F, j, k, acc, Item(F, j, k))
CK1(W, F, j, k, acc, it) ==
  IF ~it.ok THEN [AddRd(acc, ChG, j, it) EXCEPT !.cmp = @ \cup {j}]
  ELSE IF IsElem(W.G, it.v) THEN CK(W, F, j, k + 1, [AddRd(acc, ChG, j, it) EXCEPT !.C[j + 1][k] = it.v])
  ELSE CK(W, F, j, k + 1, [AddRd(acc, ChG, j, it) EXCEPT !.cmp = @ \cup {j}, !.C[j + 1][k] = 0])
RECURSIVE CJ(_, _, _, _, _)
CJ(W, F, i, j, acc) == IF j >= W.n THEN acc ELSE IF j = i THEN CJ(W, F, i, j + 1, acc) ELSE CJ(W, F, i, j + 1, CK(W, F, j, 1, acc))
RdC2(W, st, r, oth) ==
  [st |-> [st EXCEPT !.pc = "rdS", !.C = r.C, !.cmp = r.cmp, !.s[st.i + 1] = Eval(W.G, st.a, st.i + 1), !.sp[st.i + 1] = Eval(W.G, st.b, st.i + 1)],
   out |-> [m \in 1..(2 * Len(oth)) |-> IF m % 2 = 1 THEN MsgS(oth[(m + 1) \div 2], Eval(W.G, st.a, oth[(m + 1) \div 2] + 1))
                                         ELSE MsgS(oth[(m + 1) \div 2], Eval(W.G, st.b, oth[(m + 1) \div 2] + 1))],
   reads |-> r.reads]
RdC(W, st, F) == RdC2(W, st, CJ(W, F, st.i, 0, [C |-> st.C, cmp |-> {}, reads |-> <<>>]), AscSeq(Parties(W) \ {st.i}))

\* ---------------------------------------------------------------- 1(b)
SJ1(W, j, acc, it1, it2) ==
  IF ~it1.ok THEN [AddRd(acc, ChP, j, it1) EXCEPT !.cmp = @ \cup {j}]
  ELSE IF ~it2.ok THEN [AddRd(AddRd(acc, ChP, j, it1), ChP, j, it2) EXCEPT !.s[j + 1] = VZ(W.G, it1.v), !.cmp = @ \cup {j}]
  ELSE [AddRd(AddRd(acc, ChP, j, it1), ChP, j, it2) EXCEPT !.s[j + 1] = VZ(W.G, it1.v), !.sp[j + 1] = VZ(W.G, it2.v),
                                                      !.cmp = IF InRange(W.G, it1.v) /\ InRange(W.G, it2.v) THEN @ ELSE @ \cup {j}]
RECURSIVE SJ(_, _, _, _, _)
SJ(W, F, i, j, acc) == IF j >= W.n THEN acc ELSE IF j = i THEN SJ(W, F, i, j + 1, acc)
                       ELSE SJ(W, F, i, j + 1, SJ1(W, j, acc, Item(F, j, 1), Item(F, j, 2)))
RdS3(W, st, r, K, ks) ==
  [st |-> [st EXCEPT !.pc = "rdK", !.s = r.s, !.sp = r.sp, !.cmp = K,
                     !.gs = [j \in 1..W.n |-> GExp(W.G, W.G.g, r.s[j])],
                     !.cnt = [j \in 1..W.n |-> IF (j - 1) \in K THEN 1 ELSE 0],
                     !.accu = [j \in 1..W.n |-> IF (j - 1) \in K THEN {st.i} ELSE {}]],
   out |-> [m \in 1..(Len(ks) + 1) |-> IF m <= Len(ks) THEN MsgB(ChG, ks[m]) ELSE MsgB(ChG, W.n)],
   reads |-> r.reads]
RdS2(W, st, r, K) == RdS3(W, st, r, K, AscSeq(K))
RdS1(W, st, r) == RdS2(W, st, r, r.cmp \cup {j \in Parties(W) : ~Eq4(W.G, st.C[j + 1], st.i, r.s[j + 1], r.sp[j + 1])})
RdS(W, st, F) == RdS1(W, st, SJ(W, F, st.i, 0, [s |-> st.s, sp |-> st.sp, cmp |-> st.cmp, reads |-> <<>>]))

\* ---------------------------------------------------------------- complaints of the others, 1(c)
RECURSIVE KC(_, _, _, _, _, _, _), KC1(_, _, _, _, _, _, _, _), KC2(_, _, _, _, _, _, _, _), KC3(_, _, _, _, _, _, _)
KC(W, F, i, j, c, dup, acc) == KC1(W, F, i, j, c, dup, acc, Item(F, j, c + 1))
KC1(W, F, i, j, c, dup, acc, it) ==
  IF ~it.ok THEN [AddRd(acc, ChG, j, it) EXCEPT !.dq = @ \cup {j}]
  ELSE KC2(W, F, i, j, c, dup, AddRd(acc, ChG, j, it), Abs(it.v))
KC2(W, F, i, j, c, dup, acc, who) ==
  IF who >= W.n THEN acc                                                                            \* end marker
  ELSE IF who \notin dup
       THEN KC3(W, F, i, j, c, dup \cup {who}, [acc EXCEPT !.cnt[who + 1] = @ + 1, !.accu[who + 1] = @ \cup {j},
                                                          !.frm = IF who = i THEN @ \cup {j} ELSE @])
       ELSE KC3(W, F, i, j, c, dup, [acc EXCEPT !.dq = @ \cup {j}])                                 \* D1: repeated complaint
KC3(W, F, i, j, c, dup, acc) == IF c + 1 <= W.n THEN KC(W, F, i, j, c + 1, dup, acc) ELSE acc
RECURSIVE KJ(_, _, _, _, _)
KJ(W, F, i, j, acc) == IF j >= W.n THEN acc ELSE IF j = i THEN KJ(W, F, i, j + 1, acc) ELSE KJ(W, F, i, j + 1, KC(W, F, i, j, 0, {}, acc))
RdK2(W, st, r, fs) ==
  [st |-> [st EXCEPT !.pc = "rdN", !.cnt = r.cnt, !.accu = r.accu, !.frm = r.frm, !.dq = r.dq],
   out |-> [m \in 1..(3 * Len(fs) + 1) |->
              IF m > 3 * Len(fs) THEN MsgB(ChG, W.n)
              ELSE IF m % 3 = 1 THEN MsgB(ChG, fs[(m + 2) \div 3])
              ELSE IF m % 3 = 2 THEN MsgB(ChG, Eval(W.G, st.a, fs[(m + 2) \div 3] + 1))
              ELSE MsgB(ChG, Eval(W.G, st.b, fs[(m + 2) \div 3] + 1))],
   reads |-> r.reads]
RdK1(W, st, r) == RdK2(W, st, r, IF r.cnt[st.i + 1] > 0 THEN AscSeq(r.frm) ELSE <<>>)
RdK(W, st, F) == RdK1(W, st, KJ(W, F, st.i, 0, [cnt |-> st.cnt, accu |-> st.accu, frm |-> {}, dq |-> {}, reads |-> <<>>]))

\* ---------------------------------------------------------------- 1(d), 2, 3, 4(a)
RECURSIVE NA(_, _, _, _, _, _, _), NA1(_, _, _, _, _, _, _, _), NA2(_, _, _, _, _, _, _, _, _, _), NA3(_, _, _, _, _, _, _, _, _, _, _), NA4(_, _, _, _, _, _, _)
NA(W, st, F, j, pos, c, acc) == NA1(W, st, F, j, pos, c, acc, Item(F, j, pos + 1))
NA1(W, st, F, j, pos, c, acc, it) ==
  IF ~it.ok THEN [AddRd(acc, ChG, j, it) EXCEPT !.dq = @ \cup {j}]
  ELSE IF Abs(it.v) >= W.n THEN AddRd(acc, ChG, j, it)                                               \* end marker
  ELSE NA2(W, st, F, j, pos, c, AddRd(acc, ChG, j, it), Abs(it.v), Item(F, j, pos + 2), Item(F, j, pos + 3))
NA2(W, st, F, j, pos, c, acc, who, i2, i3) ==
  IF ~i2.ok THEN [AddRd(acc, ChG, j, i2) EXCEPT !.dq = @ \cup {j}]
  ELSE IF ~i3.ok THEN [AddRd(AddRd(acc, ChG, j, i2), ChG, j, i3) EXCEPT !.dq = @ \cup {j}]
  ELSE NA3(W, st, F, j, pos, c, [AddRd(AddRd(acc, ChG, j, i2), ChG, j, i3) EXCEPT !.dq = IF InRange(W.G, i2.v) /\ InRange(W.G, i3.v) THEN @ ELSE @ \cup {j}],
           who, VZ(W.G, i2.v), VZ(W.G, i3.v), Eq4(W.G, st.C[j + 1], who, VZ(W.G, i2.v), VZ(W.G, i3.v)))
NA3(W, st, F, j, pos, c, acc, who, foo, bar, good) ==
  NA4(W, st, F, j, pos, c,
      IF ~good THEN [acc EXCEPT !.dq = @ \cup {j}]
      ELSE IF who # st.i THEN [acc EXCEPT !.ans = @ \cup {who}]
      ELSE [acc EXCEPT !.ans = @ \cup {who}, !.s[j + 1] = foo, !.sp[j + 1] = bar, !.adopted = @ \cup {j},             \* D3
                       !.gs[j + 1] = IF FreshImage THEN GExp(W.G, W.G.g, foo) ELSE @])
NA4(W, st, F, j, pos, c, acc) == IF c + 1 <= W.n THEN NA(W, st, F, j, pos + 3, c + 1, acc) ELSE acc
NJ1(W, st, j, r1) == IF UnansweredRule /\ ~(st.accu[j + 1] \subseteq r1.ans) THEN [r1 EXCEPT !.dq = @ \cup {j}] ELSE r1
RECURSIVE NJ(_, _, _, _, _)
NJ(W, st, F, j, acc) ==
  IF j >= W.n THEN acc
  ELSE IF st.cnt[j + 1] > W.t THEN NJ(W, st, F, j + 1, [acc EXCEPT !.dq = @ \cup {j}])                                \* D2
  ELSE IF j = st.i THEN NJ(W, st, F, j + 1, acc)
  ELSE NJ(W, st, F, j + 1, NJ1(W, st, j, NA(W, st, F, j, 0, 0, [acc EXCEPT !.ans = {}])))
RECURSIVE SumQ(_, _, _)
SumQ(G, S, f) == IF S = {} THEN 0 ELSE LET j == CHOOSE j \in S : TRUE IN ((f[j + 1] % G.q) + SumQ(G, S \ {j}, f)) % G.q
RdN3(W, st1, r, Q, Ai) ==
  IF st1.i \notin Q \/ Cardinality(Q) <= W.t
  THEN [st |-> [st1 EXCEPT !.pc = "done", !.ret = FALSE], out |-> <<>>, reads |-> r.reads]
  ELSE [st |-> [st1 EXCEPT !.pc = "rdA", !.A[st1.i + 1] = Ai], out |-> [k \in 1..(W.t + 1) |-> MsgB(ChG, Ai[k])], reads |-> r.reads]
RdN2(W, st, r, Q) ==
  RdN3(W, [st EXCEPT !.dq = r.dq, !.s = r.s, !.sp = r.sp, !.gs = r.gs, !.adopted = r.adopted, !.qual = Q,
                     !.x = SumQ(W.G, Q, r.s), !.xp = SumQ(W.G, Q, r.sp)],
       r, Q, [k \in 1..(W.t + 1) |-> GExp(W.G, W.G.g, st.a[k])])
RdN1(W, st, r) == RdN2(W, st, r, Parties(W) \ r.dq)
RdN(W, st, F) == RdN1(W, st, NJ(W, st, F, 0, [dq |-> st.dq, s |-> st.s, sp |-> st.sp, gs |-> st.gs, adopted |-> {}, ans |-> {}, reads |-> <<>>]))

\* ---------------------------------------------------------------- 4(b)
RECURSIVE AK(_, _, _, _, _), AK1(_, _, _, _, _, _)
AK(W, F, j, k, acc) == IF k > W.t + 1 THEN acc ELSE AK1(W, F, j, k, acc, Item(F, j, k))
AK1(W, F, j, k, acc, it) ==
  IF ~it.ok THEN [AddRd(acc, ChG, j, it) EXCEPT !.xc = @ \cup {j}]
  ELSE IF IsElem(W.G, it.v) THEN AK(W, F, j, k + 1, [AddRd(acc, ChG, j, it) EXCEPT !.A[j + 1][k] = it.v])
  ELSE AK(W, F, j, k + 1, [AddRd(acc, ChG, j, it) EXCEPT !.xc = @ \cup {j}, !.A[j + 1][k] = 0])
AJ1(W, st, j, r1) == IF Eq5(W.G, r1.A[j + 1], st.i, st.gs[j + 1]) THEN r1 ELSE [r1 EXCEPT !.xc = @ \cup {j}]
RECURSIVE AJ(_, _, _, _, _, _)
AJ(W, st, F, qs, m, acc) == IF m > Len(qs) THEN acc ELSE AJ(W, st, F, qs, m + 1, AJ1(W, st, qs[m], AK(W, F, qs[m], 1, acc)))
RdA2(W, st, r, xs) ==
  [st |-> [st EXCEPT !.pc = "rdX", !.A = r.A, !.xc = r.xc],
   out |-> [m \in 1..(3 * Len(xs) + 1) |->
              IF m > 3 * Len(xs) THEN MsgB(ChG, W.n)
              ELSE IF m % 3 = 1 THEN MsgB(ChG, xs[(m + 2) \div 3])
              ELSE IF m % 3 = 2 THEN MsgB(ChG, st.s[xs[(m + 2) \div 3] + 1])
              ELSE MsgB(ChG, st.sp[xs[(m + 2) \div 3] + 1])],
   reads |-> r.reads]
RdA1(W, st, r) == RdA2(W, st, r, AscSeq(r.xc))
RdA(W, st, F) == RdA1(W, st, AJ(W, st, F, AscSeq(st.qual \ {st.i}), 1, [A |-> st.A, xc |-> {}, reads |-> <<>>]))

\* ---------------------------------------------------------------- the end of a successful run
FinAt(W, st, DS, d, j) == IF d \in DS THEN GExp(W.G, W.G.g, st.rf[d + 1][j + 1]) ELSE CommitEval(W.G, st.A[d + 1], j, 1)
Finish2(W, st, DS, yi) ==
  [st EXCEPT !.pc = "done", !.ret = TRUE, !.yi = yi,
             !.y = ProdOver(W.G, st.qual, [j \in st.qual |-> yi[j + 1]]),
             !.v = [m \in 1..W.n |-> IF (m - 1) \in st.qual THEN ProdOver(W.G, st.qual, [d \in st.qual |-> FinAt(W, st, DS, d, m - 1)]) ELSE 0]]
Finish1(W, st, DS) ==
  Finish2(W, st, DS, [m \in 1..W.n |-> IF (m - 1) \in st.qual THEN (IF (m - 1) \in DS THEN GExp(W.G, W.G.g, st.z[m]) ELSE st.A[m][1]) ELSE 0])
Finish(W, st) == Finish1(W, st, SetOfSeq(st.D))
RecOut(st, d) == IF st.i \in SetOfSeq(st.D) THEN <<>> ELSE <<MsgB(st.D, st.s[d + 1]), MsgB(st.D, st.sp[d + 1])>>

\* ---------------------------------------------------------------- 4(c): the extraction complaints are judged
RECURSIVE XA(_, _, _, _, _, _, _), XA1(_, _, _, _, _, _, _, _), XA2(_, _, _, _, _, _, _, _, _, _), XA3(_, _, _, _, _, _, _, _, _, _), XA4(_, _, _, _, _, _, _)
XA(W, st, F, j, pos, c, acc) == XA1(W, st, F, j, pos, c, acc, Item(F, j, pos + 1))
XA1(W, st, F, j, pos, c, acc, it) ==
  IF ~it.ok THEN [AddRd(acc, ChG, j, it) EXCEPT !.xd = @ \cup {j}]
  ELSE IF Abs(it.v) >= W.n THEN AddRd(acc, ChG, j, it)
  ELSE XA2(W, st, F, j, pos, c, AddRd(acc, ChG, j, it), Abs(it.v), Item(F, j, pos + 2), Item(F, j, pos + 3))
XA2(W, st, F, j, pos, c, acc, who, i2, i3) ==
  IF ~i2.ok THEN [AddRd(acc, ChG, j, i2) EXCEPT !.xd = @ \cup {j}]
  ELSE IF ~i3.ok THEN [AddRd(AddRd(acc, ChG, j, i2), ChG, j, i3) EXCEPT !.xd = @ \cup {j}]
  ELSE XA3(W, st, F, j, pos, c, [AddRd(AddRd(acc, ChG, j, i2), ChG, j, i3) EXCEPT !.xd = IF InRange(W.G, i2.v) /\ InRange(W.G, i3.v) THEN @ ELSE @ \cup {j}],
           who,
           Eq4(W.G, st.C[who + 1], j, VZ(W.G, i2.v), VZ(W.G, i3.v)),                     \* (4) for the pair P_j holds from P_who
           Eq5(W.G, st.A[who + 1], j, GExp(W.G, W.G.g, VZ(W.G, i2.v))))                 \* (5)
XA3(W, st, F, j, pos, c, acc, who, ok4, ok5) ==
  XA4(W, st, F, j, pos, c,
      IF ~ok4 THEN [acc EXCEPT !.xd = @ \cup {j}]                                                     \* D4
      ELSE IF ~ok5 THEN (IF who \in st.qual THEN [acc EXCEPT !.xd = @ \cup {who}] ELSE acc)             \* a valid complaint
      ELSE [acc EXCEPT !.xd = @ \cup {j}])                                                            \* D4
XA4(W, st, F, j, pos, c, acc) == IF c + 1 <= W.n THEN XA(W, st, F, j, pos + 3, c + 1, acc) ELSE acc
RECURSIVE XJ(_, _, _, _, _, _)
XJ(W, st, F, qs, m, acc) == IF m > Len(qs) THEN acc ELSE XJ(W, st, F, qs, m + 1, XA(W, st, F, qs[m], 0, 0, acc))
RdX3(W, st2, r) == [st |-> st2, out |-> RecOut(st2, st2.D[1]), reads |-> r.reads]
RdX2(W, st, r, D) ==
  IF Len(D) > W.t THEN [st |-> [st EXCEPT !.D = D, !.pc = "done", !.ret = FALSE], out |-> <<>>, reads |-> r.reads]
  ELSE IF D = <<>> THEN [st |-> Finish(W, [st EXCEPT !.D = D]), out |-> <<>>, reads |-> r.reads]
  ELSE RdX3(W, [st EXCEPT !.D = D, !.pc = "rec", !.ch = D, !.r = 1], r)
RdX1(W, st, r) == RdX2(W, st, r, AscSeq(r.xd))
RdX(W, st, F) == RdX1(W, st, XJ(W, st, F, AscSeq(st.qual \ {st.i}), 1, [xd |-> {}, reads |-> <<>>]))

\* ---------------------------------------------------------------- reconstruction of the polynomial of d = D[r]
RJ1(W, st, d, j, acc, it1, it2) ==
  IF ~it1.ok THEN AddRd(acc, st.D, j, it1)
  ELSE IF ~it2.ok THEN AddRd(AddRd(acc, st.D, j, it1), st.D, j, it2)
  ELSE IF InRange(W.G, it1.v) /\ InRange(W.G, it2.v) /\ Eq4(W.G, st.C[d + 1], j, it1.v, it2.v)
       THEN [AddRd(AddRd(acc, st.D, j, it1), st.D, j, it2) EXCEPT !.good = Append(@, j), !.sh[j + 1] = it1.v]
       ELSE AddRd(AddRd(acc, st.D, j, it1), st.D, j, it2)
RECURSIVE RJ(_, _, _, _, _, _, _)
RJ(W, st, F, d, js, m, acc) == IF m > Len(js) THEN acc ELSE RJ(W, st, F, d, js, m + 1, RJ1(W, st, d, js[m], acc, Item(F, js[m], 1), Item(F, js[m], 2)))
Rec4(W, st1, r) ==
  IF st1.r < Len(st1.D)
  THEN [st |-> [st1 EXCEPT !.r = @ + 1], out |-> RecOut(st1, st1.D[st1.r + 1]), reads |-> r.reads]
  ELSE [st |-> Finish(W, st1), out |-> <<>>, reads |-> r.reads]
Rec3(W, st, r, d, S, shf) ==
  Rec4(W, [st EXCEPT !.z[d + 1] = LagrangeAt(W.G, S, shf, 0), !.rf[d + 1] = [m \in 1..W.n |-> LagrangeAt(W.G, S, shf, m)]], r)
Rec2(W, st, r, d, parties) ==                                                                                       \* D5
  IF Len(parties) <= W.t THEN [st |-> [st EXCEPT !.pc = "done", !.ret = FALSE], out |-> <<>>, reads |-> r.reads]
  ELSE Rec3(W, st, r, d, SetOfSeq(SubSeq(parties, 1, W.t + 1)), [j \in SetOfSeq(SubSeq(parties, 1, W.t + 1)) |-> r.sh[j + 1]])
Rec1(W, st, r, d) == Rec2(W, st, r, d, <<st.i>> \o r.good)
Rec(W, st, F) ==
  Rec1(W, st, RJ(W, st, F, st.D[st.r], AscSeq((st.qual \ {st.i}) \ SetOfSeq(st.D)), 1,
                 [good |-> <<>>, sh |-> [Zeros(W) EXCEPT ![st.i + 1] = st.s[st.D[st.r] + 1]], reads |-> <<>>]),
       st.D[st.r])

Phase(W, st, F) ==
  CASE st.pc = "rdC" -> RdC(W, st, F)
    [] st.pc = "rdS" -> RdS(W, st, F)
    [] st.pc = "rdK" -> RdK(W, st, F)
    [] st.pc = "rdN" -> RdN(W, st, F)
    [] st.pc = "rdA" -> RdA(W, st, F)
    [] st.pc = "rdX" -> RdX(W, st, F)
    [] st.pc = "rec" -> Rec(W, st, F)
\* the channel a party in state st reads next
ReadCh(st) == IF st.pc = "rdS" THEN ChP ELSE IF st.pc = "rec" THEN st.D ELSE ChG

(***************************************************************************)
(* The property (C15 for New-DKG) on the final states fin[i] of the honest  *)
(* parties H (a set of indices), a[i] their polynomials f_i.                *)
(***************************************************************************)
PComplete(W, H, fin) == \A i \in H : fin[i].pc = "done" /\ fin[i].ret
PAgree(W, H, fin) == \A a, b \in H : fin[a].qual = fin[b].qual /\ fin[a].y = fin[b].y /\ fin[a].v = fin[b].v /\ fin[a].yi = fin[b].yi
PHonestQualified(W, H, fin) == \A i \in H : H \subseteq fin[i].qual
\* the share matches the public verification value, and the Pedersen one
PShareV(W, H, fin) == \A i, k \in H : fin[k].v[i + 1] = GExp(W.G, W.G.g, fin[i].x)
PSharePedersen(W, H, fin) ==
  \A i \in H : Pedersen(W.G, fin[i].x, fin[i].xp) = ProdOver(W.G, fin[i].qual, [j \in fin[i].qual |-> CommitEval(W.G, fin[i].C[j + 1], i, 1)])
\* a dealer that handed out a pair inconsistent with its commitments is disqualified or has published a consistent one
PDealerConsistent(W, H, fin) ==
  \A i \in H : \A j \in fin[i].qual : Pedersen(W.G, fin[i].s[j + 1], fin[i].sp[j + 1]) = CommitEval(W.G, fin[i].C[j + 1], i, 1)
\* any t+1 honest shares interpolate to one x with g^x = y
POneSecret(W, H, fin) ==
  Cardinality(H) >= W.t + 1 =>
    LET subs == SubsetsOfSize(H, W.t + 1)
        sh == [i \in H |-> fin[i].x]
        x0 == Interpolate(W.G, CHOOSE S \in subs : TRUE, sh)
    IN /\ \A S \in subs : Interpolate(W.G, S, sh) = x0
       /\ \A i \in H : GExp(W.G, W.G.g, x0) = fin[i].y
\* the key contains the contribution of every honest party, and no honest party's polynomial is made public
PHonestContribute(W, H, fin) == \A i, j \in H : fin[i].yi[j + 1] = GExp(W.G, W.G.g, fin[j].a[1])
PHonestNotReconstructed(W, H, fin) == \A i \in H : SetOfSeq(fin[i].D) \cap H = {}
PAll(W, H, fin) ==
  /\ PComplete(W, H, fin) /\ PAgree(W, H, fin) /\ PHonestQualified(W, H, fin) /\ PShareV(W, H, fin) /\ PSharePedersen(W, H, fin)
  /\ PDealerConsistent(W, H, fin) /\ POneSecret(W, H, fin) /\ PHonestContribute(W, H, fin) /\ PHonestNotReconstructed(W, H, fin)
=============================================================================
