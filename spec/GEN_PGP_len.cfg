\* quick-tier configuration of family len (checks/c19.py writes the per-tier/per-seed variant to out/C19/cfg)
SPECIFICATION Spec
CONSTANTS
 Family = "len"
 Lo = 0
 Hi = 1000000
 W = 2
 Seed = 1
INVARIANTS Theorems Emit
CHECK_DEADLOCK FALSE
