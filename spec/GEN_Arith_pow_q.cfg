SPECIFICATION Spec
CONSTANTS
 Fam = "pow"
 P <- PQuick
INVARIANTS Theorems Emit
CHECK_DEADLOCK FALSE
