SPECIFICATION MCSpec
CONSTANTS
 N = 2
 Auth = TRUE
 Enc = FALSE
 Chunked = FALSE
 Variant = "select"
 MACLEN = 2
 BLK = 2
 BUFSZ = 12
 Delim = 63
 NoVal <- NoValMC
 Rcv = 1
 Prog <- ProgArr
 MaxFault = 0
 Kinds <- AllKinds
 Scheds = {1,3}
 ArrSize = 2
 TagNL <- NoTagNL
 IvNL = {}
INVARIANTS InOrderI CompleteAlways AuthSafeI NothingForged FramesFit ArraysWholeI
PROPERTIES StoppedStays
CHECK_DEADLOCK FALSE
