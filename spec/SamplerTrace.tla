---------------------------- MODULE SamplerTrace ----------------------------
(***************************************************************************)
(* Direction B for C07: a log recorded from the real samplers               *)
(* (harness/drv_sampler.cc record ...) must be explained by Sampler.tla.    *)
(* One event = one public call: the 64-bit words / byte strings the library *)
(* actually drew from the coin source (seam_rng in record mode; some of     *)
(* them dictated by the driver so that rejected words occur), the quality   *)
(* level it asked for, and what it returned.  The spec recomputes the       *)
(* result from the logged coins; the number of coins consumed must be exact.*)
(* Base = 256, WordLen = 8: numbers are little-endian byte strings.         *)
(***************************************************************************)
EXTENDS Sampler, Json, IOUtils, TLCExt

TraceFile == IF "TRACE" \in DOMAIN IOEnv THEN IOEnv.TRACE ELSE "trace.ndjson"
TraceLog == ndJsonDeserialize(TraceFile)

VARIABLE l
Ev == TraceLog[l]
IsEv(name) == l <= Len(TraceLog) /\ Ev.e = name
NoExc == "exc" \notin DOMAIN Ev
LevelsOK(lvl, lv) == \A k \in 1..Len(lv) : LevelOK(lvl, lv[k])
WordsOK(ws) == \A k \in 1..Len(ws) : IsWord(ws[k])

\* TMCG_CreateStackSecret(cyclic = false) / random_permutation_fast
TPerm ==
  /\ IsEv("Perm") /\ NoExc
  /\ WordsOK(Ev.ws)
  /\ LET r == PermRun(Ev.n, Ev.ws)
     IN /\ r.ok /\ r.used = Len(Ev.ws)          \* every word drawn is needed, none is missing
        /\ r.pi = Ev.pi
        /\ IsPerm(Ev.pi, Ev.n)
        /\ Ev.ret = 0
  /\ LevelsOK("s", Ev.lv) /\ Len(Ev.lv) = Len(Ev.ws)
  /\ l' = l + 1

\* TMCG_CreateStackSecret(cyclic = true) / random_rotation
TRot ==
  /\ IsEv("Rot") /\ NoExc
  /\ WordsOK(Ev.ws)
  /\ LET r == RotRun(Ev.n, Ev.ws)
     IN /\ r.ok /\ r.used = Len(Ev.ws)
        /\ r.pi = Ev.pi /\ r.ret = Ev.ret
        /\ Ev.n > 0 => IsCyclicShift(Ev.pi, Ev.n) /\ Ev.ret \in 0..(Ev.n - 1)
  /\ LevelsOK("s", Ev.lv) /\ Len(Ev.lv) = Len(Ev.ws)
  /\ l' = l + 1

\* tmcg_mpz_{ss,s,w}random_mod
TMod ==
  /\ IsEv("Mod") /\ NoExc
  /\ WordsOK(Ev.ws) /\ Ev.m = Trim(Ev.m) /\ Ev.m # <<>>
  /\ LET r == ModRun(Ev.m, Ev.ws)
     IN /\ r.ok /\ r.used = Len(Ev.ws)
        /\ r.val = Ev.val
        /\ Less(Ev.val, Ev.m)                   \* never outside the range
  /\ LevelsOK(Ev.lvl, Ev.lv) /\ Len(Ev.lv) = Len(Ev.ws)
  /\ l' = l + 1

\* tmcg_mpz_{ss,s,w}randomm
TRes ==
  /\ IsEv("Res") /\ NoExc
  /\ Ev.m = Trim(Ev.m) /\ Ev.m # <<>>
  /\ Len(Ev.draws) = 1                          \* exactly one draw ...
  /\ Len(Ev.draws[1]) = ResidueLen(Ev.m)        \* ... of |m| + 64 bits, rounded up to bytes
  /\ Less(Ev.val, Ev.m)                        \* never outside the range
  \* val = draw mod m.  By definition: draw = q*m + val with 0 <= val < m; the log carries a candidate q (a hint,
  \* not trusted - no other q can satisfy the equation); for moduli up to 192 bits it is also computed by division
  /\ EqNum(Add(Mul(Ev.m, Ev.qh), Ev.val), Rev(Ev.draws[1]))
  /\ Len(Ev.m) <= 24 => ResidueVal(Ev.m, Ev.draws[1]) = Ev.val
  /\ \A k \in 1..Len(Ev.lv) : LevelOK(Ev.lvl, Ev.lv[k]) /\ Ev.lv[k] # -1
  /\ l' = l + 1

TInit == l = 1
TNext == TPerm \/ TRot \/ TMod \/ TRes
TSpec == TInit /\ [][TNext]_l

Accepted == TLCGet("stats").diameter = Len(TraceLog) + 1
=============================================================================
