SPECIFICATION Spec
CONSTANTS
 MaxP = 90
 MaxQ = 45
 MaxK = 10
 Margin = 4
 Variants <- V_com2v
 NaiveMaxP = 0
 Mode = "acc"
 CheckArith = FALSE
INVARIANTS BlockIsDefinition Sound Complete Shape Elements Emit
CHECK_DEADLOCK FALSE
